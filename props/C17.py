"""C17 - see properties.jsonl; DESIGN.md section 5."""
from ._generic import run_property

EXPLANATION = 'Bounded / enumerated (nothing here is a deductive proof). Finite table lemma executed on the real code: for every (physical type x converted type x logical type) combination the format allows for a flat leaf, the dtype typemap()/ParquetFile._dtypes announces is compatible with what convert(read_plain(...)) returns (40 combinations, complete for that finite table; backend = execution, not SMT). Plus: metadata-only answers (columns, dtypes, categories, cats, index, counts) vs the frame actually read, over read-option tuples and own/foreign/partitioned files.'


def p_parts():
    from ._typemap import p_typemap
    from ._cats import p_cats
    from ._handles import p_handles
    from ._generic import optional_parts
    return [p_typemap, p_cats, p_handles] + optional_parts(("_makemeta", "p_makemeta"), ("_readoptions", "p_readoptions"))


def run(ctx):
    return run_property(ctx, 'exploration', EXPLANATION, p_parts=p_parts(), b_modules=['c17_meta_vs_read'],
                        assumptions=["pandas / numpy / cramjam behaviour inside every opaque value",
                                     "the oracle (plain pandas / the spec library under /verif/spec) is a faithful reading of the property"],
                        trusted=["bounded layer: enumerated inputs only; nothing outside the stated bound is covered"])
