"""C17 - see properties.jsonl; DESIGN.md section 5."""
from ._generic import run_property

EXPLANATION = ('P (discharged for all sizes, symbolic execution of the real source + z3): writer.make_metadata column bookkeeping and pandas metadata (one schema element / one pandas-metadata column per frame column, names normalised, index columns), ParquetFile._dtypes column independence and override handling, derived-handle state and counts (__getitem__ / __setstate__ / _set_attrs / count / info / __len__), read-option provenance from to_pandas down to read_col, writer.consolidate_categories and its call sites. ENUMERATION (executed on the real code, complete for the finite table, not a deductive proof): for every (physical type x converted type x logical type) combination the format allows for a flat leaf, the dtype typemap()/ParquetFile._dtypes announces is compatible with what convert(read_plain(...)) returns; the pandas-metadata dtype rows. B (bounded): metadata-only answers (columns, dtypes, categories, cats, index, counts) vs the frame actually read, over read-option tuples and own/foreign/partitioned files.')


def p_parts():
    from ._typemap import p_typemap
    from ._cats import p_cats
    from ._handles import p_handles
    from ._generic import optional_parts
    return [p_typemap, p_cats, p_handles] + optional_parts(("_makemeta", "p_makemeta"), ("_readoptions", "p_readoptions"), ("_pages", "p_catlabels"), ("_pathconv", "p_read_partitions"))


def run(ctx):
    return run_property(ctx, 'other', EXPLANATION, p_parts=p_parts(), b_modules=['c17_meta_vs_read'],
                        assumptions=["pandas / numpy / cramjam behaviour inside every opaque value",
                                     "the oracle (plain pandas / the spec library under /verif/spec) is a faithful reading of the property"],
                        trusted=["bounded layer: enumerated inputs only; nothing outside the stated bound is covered"])
