"""C17 - see properties.jsonl; DESIGN.md section 5."""
from ._generic import run_property

EXPLANATION = 'Bounded stand-in: metadata-only answers (columns, dtypes, categories, cats, index, counts) vs the frame actually read, over read-option tuples and own/foreign/partitioned files.'


def p_parts():
    return []


def run(ctx):
    return run_property(ctx, 'exploration', EXPLANATION, p_parts=p_parts(), b_modules=['c17_meta_vs_read'],
                        assumptions=["pandas / numpy / cramjam behaviour inside every opaque value",
                                     "the oracle (plain pandas / the spec library under /verif/spec) is a faithful reading of the property"],
                        trusted=["bounded layer: enumerated inputs only; nothing outside the stated bound is covered"])
