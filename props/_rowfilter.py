"""P part of C13: row-level filtering (api.ParquetFile._column_filter / _columns_from_filters / to_pandas mask branch / count /
read_row_group_file stand-alone and pass-through branches)."""
import re

from contracts import c13_rowfilter as C
from vlib.common import PROVED, REFUTED, UNKNOWN

# refuted obligation -> known finding (either id of the same defect may be the one listed)
KNOWN = [
    ((C.FID_PARTITION, C.FID_PARTITION_B), re.compile(r"^column_filter\.partition_atoms_honoured\[")),
    ((C.FID_UNKNOWN_OP,), re.compile(r"^column_filter\.unknown_operator_never_true\[")),
]
FUNCTION = {"column_filter": "api.ParquetFile._column_filter", "ops_table": "api.ParquetFile._column_filter",
            "columns_from_filters": "api.ParquetFile._columns_from_filters", "to_pandas": "api.ParquetFile.to_pandas",
            "count": "api.ParquetFile.count", "read_row_group_file": "api.ParquetFile.read_row_group_file"}


def p_rowfilter(ctx):
    ctx.assumptions += [a for a in C.ASSUMED if a not in ctx.assumptions]
    for t in ("z3 4.x/5.x (Python API)", "vc.symexec (own VC generator) + the proof-script objects of contracts/c13_rowfilter.py"):
        if t not in ctx.trusted:
            ctx.trusted.append(t)
    for res in C.check(ctx, 10000 if ctx.tier == "quick" else 60000):
        for name in res.order:
            st = res.status(name)
            entries = res.d[name]
            e = next((x for x in entries if x[0] == st), entries[0])
            secs = sum(x[2] for x in entries)
            fn = FUNCTION.get(name.split(".")[0].split("[")[0], "api.ParquetFile")
            fids = next((f for f, rx in KNOWN if rx.search(name)), ())
            fid = next((f for f in fids if ctx.is_known(f)), None)
            if st == REFUTED and fid:
                ctx.obligation(name, fn, "refuted-known", e[3], secs, detail=e[4], model=e[1], sample=True)
                ctx.known_finding(fid)
                continue
            ctx.obligation(name, fn, st, e[3], secs, detail=e[4], model=e[1] if st == REFUTED else None,
                           sample=(st != PROVED or name.startswith(("column_filter.flat_is_and", "column_filter.or_step", "count."))))
            if st == REFUTED:
                confirmed, text = C.replay_native(name, e[1] or {})
                ctx.violation(name, {"function": fn, "model": e[1], "solver_output": str(e[1])[:600], "replay_result": text,
                                     "snippet": C.SNIPPET.format(name=name)}, confirmed, what=((e[4] or "") + " | " + text)[:260])
