"""P part of C10: the ThriftObject class of cencoding.pyx (+ from_buffer, dict_eq, parquet_thrift.__getattr__) under contract
(contracts/c10_thriftobj.py): name <-> field-id mapping, child wrapping / aliasing, integer-width marker bookkeeping, copy / pickle /
equality, from_buffer / to_bytes plumbing."""
import concurrent.futures as cf
import multiprocessing as mp
import re

from contracts import c10_thriftobj, c10_markerframe, c10_fieldwidth, cy
from vlib.common import PROVED, REFUTED, UNKNOWN

# obligation (regex) -> known finding; a refutation is 'known' only if the finding is listed AND the same obligation posed with the
# finding's region excluded (`<name>[outside known region]`, when there is one) is proved in this run
KNOWN = [("C10-P-setattr-ignores-width-marker", re.compile(r"^setattr\.new_int_field_gets_idl_wire_type$")),
         ("C10-P-setattr-list-unchecked-cast", re.compile(r"^setattr\.unchecked_cast_is_ThriftObject$")),
         ("C10-P-dict-eq-asymmetric-str-bytes", re.compile(r"^dict_eq\.(key_verdict_matches_spec|symmetric_per_key)$")),
         ("C10-P-from-fields-drops-unknown-kwarg", re.compile(r"^from_fields\.unknown_kwarg_rejected$"))]

FUNC_OF = {"init": "ThriftObject.__init__", "class": "ThriftObject", "thriftobj": "ThriftObject.__getattr__/__setattr__", "getattr": "ThriftObject.__getattr__",
           "setattr": "ThriftObject.__setattr__", "mutation": "ThriftObject.__getattr__/__setattr__", "callsites": "writer.py/api.py/util.py",
           "setitem": "ThriftObject.__setitem__", "getitem": "ThriftObject.__getitem__", "get": "ThriftObject.get", "delitem": "ThriftObject.__delitem__",
           "delattr": "ThriftObject.__delattr__", "contents": "ThriftObject.contents", "thrift_name": "ThriftObject.thrift_name", "raw": "ThriftObject",
           "from_fields": "ThriftObject.from_fields", "parquet_thrift": "parquet_thrift.__getattr__", "copy": "ThriftObject.copy", "deepcopy": "ThriftObject.__deepcopy__",
           "to_bytes": "ThriftObject.to_bytes", "from_buffer": "from_buffer", "reduce": "ThriftObject.__reduce_ex__", "pickle": "ThriftObject.__reduce_ex__ + from_buffer",
           "dict_eq": "dict_eq", "eq": "ThriftObject.__eq__", "asdict": "ThriftObject._asdict",
           "marker": "writer.py/api.py/schema.py/util.py/core.py/dataframe.py (width-marker frame)",
           "thrift_field": "writer.py/api.py/util.py/schema.py (thrift field sites)"}


def _task(t):
    name, timeout = t
    try:
        res = c10_thriftobj.run_task(name, timeout)
        return (name, res.order, res.d, res.kind, None)
    except Exception as ex:
        import traceback
        return (name, [], {}, {}, f"{type(ex).__name__}: {ex} | " + traceback.format_exc().splitlines()[-3].strip())


def p_thriftobj(ctx):
    cy.register(ctx, c10_thriftobj.FUNCTIONS)
    for a in c10_thriftobj.ASSUMED + c10_markerframe.ASSUMED + c10_fieldwidth.ASSUMED:
        if a not in ctx.assumptions:
            ctx.assumptions.append(a)
    timeout = 10000 if ctx.tier == "quick" else 60000
    tasks = [(k, timeout) for k in c10_thriftobj.TASKS]
    try:
        with cf.ProcessPoolExecutor(max_workers=8, mp_context=mp.get_context("fork")) as ex:
            results = list(ex.map(_task, tasks))
    except Exception:
        results = [_task(t) for t in tasks]           # a broken pool (machine under load) must not silence the part: run in-process
    # a task that died in its worker is run once more in-process before it is reported as out of reach
    results = [r if r[4] is None else _task((r[0], timeout)) for r in results]
    status = {}
    rows = []
    for task, order, d, kinds, err in results:
        if err:
            ctx.obligation(f"thriftobj[{task}].out_of_reach", "cencoding.ThriftObject", "unknown", "engine", 0.0, detail=err, sample=True)
            continue
        for name in order:
            entries = d[name]
            sts = [e[0] for e in entries]
            st = REFUTED if REFUTED in sts else UNKNOWN if UNKNOWN in sts else PROVED
            status[name] = st
            rows.append((task, name, st, entries))
    for task, name, st, entries in rows:
        e = next((x for x in entries if x[0] == st), entries[0])
        fn = FUNC_OF.get(name.split(".")[0].split("[")[0], "ThriftObject")
        fn = fn if fn.startswith(("parquet_thrift", "writer.py")) else "cencoding." + fn
        fid = next((f for f, rx in KNOWN if rx.search(name)), None)
        if st == REFUTED and fid and ctx.is_known(fid):
            outside = name + "[outside known region]"
            if outside not in status or status[outside] == PROVED:
                ctx.obligation(name, fn, "refuted-known", e[3], e[2], detail=(e[4] or "") + f" [refuted only inside the region of {fid}]", model=e[1], sample=True)
                ctx.known_finding(fid)
                continue
        ctx.obligation(name, fn, st, e[3], sum(x[2] for x in entries), detail=e[4], model=e[1] if st == REFUTED else None,
                       sample=(st != PROVED or name.startswith(("thriftobj.", "to_bytes.", "from_fields.markers", "copy.data"))) and "idl_child[" not in name)
        if st == REFUTED:
            ctx.violation(name, {"function": fn, "model": e[1], "solver_output": str(e[1])[:600], "snippet": None}, False, what=(e[4] or "")[:220])
