"""C19 - see properties.jsonl; DESIGN.md section 5."""
from ._generic import run_property

EXPLANATION = 'Bounded stand-in: k-th-call fault injection through contract-carrying open_with/mkdirs and the prefix-closed I/O trace invariant (no existing path opened for writing before the summary files).'


def p_parts():
    return []


def run(ctx):
    return run_property(ctx, 'exploration', EXPLANATION, p_parts=p_parts(), b_modules=['c19_fault_injection'],
                        assumptions=["pandas / numpy / cramjam behaviour inside every opaque value",
                                     "the oracle (plain pandas / the spec library under /verif/spec) is a faithful reading of the property"],
                        trusted=["bounded layer: enumerated inputs only; nothing outside the stated bound is covered"])
