"""C19 - see properties.jsonl; DESIGN.md section 5."""
from ._generic import run_property

EXPLANATION = 'Mixed. P: writer.write_multi, find_max_part and api.part_ids executed symbolically from their real sources on an I/O effect trace: every file an append opens for writing before the summary files has a part number different from that of EVERY referenced file (for any number of existing row groups and any part numbering, holes included), data files are only opened wb, and the summary files are written once, after the part loop - the invariant is checked at every I/O call, so it holds wherever the k-th call fails. B (labelled bounded): k-th-call fault injection through contract-carrying open_with/mkdirs and the prefix-closed I/O trace invariant (no existing path opened for writing before the summary files).'


def p_parts():
    from ._parts import p_parts as p_partnames
    from ._generic import optional_parts
    return [p_partnames] + optional_parts(("_partfiles", "p_partfiles"), ("_pathconv", "p_part_id"))


def run(ctx):
    return run_property(ctx, 'other', EXPLANATION, p_parts=p_parts(), b_modules=['c19_fault_injection'],
                        assumptions=["pandas / numpy / cramjam behaviour inside every opaque value",
                                     "the oracle (plain pandas / the spec library under /verif/spec) is a faithful reading of the property"],
                        trusted=["bounded layer: enumerated inputs only; nothing outside the stated bound is covered"])
