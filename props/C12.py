"""C12 - native code stays inside its buffers (safety obligations of the same kernel executions as C11)."""
from ._generic import run_property
from ._kernels import run_kernels

EXPLANATION = (
    "P: for every kernel under contract (see C11) the generator emits, at every pointer dereference, typed store, memoryview index, "
    "memcpy, shift and division of the code extracted from the .pyx, an obligation: access inside the region of the buffer it was "
    "handed / shift amount < promoted width / divisor non-zero / loop bounded (unwinding assertion) - discharged for all inputs "
    "satisfying the stated well-formedness preconditions. Known findings: read_bitpacked shifts by >= 32 for widths 25..32; "
    "_mask_for_bits(32); NumpyIO.write memcpy destination is a byte value cast to a pointer. Not under contract yet: thrift "
    "reader/writer, to_bytes, delta kernels, _assemble_objects (covered only by the bounded subprocess drivers of C03/C10/C11, "
    "where death by signal is reported).")


def p_kernels(ctx):
    run_kernels(ctx, "safety")


def p_deflevels(ctx):
    from ._deflevels import p_deflevels as f
    f(ctx)


def p_merge_bytes(ctx):
    from ._merge import p_merge_bytes as f
    f(ctx)


def p_thrift(ctx):
    from ._thrift import p_thrift as f
    f(ctx)


def run(ctx):
    from ._callsites import p_callsites
    from ._generic import optional_parts
    extra = optional_parts(("_hybrid", "p_hybrid"), ("_encoders", "p_encoders"), ("_speedups", "p_speedups"), ("_assembly", "p_assembly"), ("_options", "p_options"), ("_readoptions", "p_readoptions"), ("_thriftvals", "p_thriftvals"), ("_many", "p_many_fetch"), ("_pages", "p_pages_native_preconditions"))
    return run_property(ctx, "proof", EXPLANATION, p_parts=[p_kernels, p_callsites, p_thrift, p_merge_bytes, p_deflevels] + extra, b_modules=[])
