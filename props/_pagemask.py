"""P part of C13: the caller's boolean row mask through the page loop of core.read_col (contracts/c03_pages.py, run
`read_col[values, row_filter mask]`): page k uses exactly the window row_filter[VS(k) : VS(k)+n_k], the kept rows go to the output
window [SEL(k), SEL(k)+count(window)), invariants `index_off == VS(k)` and `num == count(mask[0:VS(k)])`, exit = every selected row
written.  Wire into props/C13.py:   from ._pagemask import p_pagemask   (p_parts: [..., p_pagemask])"""
import re

from contracts import c03_pages
from vlib.common import PROVED, REFUTED, UNKNOWN

T = "read_col[values, row_filter mask]."
_CUR = "page_loop.invariant_preserved[cursor is at the start of page k: infile.tell() == OFF(k)]"
_NUM = "page_loop.invariant_preserved[num (output cursor) == number of selected rows before page k: count(mask[0 : VS(k)])]"
_OFF = "page_loop.invariant_preserved[index_off (mask cursor) == rows of the data pages before page k: VS(k)]"


def _exact(*names):
    return re.compile("^(" + "|".join(re.escape(T + n) for n in names) + ")$")


# finding id -> obligations it covers (exact names); the companions `<name>[outside the regions of the recorded findings]` never match
# (refuted there = VIOLATION).  The invariant obligations are posed per kind of the arbitrary page: only the [v2 page] ones belong to the
# open finding (the v2 reader gets the whole mask, num advances by num_values, index_off is not advanced); the [v1 page] ones are plain
# obligations (both v1 defects repaired in /repo e953da1: fixed-C13-v1-mask-cursor-rows-of-page, fixed-C13-v1-page-without-selected-rows).
KNOWN = [
    ("C13-P-v2-reader-gets-whole-mask-without-offset",
     _exact("data_page_v2.callsite.page_window_of_the_mask_is_identified", _CUR + "[v2 page]", _NUM + "[v2 page]", _OFF + "[v2 page]")),
]


def p_pagemask(ctx):
    ctx.assumptions += [a for a in c03_pages.ASSUMED if a not in ctx.assumptions]
    for res in c03_pages.check(ctx, 10000 if ctx.tier == "quick" else 60000, parts=("read_col_mask",)):
        for name in res.order:
            st = res.status(name)
            e = next((x for x in res.d[name] if x[0] == st), res.d[name][0])
            fn = "core.read_col"
            secs = sum(x[2] for x in res.d[name])
            detail = f"{e[4] or ''} [{len(res.d[name])} path(s)]"
            fid = next((f for f, rx in KNOWN if rx.search(name)), None)
            if st == REFUTED and fid and ctx.is_known(fid):
                ctx.obligation(name, fn, "refuted-known", e[3], secs, detail=detail, model=e[1], sample=True)
                ctx.known_finding(fid)
                continue
            ctx.obligation(name, fn, st, e[3], secs, detail=detail, model=e[1] if st == REFUTED else None,
                           sample=(st != PROVED or ".page_loop." in name or ".mask." in name or ".exit." in name))
            if st == REFUTED:
                ctx.violation(name, {"function": fn, "model": e[1], "solver_output": str(e[1])[:600], "snippet": None}, False,
                              what=(e[4] or "")[:200])
