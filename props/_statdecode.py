"""P part shared by C04 / C05: the decode step of the statistics chain (contracts/c04_statdecode.py): call-site shape (ast) + the
single-value table of encoding.read_plain(..., stat=True) executed on the real function (enumeration, not a deductive proof)."""
from contracts import c04_statdecode as S
from vlib.common import PROVED, REFUTED, UNKNOWN

SNIPPET = """from fastparquet import encoding, parquet_thrift
raw = bytes.fromhex({hexb!r})
out = encoding.read_plain(raw, getattr(parquet_thrift.Type, {tname!r}), 1, stat=True)
print(repr(out))
from contracts.c04_statdecode import _cases, _judge
want = [c[4] for c in _cases(parquet_thrift.Type) if c[0] == {tname!r} and c[3] == raw][0]
VIOLATED = _judge(out, want) is not None
"""


def p_statdecode(ctx):
    ctx.assumptions += [a for a in S.ASSUMED if a not in ctx.assumptions]
    ctx.function("encoding.read_plain", "executed", {"mode": "executed, not symbolically (statistics form: count 1, stat=True)"})
    res = S.check(ctx, 10000)
    for name in res.order:
        st = res.status(name)
        e = next((x for x in res.d[name] if x[0] == st), res.d[name][0])
        fn = "encoding.read_plain" if "read_plain_single_value" in name else "api (statistics call sites)"
        ctx.obligation(name, fn, st, e[3], e[2], detail=e[4], model=e[1] if st == REFUTED else None, sample=st != PROVED)
        if st == REFUTED:
            m = e[1] or {}
            executed = "stored_bytes" in m and not m["stored_bytes"].endswith("...")
            snip = SNIPPET.format(hexb=m.get("stored_bytes", ""), tname=m.get("type", "")) if executed else None
            ctx.violation(name, {"function": fn, "model": m, "solver_output": str(m)[:600], "snippet": snip}, "stored_bytes" in m,
                          what=(m.get("result") or e[4] or "")[:200])
