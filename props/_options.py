"""P part shared by C02 / C04 / C07 / C08 / C12: option plumbing along the writer call chain (contracts/c02_options.py): at every call site
the callee receives the caller's own stats / compression / fmd / schema / open_with / mkdirs / file_scheme / partition_on, decided from
the ast of the real source.  ctx.prop selects:  C02 all;  C04, C12 the `stats` ones (statistics - incl. full-length text min/max that
reach the Thrift serialiser - are computed only where the caller's policy asks for them);  C07 what an append through a handle hands
on (file_scheme, append, and every option of ParquetFile.write_row_groups);  C08 the sites into and out of partition_on_columns."""
import re

from contracts import c02_options as M
from vlib.common import PROVED, REFUTED, UNKNOWN

SELECT = {
    "C02": lambda n: True,
    "C04": lambda n: n.endswith("passes[stats]"),
    "C12": lambda n: n.endswith("passes[stats]"),
    "C07": lambda n: n.startswith("options.ParquetFile.write_row_groups->") or re.search(r"passes\[(file_scheme|append|with_field)\]$", n) is not None,
    "C08": lambda n: "partition_on_columns" in n,
}


def function_of(name):
    caller = name[len("options."):].split("->")[0]
    return ("api." if caller.startswith("ParquetFile.") else "writer.") + caller


def p_options(ctx):
    if getattr(ctx, "_options_done", False):        # props/_partfiles.py runs this part where it is wired (C02, C07): never twice
        return
    ctx._options_done = True
    sel = SELECT.get(ctx.prop, SELECT["C02"])
    ctx.assumptions += [a for a in M.ASSUMED if a not in ctx.assumptions]
    for res in M.check(ctx):
        for name in res.order:
            if not sel(name):
                continue
            st = res.status(name)
            e = next((x for x in res.d[name] if x[0] == st), res.d[name][0])
            fn = function_of(name)
            ctx.obligation(name, fn, st, e[3], 0.0, detail=e[4], model=e[1] if st == REFUTED else None,
                           sample=(st != PROVED or name.endswith("passes[stats]")))
            if st == REFUTED:
                ctx.violation(name, {"function": fn, "model": e[1], "solver_output": str(e[1])[:600], "snippet": None}, False,
                              what=((e[4] or "") + " - passed instead: " + str((e[1] or {}).get("passed")))[:300])
