"""C14 - see properties.jsonl; DESIGN.md section 5."""
from ._generic import run_property

EXPLANATION = 'Mixed. P: util.metadata_from_many (legacy and footer-gathering path, symbolic number of files; structure only) and util._get_fmd on the byte-file model: the result row-group list is the concatenation in file-list order (file / row-group loop invariants), every chunk gets its relative path, num_rows is the sum over the returned row groups, verify_schema raises when schemas differ, the fetched tail / piece holds the whole footer, _get_fmd parses exactly the footer bytes; refuted obligations are known findings; string plumbing, fs.cat and ParquetFile() are assumed contracts. B (labelled bounded): opening lists/directories/globs of files and merge(): rows == concatenation in order, counts, partition columns, categorical labels, schema verification.'


def p_parts():
    from ._many import p_many
    from ._cats import p_cats
    from ._generic import optional_parts
    return [p_many, p_cats] + optional_parts(("_readoptions", "p_readoptions"), ("_analyse", "p_analyse"), ("_pages", "p_catlabels"), ("_pathconv", "p_path_parsing"), ("_header", "p_header"))


def run(ctx):
    return run_property(ctx, 'other', EXPLANATION, p_parts=p_parts(), b_modules=['c14_many_files'],
                        assumptions=["pandas / numpy / cramjam behaviour inside every opaque value",
                                     "the oracle (plain pandas / the spec library under /verif/spec) is a faithful reading of the property"],
                        trusted=["bounded layer: enumerated inputs only; nothing outside the stated bound is covered"])
