"""P part shared by C12 / C11 / C03: fastparquet/speedups.pyx (pack_byte_array, unpack_byte_array, array_encode_utf8) under
contract from the .pyx re-read on every run, the shared byte-level specification of PLAIN BYTE_ARRAY, the round trip over it and
the Python call sites that hand the kernels their buffers and counts (contracts/c12_speedups.py).

C12 reports the obligations of kind 'safety' and 'invariant' (loop-invariant steps the safety proofs rely on); C11 / C03 report
'functional' and 'invariant' (C03: the read side only - unpack_byte_array, round trip, read call sites)."""
import re
import time

from contracts import c12_speedups as spd, cy
from vlib.common import PROVED, REFUTED, UNKNOWN, REPO

KNOWN = {
    "C12": [("C12-P-unpack-byte-array-length-word-past-end", re.compile(r"^unpack_byte_array\[unchecked input\]\.loop\.load_in_region")),
            ("C12-P-unpack-byte-array-declared-length-unchecked", re.compile(r"^unpack_byte_array\[unchecked input\]\.loop\.value_bytes_inside_buffer"))],
    "C11": [("C11-P-unpack-byte-array-buffer-2GiB", re.compile(r"^unpack_byte_array\.bytecount_is_buffer_length")),
            ("C11-P-pack-byte-array-item-2GiB", re.compile(r"^pack_byte_array\.length_prefix_decodes_to_item_length\[any item size\]"))],
    "C03": [],
}


def _function_of(name):
    for f in spd.FUNCS:
        if name.startswith(f):
            return "speedups." + f
    if name.startswith("callsite."):
        site = name.split(".")[1]
        return {"read_plain": "encoding.", "encode_plain": "writer.", "convert": "writer."}.get(site, "core.") + site
    return "speedups (PLAIN BYTE_ARRAY byte-level specification)"


def p_speedups(ctx):
    n_anchor, n_bad = spd.anchor_check()
    ctx.note(f"speedups .pyx<->.c correspondence: {n_anchor} embedded source-line anchors checked, {n_bad} differ"
             + ("" if n_bad == 0 else " -> NATIVE BUILD STALE (or .c missing): native replays exercise older code than the .pyx under contract"))
    cy.register(ctx, spd.FUNCS if ctx.prop != "C03" else ["unpack_byte_array"], pyx=spd.PYX)
    for a in spd.ASSUMED:
        if a not in ctx.assumptions:
            ctx.assumptions.append(a)
    timeout = 20000 if ctx.tier == "quick" else 120000
    t0 = time.time()
    in_region = {}
    for task in spd.TASKS:
        try:
            res = spd.run_task(task, timeout, ctx)
        except Exception as ex:
            import traceback
            ctx.obligation(f"speedups[{task}].out_of_reach", "speedups", "unknown", "engine", 0.0,
                           detail=f"{type(ex).__name__}: {ex} | " + traceback.format_exc().splitlines()[-3].strip(), sample=True)
            continue
        for name in res.order:
            kind = res.kind.get(name, "functional")
            if ctx.prop not in spd.props_of(name, kind):
                continue
            entries = res.d[name]
            st = res.status(name)
            e = next((x for x in entries if x[0] == st), entries[0])
            if ".vacuity." in name or "must_fail" in name:
                key = "must_fail_sat" if "must_fail" in name else "requires_sat"
                ctx.vacuity[key] = ctx.vacuity.get(key, 0) + (1 if st == PROVED else 0)
            fn = _function_of(name)
            fid = next((f for f, rx in KNOWN.get(ctx.prop, []) if rx.search(name)), None)
            if fid is not None:
                in_region.setdefault(fid, [0, 0])[0 if st == PROVED else 1] += 1
            if st == REFUTED and fid and ctx.is_known(fid):
                ctx.obligation(name, fn, "refuted-known", e[3], e[2], detail=e[4], model=e[1], sample=True)
                ctx.known_finding(fid)
                continue
            ctx.obligation(name, fn, st, e[3], sum(x[2] for x in entries), detail=e[4], model=e[1] if st == REFUTED else None,
                           sample=(st != PROVED or "returns_" in name))
            if st == REFUTED:
                confirmed, text, prog = spd.replay(name, e[1] or {}, REPO)
                ctx.violation(name, {"function": fn, "model": e[1], "solver_output": str(e[1])[:600], "replay_result": text,
                                     "snippet": (prog + "\n# VIOLATED = " + repr(confirmed)) if prog else None},
                              confirmed, what=((e[4] or "")[:160] + " | native: " + text[:160]))
    for fid, (n_ok, n_not) in in_region.items():
        if n_not == 0 and n_ok > 0:
            ctx.note(f"known finding {fid}: every obligation of its region now passes (defect appears repaired upstream)")
    ctx.note(f"speedups P part: {len(spd.TASKS)} tasks in {time.time() - t0:.1f} s")
