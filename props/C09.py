"""C09 - see properties.jsonl; DESIGN.md section 5."""
from ._generic import run_property

EXPLANATION = 'Mixed. P: writer.write_multi, find_max_part and api.part_ids executed symbolically from their real sources on an I/O effect trace: every file an append opens for writing before the summary files has a part number different from that of EVERY referenced file (for any number of existing row groups and any part numbering, holes included), data files are only opened wb, and the summary files are written once, after the part loop - the invariant is checked at every I/O call, so it holds wherever the k-th call fails. Also P, per call and for every dataset size: remove_row_groups (num_rows, the row-group list = old minus chosen in order, exactly the files of the chosen row groups removed, partial removal raises before any effect), writer.overwrite (partition text built from the ordered partition keys, exactly the matching partitions removed, new data written before old data removed, metadata last), api.partitions, api.part_ids, row_groups_map and the two-pass rename plan of _sort_part_names (temporary names fresh, sources live, targets free, metadata follows the renames); refuted obligations are known findings. B (labelled bounded): model-based histories over {write, append, overwrite, remove_row_groups, write_row_groups(sort)} with directory/metadata agreement after every step.'


def p_parts():
    from ._parts import p_parts as p_partnames
    from ._edits import p_edits
    from ._generic import optional_parts
    return [p_partnames, p_edits] + optional_parts(("_partfiles", "p_partfiles"), ("_pathconv", "p_part_id"), ("_units", "p_units"))


def run(ctx):
    return run_property(ctx, 'other', EXPLANATION, p_parts=p_parts(), b_modules=['c09_model'],
                        assumptions=["pandas / numpy / cramjam behaviour inside every opaque value",
                                     "the oracle (plain pandas / the spec library under /verif/spec) is a faithful reading of the property"],
                        trusted=["bounded layer: enumerated inputs only; nothing outside the stated bound is covered"])
