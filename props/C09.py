"""C09 - see properties.jsonl; DESIGN.md section 5."""
from ._generic import run_property

EXPLANATION = 'Bounded stand-in: model-based histories over {write, append, overwrite, remove_row_groups, write_row_groups(sort)} with directory/metadata agreement after every step.'


def p_parts():
    return []


def run(ctx):
    return run_property(ctx, 'exploration', EXPLANATION, p_parts=p_parts(), b_modules=['c09_model'],
                        assumptions=["pandas / numpy / cramjam behaviour inside every opaque value",
                                     "the oracle (plain pandas / the spec library under /verif/spec) is a faithful reading of the property"],
                        trusted=["bounded layer: enumerated inputs only; nothing outside the stated bound is covered"])
