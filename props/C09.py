"""C09 - see properties.jsonl; DESIGN.md section 5."""
from ._generic import run_property

EXPLANATION = 'Mixed. P: writer.write_multi, find_max_part and api.part_ids executed symbolically from their real sources on an I/O effect trace: every file an append opens for writing before the summary files has a part number different from that of EVERY referenced file (for any number of existing row groups and any part numbering, holes included), data files are only opened wb, and the summary files are written once, after the part loop - the invariant is checked at every I/O call, so it holds wherever the k-th call fails. B (labelled bounded): model-based histories over {write, append, overwrite, remove_row_groups, write_row_groups(sort)} with directory/metadata agreement after every step.'


def p_parts():
    from ._parts import p_parts as p_partnames
    return [p_partnames]


def run(ctx):
    return run_property(ctx, 'other', EXPLANATION, p_parts=p_parts(), b_modules=['c09_model'],
                        assumptions=["pandas / numpy / cramjam behaviour inside every opaque value",
                                     "the oracle (plain pandas / the spec library under /verif/spec) is a faithful reading of the property"],
                        trusted=["bounded layer: enumerated inputs only; nothing outside the stated bound is covered"])
