"""P part shared by C16 / C06 / C14: api.ParquetFile._parse_header on the byte-file model - the thrift reader gets exactly the footer,
for every footer length (an in-place key-value update may grow or shrink the footer to ANY size; the file must stay openable)."""
import os
import struct
import tempfile

from contracts import c16_header
from vlib.common import PROVED, REFUTED, UNKNOWN


def replay_native(name, model):
    """a real file 'PAR1' ++ body ++ F ++ le32(|F|) ++ 'PAR1' with the counter-model's lengths (F = a real footer padded by a long
    key-value value) opened with the real ParquetFile. -> (confirmed, text)"""
    if not model or not isinstance(model.get("footer_len"), int) or model["footer_len"] > 2 ** 27 or "_metadata" in name:
        return False, "no native replay for this counter-model"
    from runtime.harness import import_fastparquet
    fp = import_fastparquet()
    import pandas as pd
    d = tempfile.mkdtemp(prefix="verif-hdr-")
    try:
        fn = os.path.join(d, "t.parquet")
        target, pad = model["footer_len"], 1
        for _ in range(8):
            fp.write(fn, pd.DataFrame({"x": [1, 2, 3]}), custom_metadata={"pad": "x" * pad})
            raw = open(fn, "rb").read()
            got = struct.unpack("<I", raw[-8:-4])[0]
            if got == target:
                break
            pad += target - got
            if pad < 0:
                return False, f"a footer of {target} bytes cannot be built by padding"
        if got != target:
            return False, "could not build a footer of the counter-model's length"
        try:
            df = fp.ParquetFile(fn).to_pandas()
            bad = list(df["x"]) != [1, 2, 3]
            return bad, f"file with a footer of {target} bytes opened; rows {'differ' if bad else 'are right'}"
        except Exception as ex:
            return True, f"a valid file with a footer of {target} bytes cannot be opened: {type(ex).__name__}: {str(ex)[:120]}"
    finally:
        import shutil
        shutil.rmtree(d, ignore_errors=True)


def p_header(ctx):
    ctx.assumptions += [a for a in c16_header.ASSUMED if a not in ctx.assumptions]
    for name, model, detail in c16_header.check(ctx, 6000 if ctx.tier == "quick" else 60000):
        try:
            confirmed, text = replay_native(name, model)
        except Exception as ex:
            confirmed, text = False, f"replay failed: {type(ex).__name__}: {ex}"
        ctx.violation(name, {"function": "api.ParquetFile._parse_header", "model": model, "replay_result": text,
                             "snippet": "from props._header import replay_native; print(replay_native(%r, %r))" % (name, model)}, confirmed,
                      what=((detail or "")[:100] + " | " + text)[:300])
