"""P part of C17: finite table lemma typemap (predicted dtype) vs convert (dtype produced on read) - executed enumeration."""
from contracts import c17_typemap
from vlib.common import PROVED, REFUTED, UNKNOWN


def p_typemap(ctx):
    ctx.assumptions += [a for a in c17_typemap.ASSUMED if a not in ctx.assumptions]
    res = c17_typemap.check(ctx, 10000 if ctx.tier == "quick" else 60000)
    fq = "converted_types.typemap"
    for name in res.order:
        st = res.status(name)
        e = next((x for x in res.d[name] if x[0] == st), res.d[name][0])
        fid = c17_typemap.known_for(name)
        if st == REFUTED and fid and ctx.is_known(fid):
            ctx.obligation(name, fq, "refuted-known", e[3], e[2], detail=e[4], model=e[1], sample=True)
            ctx.known_finding(fid)
            continue
        ctx.obligation(name, fq, st, e[3], sum(x[2] for x in res.d[name]), detail=e[4],
                       model=e[1] if st == REFUTED else None, sample=(st != PROVED or "TIMESTAMP" in name))
        if st == REFUTED:
            ctx.violation(name, {"function": "converted_types.typemap / convert", "model": e[1], "solver_output": str(e[1])[:600],
                                 "snippet": "see contracts/c17_typemap.run_case(fp, type, converted, logical)"},
                          True, what=(e[4] or "")[:200])
