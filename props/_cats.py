"""P part shared by C14 / C17: writer.consolidate_categories (max of the INTEGER label counts of all chunks, written back under b'pandas')
and the call sites that must run it on a FileMetaData built from many files."""
from contracts import c14_cats
from vlib.common import PROVED, REFUTED, UNKNOWN


def p_cats(ctx):
    ctx.assumptions += [a for a in c14_cats.ASSUMED if a not in ctx.assumptions]
    for name, model, detail in c14_cats.check(ctx, 10000 if ctx.tier == "quick" else 60000):
        fn = "api.ParquetFile.__init__" if name.startswith(("init.", "callers.")) else "writer." + name.split(".")[0] if name.startswith(("merge.", "write_common")) else "writer.consolidate_categories"
        ctx.violation(name, {"function": fn, "model": model, "solver_output": str(model)[:600], "snippet": None}, False, what=(detail or "")[:220])
