"""P part shared by C14 / C17 (and, for its key-value family, C16): writer.consolidate_categories (max of the INTEGER label counts of all
chunks, written back under b'pandas'; TOTAL on arbitrary user keys) and the call sites that must run it on a FileMetaData built from many files."""
from contracts import c14_cats
from vlib.common import PROVED, REFUTED, UNKNOWN

KEY_SNIPPET = '''import json
from fastparquet import parquet_thrift as pt
from fastparquet.writer import consolidate_categories
meta = json.dumps({"columns": [{"name": "c", "metadata": {"num_categories": 3, "ordered": False}}]}).encode()
kv = [pt.KeyValue(key=b"sig\\xe2(", value=b"user value"), pt.KeyValue(key=b"pandas", value=meta), pt.KeyValue(key=b"other", value=b"x")]
fmd = pt.FileMetaData(row_groups=[], key_value_metadata=kv)
before = [(k.key, k.value) for k in fmd.key_value_metadata if k.key != b"pandas"]
try:
    consolidate_categories(fmd)
    after = [(k.key, k.value) for k in fmd.key_value_metadata if k.key != b"pandas"]
    VIOLATED = after != before
    TEXT = "consolidate_categories returned; user entries before %r, after %r" % ([k for k, _ in before], [k for k, _ in after])
except Exception as ex:
    VIOLATED, TEXT = True, "consolidate_categories raised %s: %s on a FileMetaData with the user key b'sig\\\\xe2('" % (type(ex).__name__, ex)
'''


def replay_key_totality():
    """the REAL consolidate_categories on a key-value list holding a user key that is not valid UTF-8. -> (confirmed, text)"""
    from runtime.harness import import_fastparquet
    import_fastparquet()
    g = {}
    exec(KEY_SNIPPET, g)
    return bool(g["VIOLATED"]), g["TEXT"]


def _report(ctx, refuted):
    for name, model, detail in refuted:
        fn = "api.ParquetFile.__init__" if name.startswith(("init.", "callers.")) else "writer." + name.split(".")[0] if name.startswith(("merge.", "write_common")) else "writer.consolidate_categories"
        confirmed, text, snippet = False, (detail or "")[:220], None
        if name in ("cats.total_on_arbitrary_keys", "cats.other_key_values_untouched"):
            try:
                confirmed, text = replay_key_totality()
                snippet = KEY_SNIPPET + "print(TEXT)\n"
            except Exception as ex:      # the replay helper failed: the violation stands, unconfirmed
                text = f"replay failed: {type(ex).__name__}: {ex}"
        ctx.violation(name, {"function": fn, "model": model, "solver_output": str(model)[:600], "replay_result": text, "snippet": snippet},
                      confirmed, what=text[:300])


def p_cats(ctx):
    ctx.assumptions += [a for a in c14_cats.ASSUMED if a not in ctx.assumptions]
    _report(ctx, c14_cats.check(ctx, 10000 if ctx.tier == "quick" else 60000))


def p_cats_keys(ctx):
    """the key-value family of the same contract, exposed to C16 (user key-values are kept verbatim: consolidate_categories runs on every
    open of a list / directory and on every _metadata write, so it must be total on arbitrary user keys and leave their entries alone)"""
    ctx.assumptions += [a for a in c14_cats.ASSUMED if a not in ctx.assumptions]
    fam = lambda name: name.startswith(c14_cats.KEY_FAMILY)
    _report(ctx, c14_cats.check(ctx, 10000 if ctx.tier == "quick" else 60000, only=fam))
