"""Shared shape of a property check: P part (contract obligations discharged by SMT; optional) + B part
(bounded stand-in: run-time contracts on the real functions over an enumerated input space; labelled bounded)."""
import importlib
import os

from vc.symexec import Unsupported


def optional_parts(*specs):
    """[("_assembly", "p_assembly"), ...] -> the part functions whose helper module exists under props/ (a part under construction
    is wired as soon as its file is there)"""
    out = []
    here = os.path.dirname(os.path.abspath(__file__))
    skip = set(filter(None, os.environ.get("VERIF_SKIP_PARTS", "").split(",")))      # parts under construction (development only)
    for mod, fn in specs:
        if mod in skip:
            continue
        if os.path.exists(os.path.join(here, mod + ".py")):
            out.append(getattr(importlib.import_module("props." + mod), fn))
    return out


def run_property(ctx, level, explanation, p_parts=(), b_modules=(), assumptions=(), trusted=()):
    ctx.assumptions += list(assumptions)
    ctx.trusted += list(trusted)
    for part in p_parts:
        try:
            part(ctx)
        except Unsupported as ex:
            # a function the engine cannot lower is out of reach for this run: undecided, never a violation
            ctx.obligation(getattr(part, "__name__", "p_part") + ".out_of_reach", "?", "unknown", "engine", 0.0,
                           detail=str(ex), sample=True)
        except Exception as ex:
            # the proof script itself failed on this source (e.g. a shape it does not model): also undecided - the bounded
            # stand-in decides the run; on the unchanged tree this shows up as discharged < obligations
            import traceback
            ctx.obligation(getattr(part, "__name__", "p_part") + ".out_of_reach", "?", "unknown", "engine", 0.0,
                           detail=f"{type(ex).__name__}: {ex} | " + traceback.format_exc().splitlines()[-3].strip(), sample=True)
    if not os.environ.get("VERIF_SKIP_BOUNDED"):
        for m in b_modules:
            mod = importlib.import_module("runtime." + m)
            n0 = sum(g["evaluations"] for g in ctx.bounded_groups.values())
            mod.run_bounded(ctx)
            n1 = sum(g["evaluations"] for g in ctx.bounded_groups.values())
            if n1 == n0:
                ctx.engine_error(f"bounded module {m}: zero contract evaluations")
    if ctx.tier == "thorough" and not os.environ.get("VERIF_REPO") and not os.environ.get("VERIF_NO_CANARIES"):
        run_canaries(ctx)
    return ctx.finish(level, explanation)


def run_canaries(ctx):
    """thorough tier self-test (DESIGN 3.7): deliberately broken bodies (and harmless edits) applied to a scratch copy of
    /repo outside /repo and /verif; a canary that is not reported - or a harmless edit that is - fails the run (exit 3)."""
    import json
    import sys
    here = os.path.dirname(os.path.dirname(os.path.abspath(__file__)))
    import glob
    import random
    entries = []
    vfile = os.path.join(here, "canaries", "VALIDATED.json")
    for f in sorted(glob.glob(os.path.join(here, "canaries", "*.json"))):
        if f == vfile:
            continue
        entries += [c for c in json.load(open(f)) if c.get("prop") == ctx.prop]
    if not entries:
        return
    if os.path.exists(vfile):
        # only canaries that were re-run against the CURRENT /repo (after its last repair) take part in the self-test: an edit
        # written against older source text can stop applying cleanly, which says nothing about the check
        validated = set(json.load(open(vfile)))
        n_all = len(entries)
        entries = [c for c in entries if c["name"] in validated]
        if len(entries) != n_all:
            ctx.note(f"thorough self-test: {n_all - len(entries)} of {n_all} canaries of this property not re-validated on the current tree - left out")
        if not entries:
            return
    total = len(entries)
    if not os.environ.get("VERIF_ALL_CANARIES"):
        # each canary is a whole check run on a scratch copy: the self-test takes a seeded sample (all of them with
        # VERIF_ALL_CANARIES=1; `tools/mut.py --file canaries/<file>.json` runs a file completely)
        rnd = random.Random(f"{ctx.seed}|{ctx.prop}")
        bad = [c for c in entries if c.get("expect", "violation") == "violation"]
        good = [c for c in entries if c.get("expect", "violation") != "violation"]
        rnd.shuffle(bad)
        rnd.shuffle(good)
        entries = bad[:9] + good[:3]
    sys.path.insert(0, os.path.join(here, "tools"))
    import mut
    ctx.note(f"thorough self-test: {len(entries)} of {total} canary mutations of this property selected (seed {ctx.seed})")
    n_ok = 0
    for c in entries:
        env = dict(c.get("env") or {}, VERIF_NO_CANARIES="1")
        res, err = mut.run_canary(c["prop"], c["edits"], "quick", env)
        if err:
            ctx.note(f"canary {c['name']}: not applicable to the current source ({err})")
            continue
        rc, viol, detail, stderr = res
        got = "violation" if rc == 1 and viol else "clean" if rc == 0 else f"rc={rc}"
        if got == c.get("expect", "violation"):
            n_ok += 1
        else:
            ctx.engine_error(f"canary {c['name']}: expected {c.get('expect', 'violation')}, got {got}")
    ctx.note(f"thorough self-test: {n_ok} canary mutations behaved as expected")
