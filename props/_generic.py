"""Shared shape of a property check: P part (contract obligations discharged by SMT; optional) + B part
(bounded stand-in: run-time contracts on the real functions over an enumerated input space; labelled bounded)."""
import importlib
import os

from vc.symexec import Unsupported


def run_property(ctx, level, explanation, p_parts=(), b_modules=(), assumptions=(), trusted=()):
    ctx.assumptions += list(assumptions)
    ctx.trusted += list(trusted)
    for part in p_parts:
        try:
            part(ctx)
        except Unsupported as ex:
            # a function the engine cannot lower is out of reach for this run: undecided, never a violation
            ctx.obligation(getattr(part, "__name__", "p_part") + ".out_of_reach", "?", "unknown", "engine", 0.0,
                           detail=str(ex), sample=True)
        except Exception as ex:
            # the proof script itself failed on this source (e.g. a shape it does not model): also undecided - the bounded
            # stand-in decides the run; on the unchanged tree this shows up as discharged < obligations
            import traceback
            ctx.obligation(getattr(part, "__name__", "p_part") + ".out_of_reach", "?", "unknown", "engine", 0.0,
                           detail=f"{type(ex).__name__}: {ex} | " + traceback.format_exc().splitlines()[-3].strip(), sample=True)
    if not os.environ.get("VERIF_SKIP_BOUNDED"):
        for m in b_modules:
            mod = importlib.import_module("runtime." + m)
            n0 = sum(g["evaluations"] for g in ctx.bounded_groups.values())
            mod.run_bounded(ctx)
            n1 = sum(g["evaluations"] for g in ctx.bounded_groups.values())
            if n1 == n0:
                ctx.engine_error(f"bounded module {m}: zero contract evaluations")
    return ctx.finish(level, explanation)
