"""C08 - see properties.jsonl; DESIGN.md section 5."""
from ._generic import run_property

EXPLANATION = 'Bounded stand-in: partition value plumbing round trip per type and write/read contract on hive/drill datasets (row placement, multiset equality, value kinds).'


def p_parts():
    from ._generic import optional_parts
    return optional_parts(("_paths", "p_paths"))


def run(ctx):
    return run_property(ctx, 'exploration', EXPLANATION, p_parts=p_parts(), b_modules=['c08_partitions'],
                        assumptions=["pandas / numpy / cramjam behaviour inside every opaque value",
                                     "the oracle (plain pandas / the spec library under /verif/spec) is a faithful reading of the property"],
                        trusted=["bounded layer: enumerated inputs only; nothing outside the stated bound is covered"])
