"""C08 - see properties.jsonl; DESIGN.md section 5."""
from ._generic import run_property

EXPLANATION = 'Mixed. P: writer.partition_on_columns (one arbitrary group, hive and drill), util.join_path / path_string, val_to_num / val_from_meta round trips per value kind, paths_to_cats / _path_to_cats (one arbitrary path and level under invariants), the partition block of core.read_row_group (one arbitrary row group and column), partition_meta plumbing, get_file_scheme - texts as uninterpreted functions with stated algebraic facts; refuted obligations are known findings; analyse_paths is out of reach; str / groupby / parser semantics are assumed contracts. B (labelled bounded): partition value plumbing round trip per type and write/read contract on hive/drill datasets (row placement, multiset equality, value kinds).'


def p_parts():
    from ._generic import optional_parts
    return optional_parts(("_paths", "p_paths_c08"), ("_options", "p_options"), ("_analyse", "p_analyse"))


def run(ctx):
    return run_property(ctx, 'other', EXPLANATION, p_parts=p_parts(), b_modules=['c08_partitions'],
                        assumptions=["pandas / numpy / cramjam behaviour inside every opaque value",
                                     "the oracle (plain pandas / the spec library under /verif/spec) is a faithful reading of the property"],
                        trusted=["bounded layer: enumerated inputs only; nothing outside the stated bound is covered"])
