"""C03 - see properties.jsonl; DESIGN.md section 5."""
from ._generic import run_property

EXPLANATION = 'Mixed. P: the callers of the native hybrid decoder in core.py are checked against the callee contract (itemsize in {1,4} and equal to the element size of the output array, itemsize 1 only with width <= 8, length a byte length): read_data and read_data_page by symbolic execution of their real source, the sites of read_data_page_v2 structurally (refuted there = known findings); the decoder kernels themselves are the C11 obligations. B (labelled bounded): files produced by an independent specification-level encoder (spec/pqwrite.py: encodings x index widths 0..32 x run mixtures x delta shapes x page versions x codecs x nulls) decoded by ParquetFile.to_pandas and compared with the logical content given to the encoder; decodes run in forked children so a native crash is a failed case.'


def p_parts():
    from ._callsites import p_callsites
    from ._generic import optional_parts
    return [p_callsites] + optional_parts(("_pages", "p_pages"), ("_hybrid", "p_hybrid"), ("_speedups", "p_speedups"), ("_units", "p_units"), ("_schematree", "p_schematree"), ("_readoptions", "p_readoptions"))


def run(ctx):
    return run_property(ctx, 'other', EXPLANATION, p_parts=p_parts(), b_modules=['c03_foreign_files'],
                        assumptions=["pandas / numpy / cramjam behaviour inside every opaque value",
                                     "the oracle (plain pandas / the spec library under /verif/spec) is a faithful reading of the property"],
                        trusted=["bounded layer: enumerated inputs only; nothing outside the stated bound is covered"])
