"""C03 - see properties.jsonl; DESIGN.md section 5."""
from ._generic import run_property

EXPLANATION = 'Bounded stand-in: files produced by an independent specification-level encoder (spec/pqwrite.py: encodings x index widths 0..32 x run mixtures x delta shapes x page versions x codecs x nulls) decoded by ParquetFile.to_pandas and compared with the logical content given to the encoder; decodes run in forked children so a native crash is a failed case.'


def p_parts():
    return []


def run(ctx):
    return run_property(ctx, 'exploration', EXPLANATION, p_parts=p_parts(), b_modules=['c03_foreign_files'],
                        assumptions=["pandas / numpy / cramjam behaviour inside every opaque value",
                                     "the oracle (plain pandas / the spec library under /verif/spec) is a faithful reading of the property"],
                        trusted=["bounded layer: enumerated inputs only; nothing outside the stated bound is covered"])
