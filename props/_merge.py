"""P part of C16: the merge rules of util.update_custom_metadata (contracts/c16_merge.py)."""
import re

from contracts import c16_merge
from vc.symexec import Unsupported
from vlib.common import PROVED, REFUTED, UNKNOWN

FUNCTION = "util.update_custom_metadata"
# obligation -> known finding; `refuted-known` only while the claims WITH the requirement (the region's complement) are all proved
KNOWN = []          # C16-P-merge-repeated-bytes-key-appended-twice was repaired in /repo (9307486): a refutation is a violation again

SNIPPET = '''import os, tempfile, shutil, pandas as pd, fastparquet
from fastparquet.writer import update_file_custom_metadata
d = tempfile.mkdtemp()
try:
    fn = os.path.join(d, "t.parquet")
    fastparquet.write(fn, pd.DataFrame({"x": [1]}), custom_metadata={"z": "q"})
    # two update keys with the same bytes form; the key is not in the file yet
    update_file_custom_metadata(fn, {"a": "x", b"a": "y"})
    keys = [e.key for e in fastparquet.ParquetFile(fn).fmd.key_value_metadata]
    print("keys after the update:", keys)
    VIOLATED = keys.count(b"a") != 1
finally:
    shutil.rmtree(d, ignore_errors=True)
print("VIOLATED", VIOLATED)
'''


def p_merge(ctx):
    ctx.assumptions += [a for a in c16_merge.ASSUMED if a not in ctx.assumptions]
    try:
        results = c16_merge.check(ctx, 10000 if ctx.tier == "quick" else 60000)
    except Unsupported as ex:
        ctx.obligation("update_custom_metadata.out_of_reach", FUNCTION, UNKNOWN, "engine", 0.0, detail=str(ex), sample=True)
        return
    for res in results:
        # the complement of the finding's region = the fold steps and the invariant WITH the requirement on the update keys
        others_ok = all(res.status(n) == PROVED for n in res.order
                        if re.search(r"\.(set_present|set_absent|remove_present|remove_absent|invariant_preserved|invariant_on_entry)\.", n))
        for name in res.order:
            st = res.status(name)
            e = next((x for x in res.d[name] if x[0] == st), res.d[name][0])
            secs = sum(x[2] for x in res.d[name])
            fid = next((f for f, rx in KNOWN if rx.search(name)), None)
            if st == REFUTED and fid and ctx.is_known(fid) and others_ok:
                ctx.obligation(name, FUNCTION, "refuted-known", e[3], secs, model=e[1], sample=True,
                               detail="refuted only when an earlier item of the same update has the same bytes key (known finding "
                                      f"{fid}); the fold steps are proved for updates whose keys have distinct bytes forms")
                ctx.known_finding(fid)
                continue
            ctx.obligation(name, FUNCTION, st, e[3], secs, detail=e[4], model=e[1] if st == REFUTED else None, sample=True)
            if st == REFUTED:
                confirmed, snippet, text = False, None, (e[4] or "")[:200]
                if fid:
                    snippet = SNIPPET
                    try:
                        from runtime.harness import import_fastparquet
                        import_fastparquet()
                        g = {}
                        exec(snippet, g)
                        confirmed = bool(g.get("VIOLATED"))
                        text = "update {'a': 'x', b'a': 'y'} of a file without key a: VIOLATED=%s" % g.get("VIOLATED")
                    except Exception as ex:
                        text = f"replay crashed: {type(ex).__name__}: {ex}"
                ctx.violation(name, {"function": FUNCTION, "model": e[1], "solver_output": str(e[1])[:600], "snippet": snippet},
                              confirmed, what=text)


def p_merge_bytes(ctx):
    """C10 / C12 side of the same contract: every key and value util.update_custom_metadata stores into key_value_metadata is
    ensure_bytes(...) of what the caller gave - to_bytes sizes its buffer from len(str(key_value_metadata)), which counts
    characters: a str value with non-ASCII text is copied past the budget (the known to_bytes findings start where this
    obligation ends).  Only the set_* fold steps are reported here (C16 reports the whole contract)."""
    try:
        results = c16_merge.check(ctx, 10000 if ctx.tier == "quick" else 60000)
    except Unsupported as ex:
        ctx.obligation("update_custom_metadata.out_of_reach", FUNCTION, UNKNOWN, "engine", 0.0, detail=str(ex), sample=True)
        return
    for res in results:
        for name in res.order:
            if not re.search(r"\.(set_present|set_absent)\.", name):
                continue
            st = res.status(name)
            e = next((x for x in res.d[name] if x[0] == st), res.d[name][0])
            nm = name.replace("merge", "key_value_texts_are_bytes", 1)
            ctx.obligation(nm, FUNCTION, st, e[3], sum(x[2] for x in res.d[name]), detail=e[4], model=e[1] if st == REFUTED else None, sample=True)
            if st == REFUTED:
                ctx.violation(nm, {"function": FUNCTION, "model": e[1], "solver_output": str(e[1])[:600], "snippet": None}, False,
                              what="a key / value is stored without ensure_bytes: " + (e[4] or "")[:160])
