"""P part of C04 (user-facing half): api.sorted_partitioned_columns (list reasoning) and api.statistics(<ColumnChunk>)."""
from contracts import c04_sorted
from vlib.common import PROVED, REFUTED, UNKNOWN


def replay_native(name, model):
    """run the REAL sorted_partitioned_columns on the counter-model (statistics / filter_row_groups replaced by the model's
    lists, as in the contract) and judge by the property.  -> (confirmed, text)"""
    if not model or "statistics_min" not in model:
        return False, "no concrete input in the counter-model"
    from runtime.harness import import_fastparquet
    import_fastparquet()
    from fastparquet import api

    class PF:
        columns = ["c"]
    mn, mx = list(model["statistics_min"]), list(model["statistics_max"])
    sel = model.get("selected_row_groups") if model.get("filters_given") else None
    s0, f0 = api.statistics, api.filter_row_groups
    api.statistics = lambda pf: {"min": {"c": list(mn)}, "max": {"c": list(mx)}, "null_count": {"c": [0] * len(mn)},
                                 "distinct_count": {"c": [None] * len(mn)}}
    api.filter_row_groups = lambda pf, filters, as_idx=False: list(sel)
    try:
        out = api.sorted_partitioned_columns(PF(), filters=[("c", ">", 0)] if sel is not None else None)
    except Exception as ex:
        return True, f"real function raised {type(ex).__name__}: {ex}"
    finally:
        api.statistics, api.filter_row_groups = s0, f0
    try:
        emn = [mn[i] for i in sel] if sel is not None else mn
        emx = [mx[i] for i in sel] if sel is not None else mx
    except IndexError:
        return True, "selected index outside the statistics list"
    if "c" not in out:
        cond = (emn and len(emn) == len(emx) and None not in emn + emx and sorted(emn) == emn and sorted(emx) == emx
                and all(emx[i] < emn[i + 1] for i in range(len(emn) - 1)))
        if "implies_listed" in name and cond:
            return True, f"real function does not list the column although min={emn} max={emx} are None-free, ascending and strictly increasing across row groups"
        return False, f"real function does not list the column: {out!r}"
    bad = (out["c"] != {"min": emn, "max": emx} or None in emn + emx or not emn or len(emn) != len(emx)
           or any(not (emx[a] < emn[b]) for a in range(len(emn)) for b in range(a + 1, len(emn)))
           or sorted(emn) != emn or sorted(emx) != emx)
    return bad, f"real function lists the column: {out!r}; expected statistics of the selection min={emn} max={emx}"


def replay_frame():
    """run the REAL function on a handle whose cached statistics are known, with filters; -> (confirmed, text)"""
    import copy
    from runtime.harness import import_fastparquet
    import_fastparquet()
    from fastparquet import api
    cached = {"min": {"c": [1, 3, 5, 7]}, "max": {"c": [2, 4, 6, 8]}, "null_count": {"c": [0] * 4}, "distinct_count": {"c": [None] * 4}}

    class PF:
        columns = ["c"]
        statistics = copy.deepcopy(cached)
        _statistics = statistics
    pf = PF()
    attrs0 = dict(vars(pf))
    s0, f0 = api.statistics, api.filter_row_groups
    api.statistics = lambda h: copy.deepcopy(cached)
    api.filter_row_groups = lambda h, filters, as_idx=False: [1, 3]
    try:
        first = api.sorted_partitioned_columns(pf, filters=[("c", ">", 2)])
        second = api.sorted_partitioned_columns(pf, filters=[("c", ">", 2)])
    except Exception as ex:
        return True, f"real function raised {type(ex).__name__}: {ex} (second filtered call on the same handle)"
    finally:
        api.statistics, api.filter_row_groups = s0, f0
    bad = pf.statistics != cached or vars(pf) != attrs0 or first != second
    return bad, (f"after sorted_partitioned_columns(pf, filters) the handle's cached statistics are {pf.statistics['min']} / {pf.statistics['max']} "
                 f"(were 4 entries per column); first call {first}, second call {second}")


def p_sorted(ctx):
    ctx.assumptions += [a for a in c04_sorted.ASSUMED if a not in ctx.assumptions]
    for name, model in c04_sorted.check(ctx, 10000 if ctx.tier == "quick" else 60000):
        confirmed, text = (False, "symbolic ThriftObject: no native replay")
        if name.startswith("sorted_columns"):
            try:
                confirmed, text = replay_frame() if ("fresh_object" in name or "handle_not_mutated" in name) else replay_native(name, model)
            except Exception as ex:      # the replay helper failed: the violation stands, unconfirmed
                confirmed, text = False, f"replay failed: {type(ex).__name__}: {ex}"
        ctx.violation(name, {"function": "api.sorted_partitioned_columns" if name.startswith("sorted") else "api.statistics",
                             "model": model, "replay_result": text,
                             "snippet": "from props._sorted import replay_native; print(replay_native(%r, %r))" % (name, model)},
                      confirmed, what=text)
