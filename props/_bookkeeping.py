"""P part shared by C02 / C04 / C01 / C07 / C11 / C05: size / offset / count bookkeeping of writer.write_column, make_row_group, iter_dataframe
(contracts/c02_bookkeeping.py).  ctx.prop selects the obligations that carry the property; the loop-invariant obligations the
selected postconditions rest on are included with them."""
import re

from contracts import c02_bookkeeping
from vlib.common import PROVED, REFUTED, UNKNOWN

_NULLS = re.compile(r"null|NULLS|row_offsets\[t\]|page_tiling|iloc_slice|rows_are_the_tile|statistics\.|out_of_reach")
_TILING = re.compile(r"^iter_dataframe|definition_block_form_matches_page_version|page_tiling|num_values|num_rows|row_offsets\[t\]|exactly_one_data_page_per_tile|rows_are_the_tile|iloc_slice|"
                     r"one_chunk_per_typed|columns_are_the_chunks|empty_frame_returns_None|nonempty_frame|schema_loop|out_of_reach")
_C07 = re.compile(r"^make_row_group\.(chunk_written_from_the_column_named_by_its_schema_element|one_chunk_per_typed_schema_element_in_schema_order|"
                  r"schema_loop|schema_index_in_range|out_of_reach)")
_C11 = re.compile(r"^write_column\[v[12]\]\.(definition_block_form_matches_page_version|out_of_reach)$")
_C05 = re.compile(r"^write_column\[v[12]\]\.(statistics\.(max|min)_is_plain_encoding_of_column_(max|min)|out_of_reach)$")
SELECT = {
    "C11": lambda n: _C11.search(n) is not None,      # call site of make_definitions: block form follows the page version
    "C05": lambda n: _C05.search(n) is not None,      # the bounds pruning relies on are the column's max / min, unprocessed
    "C07": lambda n: _C07.search(n) is not None,      # an appended frame's columns land under the schema elements that name them
    "C02": lambda n: not n.startswith("iter_dataframe"),
    "C04": lambda n: n.startswith("write_column") and _NULLS.search(n) is not None,
    "C01": lambda n: _TILING.search(n) is not None,
}
PARTS = {"C11": ("write_column",), "C05": ("write_column",), "C07": ("make_row_group",), "C02": ("write_column", "make_row_group"), "C04": ("write_column",), "C01": ("write_column", "make_row_group", "iter_dataframe")}
# known findings: (id, regex over the obligation names it covers).  None is open: the three findings of this contract
# (fixed-C02-codec-dict-without-type, fixed-C02-codec-empty-dict, fixed-C02-encoding-stats-page-type-v2) are repaired in /repo and
# `fixed` records suppress nothing - a refutation of those obligations is a VIOLATION again.
KNOWN = {}


def function_of(name):
    if name.startswith("write_column"):
        return "writer.write_column"
    return "writer." + name.split("[")[0].split(".")[0]


def p_bookkeeping(ctx):
    ctx.assumptions += [a for a in c02_bookkeeping.ASSUMED if a not in ctx.assumptions]
    sel = SELECT[ctx.prop]
    for res in c02_bookkeeping.check(ctx, 10000 if ctx.tier == "quick" else 60000, parts=PARTS[ctx.prop]):
        for name in res.order:
            if not sel(name):
                continue
            st = res.status(name)
            e = next((x for x in res.d[name] if x[0] == st), res.d[name][0])
            fn = function_of(name)
            secs = sum(x[2] for x in res.d[name])
            fid = next((f for f, rx in KNOWN.get(ctx.prop, []) if rx.search(name)), None)
            if st == REFUTED and fid and ctx.is_known(fid):
                ctx.obligation(name, fn, "refuted-known", e[3], secs, detail=e[4], model=e[1], sample=True)
                ctx.known_finding(fid)
                continue
            ctx.obligation(name, fn, st, e[3], secs, detail=f"{e[4]} [{len(res.d[name])} path(s)]", model=e[1] if st == REFUTED else None,
                           sample=(st != PROVED or ".colmeta." in name or name.startswith(("make_row_group.rg", "iter_dataframe"))))
            if st == REFUTED:
                ctx.violation(name, {"function": fn, "model": e[1], "solver_output": str(e[1])[:600], "snippet": None}, False,
                              what=(e[4] or "")[:200])
