"""C02 - see properties.jsonl; DESIGN.md section 5."""
from ._generic import run_property

EXPLANATION = 'Mixed. P: the whole of writer.write_column (data-page v1 and v2) executed symbolically with the page loop run for one arbitrary page under a 13-conjunct invariant proved on entry and after the body, make_row_group over an abstract schema with write_column by contract, and iter_dataframe: page header sizes = bytes after the header / plain length, num_values, v2 level lengths and num_nulls, chunk total sizes = sum over pages, data/dictionary page offsets, file_offset, encodings and encoding_stats, codec = codec actually applied, row group num_rows / total_byte_size / chunks in schema order (refuted ones are known findings; payload bytes are not covered, only lengths). writer.write_simple.write_to_file is executed symbolically from its real source on the byte-file model (make_row_group by contract: writes only at/after the current position): a fresh file is PAR1 ++ row groups ++ footer ++ le32(len returned by f.write) ++ PAR1, footer metadata updated before serialisation. B (labelled bounded): every file a write produces is decoded by an independent specification-level reader (spec/pqread.py, IDL-driven strict Thrift decode) and checked structurally (offsets, sizes, counts, page tiling, encodings, codec) and for value equality incl. NULL vs NaN.'


def p_parts():
    from ._append import p_append
    from ._deflevels import p_deflevels
    from ._bookkeeping import p_bookkeeping
    from ._generic import optional_parts
    return [p_append, p_deflevels, p_bookkeeping] + optional_parts(("_units", "p_units"), ("_partfiles", "p_partfiles"), ("_schematree", "p_schematree"), ("_makemeta", "p_makemeta"))


def run(ctx):
    return run_property(ctx, 'other', EXPLANATION, p_parts=p_parts(), b_modules=['c02_independent_reader'],
                        assumptions=["pandas / numpy / cramjam behaviour inside every opaque value",
                                     "the oracle (plain pandas / the spec library under /verif/spec) is a faithful reading of the property"],
                        trusted=["bounded layer: enumerated inputs only; nothing outside the stated bound is covered"])
