"""C02 - see properties.jsonl; DESIGN.md section 5."""
from ._generic import run_property

EXPLANATION = 'Bounded stand-in: every file a write produces is decoded by an independent specification-level reader (spec/pqread.py, IDL-driven strict Thrift decode) and checked structurally (offsets, sizes, counts, page tiling, encodings, codec) and for value equality incl. NULL vs NaN.'


def p_parts():
    return []


def run(ctx):
    return run_property(ctx, 'exploration', EXPLANATION, p_parts=p_parts(), b_modules=['c02_independent_reader'],
                        assumptions=["pandas / numpy / cramjam behaviour inside every opaque value",
                                     "the oracle (plain pandas / the spec library under /verif/spec) is a faithful reading of the property"],
                        trusted=["bounded layer: enumerated inputs only; nothing outside the stated bound is covered"])
