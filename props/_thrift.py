"""P part shared by C10 / C12: cencoding.write_thrift / write_list / read_thrift / read_list per value kind at the byte level,
read_unsigned_var_int's callee contract, to_bytes capacity."""
import concurrent.futures as cf
import multiprocessing as mp
import re

from contracts import c10_thrift, c10_read, cy
from vlib.common import PROVED, REFUTED, UNKNOWN

KNOWN = {"C10": [("C10-P-to-bytes-capacity", re.compile(r"^to_bytes\.capacity")),
                 ("C10-P-i8-parsed-unsigned", re.compile(r"^read_thrift\.value\[i8\]$"))],
         "C12": [("C12-P-to-bytes-capacity", re.compile(r"^to_bytes\.capacity"))]}


def _task(t):
    kind, timeout = t
    try:
        if kind == "to_bytes":
            res = c10_thrift.to_bytes_capacity(timeout)
        elif kind == "varint_lemma":
            res = c10_read.varint_lemma(timeout)
        elif kind.startswith("r:"):
            res = c10_read.read_thrift_kind(kind[2:], timeout)
        elif kind.startswith("rl:"):
            _, a, b = kind.split(":")
            res = c10_read.read_list_kind(a, b, timeout)
        elif kind.startswith("wl:"):
            _, a, b = kind.split(":")
            res = c10_read.write_list_kind(a, b, timeout)
        else:
            res = c10_thrift.write_thrift_kind(kind, timeout)
        return (kind, res.order, res.d, res.kind, None)
    except Exception as ex:
        import traceback
        return (kind, [], {}, {}, f"{type(ex).__name__}: {ex} | " + traceback.format_exc().splitlines()[-3].strip())


def p_thrift(ctx):
    cy.register(ctx, ["write_thrift", "write_list", "read_thrift", "read_list", "ThriftObject.to_bytes", "encode_unsigned_varint",
                      "read_unsigned_var_int", "long_zigzag", "zigzag_long", "NumpyIO.write_byte", "NumpyIO.read_byte", "NumpyIO.seek",
                      "NumpyIO.get_pointer"])
    for a in c10_read.ASSUMED:
        if a not in ctx.assumptions:
            ctx.assumptions.append(a)
    timeout = 30000 if ctx.tier == "quick" else 120000
    tasks = [(k, timeout) for k in c10_thrift.KINDS] + [("to_bytes", timeout), ("varint_lemma", timeout)]
    tasks += [("r:" + k, timeout) for k in c10_read.RKINDS]
    tasks += [(f"rl:{a}:{b}", timeout) for a, b in c10_read.LKINDS]
    tasks += [(f"wl:{a}:{b}", timeout) for a, b in c10_read.WLKINDS]
    with cf.ProcessPoolExecutor(max_workers=14, mp_context=mp.get_context("fork")) as ex:
        results = list(ex.map(_task, tasks))
    want = "safety" if ctx.prop == "C12" else None
    for kind, order, d, kinds, err in results:
        if err:
            ctx.obligation(f"thrift[{kind}].out_of_reach", "cencoding.write_thrift", "unknown", "engine", 0.0, detail=err, sample=True)
            continue
        fn = "cencoding." + ("read_thrift" if kind.startswith("r:") else "read_list" if kind.startswith("rl:") else "write_list"
                             if kind.startswith("wl:") else "read_unsigned_var_int" if kind == "varint_lemma" else "write_thrift")
        for name in order:
            k = kinds.get(name, "functional")
            if want == "safety" and k != "safety":
                continue
            if want is None and k == "safety" and not name.startswith("to_bytes"):
                continue                    # the safety side is C12's
            entries = d[name]
            sts = [e[0] for e in entries]
            st = REFUTED if REFUTED in sts else UNKNOWN if UNKNOWN in sts else PROVED
            e = next((x for x in entries if x[0] == st), entries[0])
            fid = next((f for f, rx in KNOWN.get(ctx.prop, []) if rx.search(name)), None)
            if st == REFUTED and fid and ctx.is_known(fid):
                ctx.obligation(name, "cencoding.ThriftObject.to_bytes" if name.startswith("to_bytes") else fn, "refuted-known", e[3], e[2],
                               detail=e[4], model=e[1], sample=True)
                ctx.known_finding(fid)
                continue
            ctx.obligation(name, fn, st, e[3], sum(x[2] for x in entries), detail=e[4],
                           model=e[1] if st == REFUTED else None, sample=True)
            if st == REFUTED:
                ctx.violation(name, {"function": fn, "model": e[1], "solver_output": str(e[1])[:600], "snippet": None},
                              False, what=(e[4] or "")[:200])
