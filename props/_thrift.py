"""P part shared by C10 / C12: cencoding.write_thrift per value kind at the byte level + to_bytes capacity."""
import concurrent.futures as cf
import multiprocessing as mp
import re

from contracts import c10_thrift, cy
from vlib.common import PROVED, REFUTED, UNKNOWN

KNOWN = {"C10": [("C10-P-to-bytes-capacity", re.compile(r"^to_bytes\.capacity"))],
         "C12": [("C12-P-to-bytes-capacity", re.compile(r"^to_bytes\.capacity"))]}


def _task(t):
    kind, timeout = t
    try:
        res = c10_thrift.write_thrift_kind(kind, timeout) if kind != "to_bytes" else c10_thrift.to_bytes_capacity(timeout)
        return (kind, res.order, res.d, res.kind, None)
    except Exception as ex:
        import traceback
        return (kind, [], {}, {}, f"{type(ex).__name__}: {ex} | " + traceback.format_exc().splitlines()[-3].strip())


def p_thrift(ctx):
    cy.register(ctx, ["write_thrift", "ThriftObject.to_bytes", "encode_unsigned_varint", "long_zigzag", "NumpyIO.write_byte",
                      "NumpyIO.get_pointer"])
    timeout = 30000 if ctx.tier == "quick" else 120000
    tasks = [(k, timeout) for k in c10_thrift.KINDS] + [("to_bytes", timeout)]
    with cf.ProcessPoolExecutor(max_workers=10, mp_context=mp.get_context("fork")) as ex:
        results = list(ex.map(_task, tasks))
    want = "safety" if ctx.prop == "C12" else None
    for kind, order, d, kinds, err in results:
        if err:
            ctx.obligation(f"write_thrift[{kind}].out_of_reach", "cencoding.write_thrift", "unknown", "engine", 0.0, detail=err, sample=True)
            continue
        for name in order:
            k = kinds.get(name, "functional")
            if want == "safety" and k != "safety":
                continue
            if want is None and k == "safety" and not name.startswith("to_bytes"):
                continue                    # the safety side is C12's
            entries = d[name]
            sts = [e[0] for e in entries]
            st = REFUTED if REFUTED in sts else UNKNOWN if UNKNOWN in sts else PROVED
            e = next((x for x in entries if x[0] == st), entries[0])
            fid = next((f for f, rx in KNOWN.get(ctx.prop, []) if rx.search(name)), None)
            if st == REFUTED and fid and ctx.is_known(fid):
                ctx.obligation(name, "cencoding.ThriftObject.to_bytes", "refuted-known", e[3], e[2], detail=e[4], model=e[1], sample=True)
                ctx.known_finding(fid)
                continue
            ctx.obligation(name, "cencoding.write_thrift", st, e[3], sum(x[2] for x in entries), detail=e[4],
                           model=e[1] if st == REFUTED else None, sample=True)
            if st == REFUTED:
                ctx.violation(name, {"function": "cencoding.write_thrift", "model": e[1], "solver_output": str(e[1])[:600], "snippet": None},
                              False, what=(e[4] or "")[:200])
