"""C07 - see properties.jsonl; DESIGN.md section 5."""
from ._generic import run_property

EXPLANATION = 'Bounded stand-in: append histories (1..3 appends) with read-back == concatenation, byte-identity of the pre-existing single-file prefix and of pre-existing data files.'


def p_parts():
    return []


def run(ctx):
    return run_property(ctx, 'exploration', EXPLANATION, p_parts=p_parts(), b_modules=['c07_append_history'],
                        assumptions=["pandas / numpy / cramjam behaviour inside every opaque value",
                                     "the oracle (plain pandas / the spec library under /verif/spec) is a faithful reading of the property"],
                        trusted=["bounded layer: enumerated inputs only; nothing outside the stated bound is covered"])
