"""C07 - see properties.jsonl; DESIGN.md section 5."""
from ._generic import run_property

EXPLANATION = 'Mixed. P: writer.write_simple.write_to_file is executed symbolically from its real source on the byte-file model (make_row_group by contract: writes only at/after the current position): an append never changes a byte before the old footer, seeks exactly to the old footer, and leaves F_new ++ le32(len) ++ PAR1 at the end. B (labelled bounded): append histories (1..3 appends) with read-back == concatenation, byte-identity of the pre-existing single-file prefix and of pre-existing data files.'


def p_parts():
    from ._append import p_append
    from ._parts import p_parts as p_partnames
    from ._bookkeeping import p_bookkeeping
    from ._generic import optional_parts
    return [p_append, p_partnames, p_bookkeeping] + optional_parts(("_partfiles", "p_partfiles"), ("_makemeta", "p_makemeta"), ("_pathconv", "p_read_partitions"), ("_pathconv", "p_part_id"), ("_cats", "p_cats"), ("_units", "p_units"))


def run(ctx):
    return run_property(ctx, 'other', EXPLANATION, p_parts=p_parts(), b_modules=['c07_append_history'],
                        assumptions=["pandas / numpy / cramjam behaviour inside every opaque value",
                                     "the oracle (plain pandas / the spec library under /verif/spec) is a faithful reading of the property"],
                        trusted=["bounded layer: enumerated inputs only; nothing outside the stated bound is covered"])
