"""P part of C09: the dataset-editing functions under contract (contracts/c09_edits.py):
api.ParquetFile.remove_row_groups + row_groups_map, writer.overwrite, api.ParquetFile._sort_part_names + part_ids + partitions."""
import re

from contracts import c09_edits
from vlib.common import PROVED, REFUTED, UNKNOWN

# obligations that are refuted on the unchanged tree inside the region of a recorded finding (each has a sibling obligation that is
# PROVED under the complementary precondition, which is what makes the region exact).  The two other findings of this module
# (partial removal unguarded, stale path of further row groups of a renamed file, Timestamp / float32 partition texts in overwrite)
# were repaired in /repo (7ff1610, 75dfd7f, 1c32364):
# `fixed-*` records suppress nothing, their obligations must be PROVED
KNOWN = [
    (c09_edits.FID_COLLIDE, re.compile(r"^rename\..*\[any numbering\]$")),
]
FUNC = [("row_groups_map.", "api.row_groups_map"), ("remove", "api.ParquetFile.remove_row_groups"), ("overwrite.partition_text", "writer.overwrite"), ("overwrite", "writer.overwrite"),
        ("part_ids", "api.part_ids"), ("partitions", "api.partitions"), ("rename", "api.ParquetFile._sort_part_names"),
        ("_sort_part_names", "api.ParquetFile._sort_part_names")]


def p_edits(ctx):
    ctx.assumptions += [a for a in c09_edits.ASSUMED if a not in ctx.assumptions]
    for res in c09_edits.check(ctx, 10000 if ctx.tier == "quick" else 60000):
        for name in res.order:
            st = res.status(name)
            e = next((x for x in res.d[name] if x[0] == st), res.d[name][0])
            fn = next((f for pre, f in FUNC if name.startswith(pre)), "?")
            secs = sum(x[2] for x in res.d[name])
            fid = next((f for f, rx in KNOWN if rx.search(name)), None)
            if st == REFUTED and fid and ctx.is_known(fid):
                ctx.obligation(name, fn, "refuted-known", e[3], secs, detail=e[4], model=e[1], sample=True)
                ctx.known_finding(fid)
                continue
            ctx.obligation(name, fn, st, e[3], secs, detail=e[4], model=e[1] if st == REFUTED else None, sample=st != PROVED)
            if st == REFUTED:
                ctx.violation(name, {"function": fn, "model": e[1], "solver_output": str(e[1])[:600], "snippet": None}, False,
                              what=(e[4] or "")[:200])
