"""P part shared by C15 / C12: record assembly under contract (contracts/c15_assembly.py).
C15: the functional obligations of cencoding._assemble_objects (Dremel step contract), schema.py level / shape functions, core.py call
     sites (row index handed from page to page, v2 pages, MAP key / value zipping).
C12: the SAFETY obligations of the kernel (every index into assign / defi / rep / val / dic inside its array under the stated
     precondition) and the three obligations that carry that precondition from one page to the next (`safety chain`)."""
import concurrent.futures as cf
import multiprocessing as mp
import re

from contracts import c15_assembly as c15, cy
from vlib.common import PROVED, REFUTED, UNKNOWN

KNOWN = {
    "C15": [
        ("C15-P-row-continued-by-nulls-only", re.compile(r"^assemble\.step\[rep=0,first_row_of_page,after_continuation_of_nulls_only\]\.rows_match_spec")),
        ("C15-P-continuation-only-page-row-index", re.compile(r"^assemble\.exit\[continuation_only_page\]\.returns_index_of_last_row_started")),
        ("C15-P-v2-null-hard-coded", re.compile(r"^read_data_page_v2\.assemble\.null_iff_outer_optional\[outer_required\]")),
        ("C15-P-v2-defi-unbound", re.compile(r"^read_data_page_v2\.assemble\.defi_levels_were_read\[page_without_nulls\]")),
        ("C15-P-v2-no-assembly-unless-dictionary", re.compile(r"^read_data_page_v2\.repeated_column_is_assembled\[(PLAIN|RLE|DELTA_BINARY_PACKED)\]")),
        ("C15-P-shape-accepts-repeated-outer", re.compile(r"^_is_(list|map)_like\.true_only_for_the_(list|map)_layout\[outer_repeated\]")),
    ],
    "C12": [
        ("C12-P-assemble-row-index-overrun", re.compile(r"^assemble\.exit\[continuation_only_page\]\.returns_index_of_last_row_started")),
    ],
}
# what the kernel's safety obligations rest on: the arithmetic part of the loop invariant (on entry, kept by every iteration), the loop
# bounds, and the obligations that carry the precondition `prev_i == rows started so far` from one page to the next
CHAIN = re.compile(r"^assemble\.exit\[.*\]\.returns_index_of_last_row_started|^read_col\.assemble\.prev_i_is_rows_started_so_far"
                   r"|^read_col\.row_index_handed_to_next_page|^read_col\.assemble\.output_is_the_row_group_array|^read_col\.row_index_starts_at_0"
                   r"|^assemble\.invariant_on_entry|^assemble\.step\[.*\]\.(cursors|continued_row_is_a_list)|^assemble\.step\.loop_counter_not_modified"
                   r"|^assemble\.loop_runs_over_all_levels|^assemble\.step\.hypotheses_satisfiable|^assemble\.precondition_satisfiable"
                   r"|^assemble\.step\.no_abrupt_exit|^assemble\.step\[.*\]\.reachable")


def _fn_of(label):
    if label.startswith("assemble"):
        return "cencoding._assemble_objects"
    return {"levels.max_rep": "schema.SchemaHelper.max_repetition_level", "levels.max_def": "schema.SchemaHelper.max_definition_level",
            "levels.layout": "schema.SchemaHelper.max_definition_level", "is_required": "schema.SchemaHelper.is_required",
            "shape.list": "schema._is_list_like", "shape.map": "schema._is_map_like", "core.read_col": "core.read_col",
            "core.v2": "core.read_data_page_v2", "core.map_zip": "core.read_row_group_arrays"}.get(label, "?")


def _task(t):
    i, timeout = t
    label, fn = c15.parts()[i]
    try:
        res = fn(timeout)
        return (label, res.order, res.d, getattr(res, "kind", {}), None)
    except Exception as ex:
        import traceback
        return (label, [], {}, {}, f"{type(ex).__name__}: {ex} | " + traceback.format_exc().splitlines()[-3].strip())


def p_assembly(ctx):
    from vc.front_py import parse_module
    cy.register(ctx, ["_assemble_objects"])
    if ctx.prop != "C12":
        for rel, names in (("fastparquet/schema.py", ["SchemaHelper.max_repetition_level", "SchemaHelper.max_definition_level", "SchemaHelper.is_required",
                                                       "_is_list_like", "_is_map_like"]),
                           ("fastparquet/core.py", ["read_col", "read_data_page_v2", "read_row_group_arrays"])):
            funcs, _, _ = parse_module(rel)
            mod = rel.split("/")[-1][:-3]
            for n in names:
                ctx.function(f"{mod}.{n}", funcs[n].sha, funcs[n].report)
    else:
        funcs, _, _ = parse_module("fastparquet/core.py")
        ctx.function("core.read_col", funcs["read_col"].sha, funcs["read_col"].report)
    for a in c15.ASSUMED + ["precondition of _assemble_objects: " + t for t in c15.PRE_TEXT]:
        if a not in ctx.assumptions:
            ctx.assumptions.append(a)
    timeout = 30000 if ctx.tier == "quick" else 120000
    labels = [lb for lb, _ in c15.parts()]
    idx = [i for i, lb in enumerate(labels) if ctx.prop != "C12" or lb.startswith("assemble") or lb == "core.read_col"]
    with cf.ProcessPoolExecutor(max_workers=min(14, len(idx)), mp_context=mp.get_context("fork")) as ex:
        results = list(ex.map(_task, [(i, timeout) for i in idx]))
    for label, order, d, kinds, err in results:
        fn = _fn_of(label)
        if err:
            ctx.obligation(f"assembly[{label}].out_of_reach", fn, "unknown", "engine", 0.0, detail=err, sample=True)
            continue
        for name in order:
            k = kinds.get(name, "functional")
            if ctx.prop == "C12":
                if not ((k == "safety" and label.startswith("assemble")) or CHAIN.search(name) or name.endswith("out_of_reach")):
                    continue
            elif k == "safety" and label.startswith("assemble"):
                continue                                  # the kernel's safety side is C12's
            entries = d[name]
            sts = [e[0] for e in entries]
            st = REFUTED if REFUTED in sts else UNKNOWN if UNKNOWN in sts else PROVED
            e = next((x for x in entries if x[0] == st), entries[0])
            fid = next((f for f, rx in KNOWN.get(ctx.prop, []) if rx.search(name)), None)
            if st == REFUTED and fid and ctx.is_known(fid):
                ctx.obligation(name, fn, "refuted-known", e[3], e[2], detail=e[4], model=e[1], sample=True)
                ctx.known_finding(fid)
                continue
            ctx.obligation(name, fn, st, e[3], sum(x[2] for x in entries), detail=e[4], model=e[1] if st == REFUTED else None,
                           sample=(st != PROVED or "rows_match_spec" in name))
            if st == REFUTED:
                ctx.violation(name, {"function": fn, "model": e[1], "solver_output": str(e[1])[:600], "snippet": None},
                              False, what=(e[4] or "")[:200])
