"""P part shared by C07 / C19 / C09: part-name freshness and metadata-last on the I/O effect trace."""
from contracts import c07_parts
from vlib.common import PROVED, REFUTED, UNKNOWN


def p_parts(ctx):
    ctx.assumptions += [a for a in c07_parts.ASSUMED if a not in ctx.assumptions]
    for res in c07_parts.check(ctx, 10000 if ctx.tier == "quick" else 60000):
        for name in res.order:
            st = res.status(name)
            e = next((x for x in res.d[name] if x[0] == st), res.d[name][0])
            ctx.obligation(name, "writer.write_multi / find_max_part / api.part_ids", st, e[3], sum(x[2] for x in res.d[name]), detail=e[4],
                           model=e[1] if st == REFUTED else None, sample=True)
            if st == REFUTED:
                ctx.violation(name, {"function": "writer.write_multi", "model": e[1], "solver_output": str(e[1])[:600],
                                     "snippet": None}, False, what=(e[4] or "")[:200])
