"""C10 - see properties.jsonl; DESIGN.md section 5."""
from ._generic import run_property

EXPLANATION = 'Bounded stand-in: structs generated from the IDL through the API and from independently encoded bytes: to_bytes decodes strictly per IDL to the same values, from_buffer round trip, pickle; oversize payloads only in subprocesses.'


def p_parts():
    return []


def run(ctx):
    return run_property(ctx, 'exploration', EXPLANATION, p_parts=p_parts(), b_modules=['c10_idl_roundtrip'],
                        assumptions=["pandas / numpy / cramjam behaviour inside every opaque value",
                                     "the oracle (plain pandas / the spec library under /verif/spec) is a faithful reading of the property"],
                        trusted=["bounded layer: enumerated inputs only; nothing outside the stated bound is covered"])
