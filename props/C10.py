"""C10 - metadata serialisation is lossless, IDL-conformant and safe for any size."""
import os
import re

from contracts import c10_tables, kernels
from contracts.util import merge_and_record
from vlib.common import PROVED, REFUTED, UNKNOWN
from ._generic import run_property

EXPLANATION = (
    "P (finite domains decided by enumeration on the real sources + the shared 64-bit lemmas): the field-id and children tables of "
    "cencoding.pyx equal the IDL shipped with the library for every struct they contain; every field id is inside write_thrift's "
    "field loop (refuted for id 14 = known finding); every thrift construction site in the .py files carries an integer-width "
    "marker that declares exactly its 32-bit integer fields; no boolean expression is assigned to an integer/enum field; varint "
    "and zigzag round trips hold on the whole 64-bit domain (obligations of C11 re-run). Byte level, per value kind, from the .pyx: "
    "write_thrift (header byte, payload bytes, cursor, frame, stop byte; capacity as a precondition - to_bytes.capacity is refuted = "
    "known finding), write_list (header short/long form, elements), read_thrift (one arbitrary field: id, value, cursor, width-marker "
    "invariant and the marker round trip on exit), read_list (size, elements), read_unsigned_var_int as a callee contract; the lifting "
    "from per-field / per-element lemmas to whole structures is argued. NOT under contract: dict_eq, the ThriftObject attribute API "
    "unless its contract module is present - covered by the bounded IDL round-trip contract (strict IDL decode of to_bytes output, "
    "foreign bytes re-serialised, pickle), labelled bounded. Level 'other': mixed.")

KNOWN = [("C10-P-field-id-14-outside-loop", re.compile(r"^write_thrift\.field_range\[(ColumnMetaData|LogicalType)\]"))]


def p_tables(ctx):
    res, specs, idl = c10_tables.check_tables(ctx)
    res2 = c10_tables.check_ctor_sites(ctx, specs, idl)
    for r, fn in ((res, "cencoding tables / write_thrift"), (res2, "thrift construction sites (.py)")):
        for name in r.order:
            st = r.status(name)
            e = r.d[name][0]
            fid = next((f for f, rx in KNOWN if rx.search(name)), None)
            if st == REFUTED and fid and ctx.is_known(fid):
                ctx.obligation(name, fn, "refuted-known", e[3], 0.0, detail=e[4], model=e[1], sample=True)
                ctx.known_finding(fid)
                continue
            ctx.obligation(name, fn, st, e[3], 0.0, detail=e[4], model=e[1] if st == REFUTED else None,
                           sample=st != PROVED or name.startswith("ctor."))
            if st == REFUTED:
                ctx.violation(name, {"function": fn, "model": e[1], "solver_output": "finite enumeration: " + str(e[1]),
                                     "snippet": None}, False, what=str(e[1])[:300])


def p_varints(ctx):
    from contracts import cy
    cy.register(ctx, ["zigzag_long", "long_zigzag", "read_unsigned_var_int", "encode_unsigned_varint"])
    for fn in (kernels.k_zigzag, kernels.k_read_varint, kernels.k_encode_varint):
        res = fn(10000 if ctx.tier == "quick" else 60000)
        for name in res.order:
            st = res.status(name)
            e = res.d[name][0]
            ctx.obligation(name, "cencoding." + name.split(".")[0], st, e[3], sum(x[2] for x in res.d[name]), detail=e[4],
                           model=e[1] if st == REFUTED else None, sample=("roundtrip" in name or st != PROVED))
            if st == REFUTED:
                ctx.violation(name, {"function": name.split(".")[0], "model": e[1], "solver_output": str(e[1])}, False, what=str(e[1])[:300])


def p_merge_bytes(ctx):
    from ._merge import p_merge_bytes as f
    f(ctx)


def p_thrift(ctx):
    from ._thrift import p_thrift as f
    f(ctx)


def run(ctx):
    from ._generic import optional_parts
    return run_property(ctx, "other", EXPLANATION, p_parts=[p_tables, p_varints, p_thrift, p_merge_bytes] + optional_parts(("_thriftobj", "p_thriftobj"), ("_many", "p_many_fetch")), b_modules=["c10_idl_roundtrip"],
                        assumptions=["the IDL file shipped with the library (parquet.thrift) is the normative one",
                                     "a struct absent from the tables is refused with an error (KeyError) when used"] + kernels.ASSUMED,
                        trusted=["spec/thrift_idl.py (IDL parser, validated by re-encoding 24 third-party footers byte-identically)",
                                 "z3", "own VC generator"])
