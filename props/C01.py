"""C01 - see properties.jsonl; DESIGN.md section 5."""
from ._generic import run_property

EXPLANATION = 'Mixed. P (discharged for ALL sizes from the real source): the pages of a chunk tile rows 0..len(data) without gap or overlap and the row-group slices of iter_dataframe tile the frame (write_column / iter_dataframe bookkeeping contract); skip_definition_bytes advances exactly over the no-null definition block the writer emits (every page size < 2**31), check_32 returns only values fitting i32, the dictionary-index fast path takes at least the indices encode_dict wrote. B (labelled bounded, never counted as proved): round-trip contract attached to the real fastparquet.write / ParquetFile.to_pandas over an enumerated dtype x rows x null-pattern x pairwise option space; oracle is the input frame under the documented canonicalisations only.'


def p_arith(ctx):
    from contracts import py_arith
    from vlib.common import REFUTED
    res = py_arith.check(ctx, 10000 if ctx.tier == "quick" else 60000)
    for name in res.order:
        st = res.status(name)
        e = res.d[name][0]
        ctx.obligation(name, "core/writer (integer lemmas)", st, e[3], sum(x[2] for x in res.d[name]), detail=e[4],
                       model=e[1] if st == REFUTED else None, sample=True)
        if st == REFUTED:
            ctx.violation(name, {"function": name.split(".")[0], "model": e[1], "solver_output": str(e[1]),
                                 "snippet": None}, False, what=str(e[1])[:300])


def p_parts():
    from ._bookkeeping import p_bookkeeping
    from ._generic import optional_parts
    return [p_arith, p_bookkeeping] + optional_parts(("_encoders", "p_encoders"), ("_units", "p_units"), ("_makemeta", "p_makemeta"), ("_schematree", "p_schematree"), ("_pages", "p_schema_element"))


def run(ctx):
    return run_property(ctx, 'other', EXPLANATION, p_parts=p_parts(), b_modules=['c01_roundtrip'],
                        assumptions=["pandas / numpy / cramjam behaviour inside every opaque value",
                                     "the oracle (plain pandas / the spec library under /verif/spec) is a faithful reading of the property"],
                        trusted=["bounded layer: enumerated inputs only; nothing outside the stated bound is covered"])
