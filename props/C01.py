"""C01 - see properties.jsonl; DESIGN.md section 5."""
from ._generic import run_property

EXPLANATION = 'Bounded stand-in (labelled bounded, nothing proved yet for this property): round-trip contract attached to the real fastparquet.write / ParquetFile.to_pandas over an enumerated dtype x rows x null-pattern x pairwise option space; oracle is the input frame under the documented canonicalisations only.'


def p_parts():
    return []


def run(ctx):
    return run_property(ctx, 'exploration', EXPLANATION, p_parts=p_parts(), b_modules=['c01_roundtrip'],
                        assumptions=["pandas / numpy / cramjam behaviour inside every opaque value",
                                     "the oracle (plain pandas / the spec library under /verif/spec) is a faithful reading of the property"],
                        trusted=["bounded layer: enumerated inputs only; nothing outside the stated bound is covered"])
