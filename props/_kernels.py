"""Shared by C11 (functional obligations) and C12 (safety obligations): same executions of the extracted kernels."""
import os
import re

from contracts import cy, kernels_run, kernel_replay, kernel_tv, kernels
from vc import front_cy
from vlib.common import REPO, PROVED, REFUTED, UNKNOWN

# known findings of the P layer: (finding id, property, regex on obligation names)
KNOWN = [
    ("C11-P-read_bitpacked-width-25-32", "C11", r"^read_bitpacked\[w=(25|26|27|28|29|30|31|32),itemsize=4\]\.(closure\..*accumulator_holds_stream_bits|closure_completed)"),
    ("C12-P-read_bitpacked-width-25-32-shift", "C12", r"^read_bitpacked\[w=(25|26|27|28|29|30|31|32),itemsize=4\]\.shift_in_range"),
    ("C11-P-read_bitpacked-width0-cursor", "C11", r"^read_bitpacked\[w=0,itemsize=[14]\]\.closure\.invariant_on_entry"),
    ("C11-P-read_bitpacked-zero-groups-cursor", "C11", r"^read_bitpacked\[w=\d+,itemsize=4\]\[groups=0\]\.(closure\.invariant_on_entry|input_cursor)"),
    ("C11-P-delta-width-29-64", "C11", r"^delta_read_bitpacked\[w=(29|30|31|32|33|34|35|36|37|38|39|40|41|42|43|44|45|46|47|48|49|50|51|52|53|54|55|56|57|58|59|60|61|62|63|64),longval=[01]\]\.(closure\..*accumulator_holds_stream_bits|closure_completed)"),
    ("C12-P-delta-width-29-64-shift", "C12", r"^delta_read_bitpacked\[w=(29|30|31|32|33|34|35|36|37|38|39|40|41|42|43|44|45|46|47|48|49|50|51|52|53|54|55|56|57|58|59|60|61|62|63|64),longval=[01]\]\.shift_in_range"),
    ("C12-P-mask-for-bits-32-shift", "C12", r"^_mask_for_bits\[i=32\]\.shift_in_range"),
    ("C11-P-numpyio-read-zero", "C11", r"^NumpyIO\.read\.view\[x==0\]"),
    ("C12-P-numpyio-write-wild-memcpy", "C12", r"^NumpyIO\.write\..*memcpy_dest_in_region"),
]


def run_kernels(ctx, want_kind):
    """want_kind: 'functional' (C11) or 'safety' (C12)"""
    pyx = os.path.join(REPO, "fastparquet", "cencoding.pyx")
    cfile = os.path.join(REPO, "fastparquet", "cencoding.c")
    n_anchor, n_bad = front_cy.c_anchor_check(pyx, cfile)
    ctx.note(f".pyx<->.c correspondence: {n_anchor} embedded source-line anchors checked, {n_bad} differ"
             + ("" if n_bad == 0 else " -> NATIVE BUILD STALE: replays and translation validation exercise older code"))
    cy.register(ctx, kernels_run.FUNCS_UNDER_CONTRACT)
    ctx.assumptions += kernels.ASSUMED
    ctx.trusted += ["z3 (QF_BV / LIA / arrays / quantified invariants)", "vc.front_cy (Cython normaliser) + vc.symexec C semantics, "
                    "validated by differential execution against the compiled extension on this run",
                    "gcc: signed overflow wraps, char signed, little endian (x86-64)"]
    # translation validation (engine guard): a mismatch is an engine failure, not a violation
    if n_bad == 0:
        try:
            funcs, n_in, mism = kernel_tv.validate(ctx.seed, 30 if ctx.tier == "quick" else 120)
            ctx.tv = {"functions": len(funcs), "inputs": n_in, "mismatches": len(mism), "which": funcs}
            for mm in mism[:5]:
                ctx.engine_error("translation validation mismatch: " + str(mm)[:400])
        except Exception as ex:
            ctx.engine_error(f"translation validation crashed: {type(ex).__name__}: {ex}")
    results = kernels_run.run_all(ctx.tier)
    known = [(fid, re.compile(rx)) for fid, prop, rx in KNOWN if prop == ctx.prop]
    passing_in_region = {}
    for kind, arg, order, d, kinds, err, secs in results:
        if err:
            ctx.engine_error(f"kernel task {kind} {arg} crashed: {err.splitlines()[-1]}")
            continue
        for name in order:
            if kinds.get(name, "functional") != want_kind and not (want_kind == "functional" and name.endswith("closure_completed")):
                continue
            entries = d[name]
            sts = [e[0] for e in entries]
            st = REFUTED if REFUTED in sts else UNKNOWN if UNKNOWN in sts else PROVED
            model = next((e[1] for e in entries if e[0] == st and e[1]), None)
            detail = next((e[4] for e in entries if e[4]), None)
            be = "+".join(sorted({e[3] for e in entries}))
            t = sum(e[2] for e in entries)
            func = "cencoding." + name.split("[")[0].split(".")[0] if not name.startswith("NumpyIO") else "cencoding.NumpyIO." + name.split(".")[1]
            fid = next((f for f, rx in known if rx.search(name)), None)
            if fid is not None:
                passing_in_region.setdefault(fid, [0, 0])[0 if st == PROVED else 1] += 1
            if st != PROVED and fid is not None and ctx.is_known(fid):
                ctx.obligation(name, func, "refuted-known" if st == REFUTED else st, be, t, detail=detail, model=model, sample=True)
                if st == REFUTED or name.endswith("closure_completed"):
                    ctx.known_finding(fid)
                continue
            ctx.obligation(name, func, st, be, t, detail=detail, model=model if st == REFUTED else None,
                           sample=(st != PROVED or ".values" in name))
            if st == REFUTED:
                confirmed, text, prog = kernel_replay.replay(name, model or {}, REPO)
                ctx.violation(name, {"function": func, "model": model, "solver_output": str(model)[:600], "replay_result": text,
                                     "snippet": (prog + "\nVIOLATED = " + repr(confirmed)) if prog else None}, confirmed, what=text)
    for fid, (n_ok, n_bad_) in passing_in_region.items():
        if n_bad_ == 0 and n_ok > 0:
            ctx.note(f"known finding {fid}: every obligation of its region now passes (defect appears repaired upstream)")
