"""P part shared by C01 / C02 / C17: the column-level bookkeeping between a frame, the schema + pandas metadata written for it and the
handle's metadata-only answers (contracts/c17_makemeta.py).

C02: the writer side - writer.make_metadata executed symbolically (one arbitrary column / partition column, every has_nulls mode, text and
tuple labels), util.norm_col_name, the element construction of writer.find_type, util.check_column_names, and the finite table of
util.get_column_metadata against the pandas metadata specification (executed enumeration).
C06: api._pre_allocate (the lists handed to dataframe.empty are aligned with the column request).  C07: the null scan of _dtypes over all row
groups.  C18: the refusal chain infer_object_encoding -> find_type -> make_metadata -> write happens before the target is touched.
C01, C17: the writer side + the reader (api.ParquetFile.columns / _get_index / _set_attrs / _parse_header / pandas_metadata /
check_categories / _dtypes executed symbolically: column independence, override honoured) + the composition tables (executed: what is written
for dtype D -> footer bytes -> what the handle answers and allocates)."""
import time

from contracts import c17_makemeta as M
from vlib.common import PROVED, REFUTED, UNKNOWN


# property -> (families of contracts/c17_makemeta.check to run, parts of its executed tables); None = all
SELECT = {
    "C01": (None, None), "C02": (None, None), "C17": (None, None),
    "C06": (("pre_allocate", "tables"), ("prealloc", "empty")),                      # column requests in any order: allocation aligned with the request
    "C07": (("dtypes",), ()),                                                # null scan over ALL row groups (appended ones included)
    "C18": (("infer_object_encoding", "find_type", "write", "make_metadata[labels=text,index=list]", "make_metadata[defaults]", "tables"), ("infer", "refuse")),
}


def p_makemeta(ctx):
    for a in M.ASSUMED:
        if a not in ctx.assumptions:
            ctx.assumptions.append(a)
    side = "writer" if ctx.prop == "C02" else "both"
    prop = ctx.prop if ctx.prop in SELECT else "C17"
    families, table_parts = SELECT[prop]
    t0 = time.time()
    out = M.check(ctx, 10000 if ctx.tier == "quick" else 60000, side, families=families, table_parts=table_parts)
    in_region = {}
    n_rep = 0
    for res in out:
        for name in res.order:
            if prop not in M.props_of(name) and not name.endswith(".out_of_reach"):
                continue
            entries = res.d[name]
            st = res.status(name)
            e = next((x for x in entries if x[0] == st), entries[0])
            fn = M.function_of(name)
            secs = sum(x[2] for x in entries)
            be = "+".join(sorted({x[3] for x in entries}))
            fid = M.known_for(prop, name)
            if fid is not None:
                in_region.setdefault(fid, [0, 0])[0 if st == PROVED else 1] += 1
            detail = (e[4] or "") + (f" [{len(entries)} path(s)]" if len(entries) > 1 else "")
            if st == REFUTED and fid and ctx.is_known(fid):
                ctx.obligation(name, fn, "refuted-known", be, secs, detail=detail, model=e[1], sample=True)
                ctx.known_finding(fid)
                continue
            ctx.obligation(name, fn, st, be, secs, detail=detail, model=e[1] if st == REFUTED else None,
                           sample=(st != PROVED or name.startswith(("make_metadata[labels=text,index=list].schema.", "dtypes.column_independence",
                                                                    "metadata.roundtrip_dtype[datetime64[us, Europe/Paris]"))))
            if st == REFUTED:
                # executed table rows ARE native runs; the first two of a run still get the end-to-end replay (write / read of real files)
                cheap = M.is_executed_row(name) and (n_rep >= 2 or name.startswith(("metadata.", "get_column_metadata.", "dtypes.override_is_honoured[")))
                n_rep += 0 if cheap else 1
                confirmed, text = (None, "replay skipped (more than 6 refuted obligations)") if (n_rep > 6 and not cheap) else M.replay(name, e[1], cheap=cheap)
                ctx.violation(name, {"function": fn, "model": e[1], "solver_output": str(e[1])[:600], "replay_result": text,
                                     "snippet": f"contracts.c17_makemeta.replay({name!r})  # runs the real functions; VIOLATED = {confirmed!r}"},
                              bool(confirmed), what=((e[4] or "")[:160] + " | " + str(text)[:240]))
    for fid, (n_ok, n_not) in in_region.items():
        if n_not == 0 and n_ok > 0:
            ctx.note(f"known finding {fid}: every obligation of its region now passes (defect appears repaired upstream)")
    ctx.note(f"makemeta P part ({side}): {time.time() - t0:.1f} s")
