"""C11 - primitive codecs agree with the specification on their whole bounded domain."""
from ._generic import run_property
from ._kernels import run_kernels

EXPLANATION = (
    "P: the native kernels are extracted from cencoding.pyx on every run (mechanical normaliser), executed symbolically with C "
    "integer semantics and checked against specification functions: zigzag maps and their round trips on all 2**64 values; "
    "ULEB128 decode/encode incl. round trip (loops unrolled to 10 with unwinding assertions = complete); width_from_max_int == "
    "bit_length; NumpyIO cursor algebra; read_rle and read_bitpacked1 by inductive loop invariants (all counts, all capacities); "
    "read_bitpacked by control-state closure per width 0..32 x item size: every reachable (left,right) state keeps 'accumulator == "
    "stream bits', every emitted value == bits [w*k, w*k+w), cursors exact, output prefix == spec and frame. Widths 25..32, width "
    "0 / zero groups (cursor) are refuted = known findings (.pyx cannot be rebuilt here). delta_read_bitpacked by the same closure for widths "
    "1..64. The two decoder DRIVERS by step contracts with the kernels as callee contracts (cuts): read_rle_bit_packed_hybrid (length "
    "prefix, loop test, dispatch on the header's low bit, frame, variant) and delta_binary_unpack (header, block header, miniblock "
    "dispatch + rewind, one arbitrary value slot: stored value, running sum, count, return condition, capacity invariant, frame); the "
    "induction from step lemmas to whole streams is argued. The decoder's precondition on (itemsize, output element size, width) is an obligation at each of its call sites in core.py (`hybrid.*[site]`). Encoders / speedups byte arrays: see the obligation table when their "
    "contract modules are present, else bounded layer only; numpy-level boolean packing is numpy (assumed). "
    "The text / bytes rows of writer.convert -> encode_plain (`text.bytes_written_are_utf8_of_cell[...]`, backend `enumeration`) are EXECUTED on "
    "boundary values (NULs, empty, multi-byte UTF-8): complete for the dtype table, bounded in the value dimension - they are not part of the "
    "deductive claim.")


def p_kernels(ctx):
    run_kernels(ctx, "functional")


def p_deflevels(ctx):
    from ._deflevels import p_deflevels as f
    f(ctx)


def p_callsites(ctx):
    # the decoder's precondition (item size 1 or 4 == element size of the output, width <= 8 for one-byte items) at its callers in core.py
    from ._callsites import p_callsites as f
    f(ctx)


def run(ctx):
    from ._generic import optional_parts
    extra = optional_parts(("_hybrid", "p_hybrid"), ("_encoders", "p_encoders"), ("_speedups", "p_speedups"), ("_units", "p_units"), ("_bookkeeping", "p_bookkeeping"))
    return run_property(ctx, "proof", EXPLANATION, p_parts=[p_kernels, p_deflevels, p_callsites] + extra, b_modules=["c11_numpy_paths"])
