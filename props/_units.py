"""P part shared by C01 / C02 / C03: value-level unit and type conversions between pandas dtypes and Parquet physical + logical
types (contracts/c01_units.py): writer.convert / time_shift and converted_types.convert executed symbolically for one arbitrary
array element (all int64 inputs), the cdef kernel cencoding.time_shift by loop invariant, find_type / typemap executed on the
finite dtype / annotation table.

C01 reports the writer side and the round trips, C02 the writer side (annotation validity, written unit, no silent wrap),
C03 the reader side (what converted_types.convert returns means what the annotation says; unsupported annotations give the raw
values; nothing wraps silently).  C11 (ctx.prop == "C11"): only the text / bytes / JSON rows of the writer table - the PLAIN
BYTE_ARRAY bytes encode_plain emits are the spec's bytes for the cells and decode back to them (executed enumeration)."""
import time

from contracts import c01_units as U
from vlib.common import PROVED, REFUTED, UNKNOWN


def _function_of(name):
    if name.startswith("cencoding.time_shift"):
        return "cencoding.time_shift"
    if name.startswith("convert.cast_"):
        return "writer.convert"
    if name.startswith("converts_inplace."):
        return "converted_types.converts_inplace"
    if name.startswith("read_data_page_v2."):
        return "core.read_data_page_v2"
    if name.startswith("text."):
        return "writer.convert"
    if name.startswith("find_type."):
        return "writer.find_type"
    if name.startswith("convert.") or "converted_types.convert" in name:
        return "converted_types.convert"
    if name.startswith("units.roundtrip"):
        return "converted_types.convert"
    return "writer.convert"


def p_units(ctx):
    for a in U.ASSUMED:
        if a not in ctx.assumptions:
            ctx.assumptions.append(a)
    side = {"C01": "both", "C02": "writer", "C03": "reader", "C04": "reader", "C05": "reader", "C11": "text", "C07": "cast", "C09": "cast"}.get(ctx.prop, "both")
    t0 = time.time()
    res = U.check(ctx, 10000 if ctx.tier == "quick" else 60000, side)
    in_region = {}
    M = None
    n_rep = 0
    for name in res.order:
        if ctx.prop not in U.props_of(name):
            continue
        entries = res.d[name]
        st = res.status(name)
        e = next((x for x in entries if x[0] == st), entries[0])
        fn = _function_of(name)
        fid = U.known_for(ctx.prop, name)
        if fid is not None:
            in_region.setdefault(fid, [0, 0])[0 if st == PROVED else 1] += 1
        if st == REFUTED and fid and ctx.is_known(fid):
            ctx.obligation(name, fn, "refuted-known", e[3], e[2], detail=e[4], model=e[1], sample=True)
            ctx.known_finding(fid)
            continue
        ctx.obligation(name, fn, st, e[3], sum(x[2] for x in entries), detail=e[4], model=e[1] if st == REFUTED else None,
                       sample=(st != PROVED or n_rep < 3 and name.startswith(("units.roundtrip[datetime64[s]", "convert.value_means_annotation[INT32,DATE",
                                                                                "find_type.annotation_matches_written_unit[uint32"))))
        if st == REFUTED:
            n_rep += 1
            if M is None:
                try:
                    M = U.Mods(None)
                except Exception:
                    M = None
            confirmed, text = U.replay(name, e[1] or {}, M)
            ctx.violation(name, {"function": fn, "model": e[1], "solver_output": str(e[1])[:600], "replay_result": text,
                                 "snippet": f"contracts.c01_units.replay({name!r}, model)  # runs the real functions on the counter-model\n# VIOLATED = {confirmed!r}"},
                          confirmed, what=((e[4] or "")[:150] + " | native: " + str(text)[:200]))
    for fid, (n_ok, n_not) in in_region.items():
        if n_not == 0 and n_ok > 0:
            ctx.note(f"known finding {fid}: every obligation of its region now passes (defect appears repaired upstream)")
    ctx.note(f"units P part ({side}): {time.time() - t0:.1f} s")
