"""C15 - see properties.jsonl; DESIGN.md section 5."""
from ._generic import run_property

EXPLANATION = 'Mixed. P: cencoding._assemble_objects from the .pyx: the level loop run for ONE ARBITRARY level entry under a coupling invariant between the code state and an abstract Dremel record-assembly state (six spec cases: new row / continued row x first entry of a page / row carried over from the previous page), exit obligations over the whole output array, index safety; schema.max_repetition_level / max_definition_level == number of REPEATED / non-REQUIRED elements on the path, list / map shape predicates; core.read_col and read_data_page_v2 hand the kernel the right levels, dictionary, null flag, max level and row index (row index carried between pages), map key/value zipping; refuted obligations are known findings (.pyx defects recorded, not repairable here); lifting from one level entry to a page and from pages to a chunk is argued. B (labelled bounded), exhaustive within the stated bound: the compiled _assemble_objects driven page by page against spec.assembly.record_assemble, and whole nested files from the independent encoder through to_pandas.'


def p_parts():
    from ._generic import optional_parts
    return optional_parts(("_assembly", "p_assembly"), ("_schematree", "p_schematree"), ("_readoptions", "p_readoptions"), ("_pages", "p_schema_element"))


def run(ctx):
    return run_property(ctx, 'other', EXPLANATION, p_parts=p_parts(), b_modules=['c15_assembly'],
                        assumptions=["pandas / numpy / cramjam behaviour inside every opaque value",
                                     "the oracle (plain pandas / the spec library under /verif/spec) is a faithful reading of the property"],
                        trusted=["bounded layer: enumerated inputs only; nothing outside the stated bound is covered"])
