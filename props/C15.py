"""C15 - see properties.jsonl; DESIGN.md section 5."""
from ._generic import run_property

EXPLANATION = 'Bounded stand-in, exhaustive within the stated bound: the compiled _assemble_objects driven page by page against spec.assembly.record_assemble, and whole nested files from the independent encoder through to_pandas.'


def p_parts():
    from ._generic import optional_parts
    return optional_parts(("_assembly", "p_assembly"))


def run(ctx):
    return run_property(ctx, 'exploration', EXPLANATION, p_parts=p_parts(), b_modules=['c15_assembly'],
                        assumptions=["pandas / numpy / cramjam behaviour inside every opaque value",
                                     "the oracle (plain pandas / the spec library under /verif/spec) is a faithful reading of the property"],
                        trusted=["bounded layer: enumerated inputs only; nothing outside the stated bound is covered"])
