"""C04 - see properties.jsonl; DESIGN.md section 5."""
from ._generic import run_property

EXPLANATION = 'Mixed. P: statistics.null_count written by write_column equals the number of missing cells of the whole column (sum over pages, loop invariant global_num_nulls == N) for data-page v1 and v2, from the real source; api.sorted_partitioned_columns and api.statistics(<ColumnChunk>) from the real source: the entry of a listed column is the statistics of the selected row groups, listed <=> None-free, non-empty, sorted and strictly increasing across ALL row-group pairs, max/min taken from max/max_value resp. min/min_value never crossed, null_count / distinct_count copied; written min/max VALUES are not under contract. B (labelled bounded): min/max/null_count decoded from the raw footer and through ParquetFile.statistics / sorted_partitioned_columns compared with values recomputed from the data under the Parquet ordering.'


def p_parts():
    from ._bookkeeping import p_bookkeeping
    from ._sorted import p_sorted
    from ._generic import optional_parts
    return [p_bookkeeping, p_sorted] + optional_parts(("_options", "p_options"), ("_handles", "p_handles_statistics"), ("_units", "p_units"), ("_statdecode", "p_statdecode"), ("_many", "p_many"))


def run(ctx):
    return run_property(ctx, 'other', EXPLANATION, p_parts=p_parts(), b_modules=['c04_stats'],
                        assumptions=["pandas / numpy / cramjam behaviour inside every opaque value",
                                     "the oracle (plain pandas / the spec library under /verif/spec) is a faithful reading of the property"],
                        trusted=["bounded layer: enumerated inputs only; nothing outside the stated bound is covered"])
