"""C04 - see properties.jsonl; DESIGN.md section 5."""
from ._generic import run_property

EXPLANATION = 'Bounded stand-in: min/max/null_count decoded from the raw footer and through ParquetFile.statistics / sorted_partitioned_columns compared with values recomputed from the data under the Parquet ordering.'


def p_parts():
    return []


def run(ctx):
    return run_property(ctx, 'exploration', EXPLANATION, p_parts=p_parts(), b_modules=['c04_stats'],
                        assumptions=["pandas / numpy / cramjam behaviour inside every opaque value",
                                     "the oracle (plain pandas / the spec library under /verif/spec) is a faithful reading of the property"],
                        trusted=["bounded layer: enumerated inputs only; nothing outside the stated bound is covered"])
