"""P part of C14: util.metadata_from_many (both code paths, structure only) and util._get_fmd (byte-file model)."""
from contracts import c14_many
from vlib.common import PROVED, REFUTED, UNKNOWN


def p_many(ctx):
    ctx.assumptions += [a for a in c14_many.ASSUMED if a not in ctx.assumptions]
    for name, model, detail in c14_many.check(ctx, 10000 if ctx.tier == "quick" else 60000):
        ctx.violation(name, {"function": "util._get_fmd" if name.startswith("get_fmd") else "util.metadata_from_many", "model": model,
                             "solver_output": str(model)[:600], "snippet": None}, False, what=(detail or "")[:220])


def p_many_fetch(ctx):
    """the footer-fetch family of the same contract, exposed to C12 (memory-safety precondition of the native thrift reader: the buffer
    handed to from_buffer holds one complete footer) and C16 (a footer whose size changed must still be fetched completely):
    many.fast_path.piece_covers_footer_and_trailer, many.fast.*, get_fmd.*"""
    ctx.assumptions += [a for a in c14_many.ASSUMED if a not in ctx.assumptions]
    fam = lambda name: name.startswith(c14_many.FETCH_FAMILY)
    for name, model, detail in c14_many.check(ctx, 10000 if ctx.tier == "quick" else 60000, only=fam):
        ctx.violation(name, {"function": "util._get_fmd" if name.startswith("get_fmd") else "util.metadata_from_many", "model": model,
                             "solver_output": str(model)[:600], "snippet": None}, False, what=(detail or "")[:220])
