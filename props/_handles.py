"""P part of C06 (and C17: reported counts vs rows read): file-object ownership / frame of every read entry point of
api.ParquetFile on the I/O effect trace, derived handles (pick / slice / copy / pickle state) sharing open / fn / footer, and
the counts of DERIVED handles - contracts/c06_handles.py, executed symbolically from the real source.

Wire into props/C06.py (and props/C17.py) with
    def p_parts():
        from ._partial import p_partial
        from ._handles import p_handles
        return [p_partial, p_handles]
"""
import re

from contracts import c06_handles
from vlib.common import PROVED, REFUTED, UNKNOWN

# finding id -> regex over obligation names (a REFUTED obligation is `refuted-known` only while the id is listed as known)
# (the stale statistics cache after in-place edits was repaired in /repo 890afcf: `fixed-C04-statistics-cache-stale-after-in-place-edit`
# suppresses nothing, statistics.cache_dropped_when_row_groups_change[*] must be PROVED)
KNOWN = []

FUNCTION = [
    (re.compile(r"\[__init__"), "api.ParquetFile.__init__"),
    (re.compile(r"\[to_pandas"), "api.ParquetFile.to_pandas"),
    (re.compile(r"\[read_row_group_file"), "api.ParquetFile.read_row_group_file"),
    (re.compile(r"\[core\.read_row_group"), "core.read_row_group"),
    (re.compile(r"\[iter_row_groups"), "api.ParquetFile.iter_row_groups"),
    (re.compile(r"\[head"), "api.ParquetFile.head"),
    (re.compile(r"^reads\..*\[count"), "api.ParquetFile.count"),
    (re.compile(r"\[_read_partitions"), "api.ParquetFile._read_partitions"),
    (re.compile(r"^handles\.derived_statistics"), "api.ParquetFile.statistics"),
    (re.compile(r"^statistics\.cache_dropped.*\[(\w+)\]"), "api.ParquetFile (in-place edits)"),
    (re.compile(r"^statistics\."), "api.ParquetFile.statistics"),
    (re.compile(r"^handles\.derived"), "api.ParquetFile.__getitem__"),
    (re.compile(r"^handles\.state_roundtrip"), "api.ParquetFile.__setstate__"),
    (re.compile(r"^count\..*\.info_"), "api.ParquetFile.info"),
    (re.compile(r"^count\..*\.len"), "api.ParquetFile.__len__"),
    (re.compile(r"^count\."), "api.ParquetFile.count"),
]


def _function(name):
    for rx, f in FUNCTION:
        if rx.search(name):
            return f
    return "api.ParquetFile (frame)"


def p_handles_statistics(ctx):
    """C04 selection: the cache behind ParquetFile.statistics - the state a derived handle (pf[i], pf[a:b]) starts from holds no
    row-group dependent cache of the parent, its `statistics` are computed from its own row groups, the cache is only ever set
    from statistics(self), in-place edits drop it.  Wired into props/C04.py through optional_parts(("_handles", "p_handles_statistics"))."""
    return p_handles(ctx, select="C04")


def p_handles(ctx, select=None):
    ctx.assumptions += [a for a in c06_handles.ASSUMED if a not in ctx.assumptions]
    for res in c06_handles.check(ctx, 10000 if ctx.tier == "quick" else 60000, select=select):
        for name in res.order:
            st = res.status(name)
            e = next((x for x in res.d[name] if x[0] == st), res.d[name][0])
            fn = _function(name)
            secs = sum(x[2] for x in res.d[name])
            fid = next((f for f, rx in KNOWN if rx.search(name)), None)
            if st == REFUTED and fid and ctx.is_known(fid):
                ctx.obligation(name, fn, "refuted-known", e[3], secs, detail=e[4], model=e[1], sample=True)
                ctx.known_finding(fid)
                continue
            ctx.obligation(name, fn, st, e[3], secs, detail=e[4], model=e[1] if st == REFUTED else None,
                           sample=(st != PROVED or "not_closed[to_pandas,file-like" in name or "derived_handle_counts" in name or
                                   "derived_statistics" in name))
            if st == REFUTED:
                ctx.violation(name, {"function": fn, "model": e[1], "solver_output": str(e[1])[:600], "snippet": None}, False,
                              what=(e[4] or "")[:200])
