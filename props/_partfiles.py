"""P part of C02 (also selectable for C07 / C09 / C19): part files and summary metadata of a multi-file dataset under contract
(contracts/c02_partfiles.py): writer.make_part_file, writer.write_common_metadata, api.ParquetFile._write_common_metadata, the part loop and
closing section of writer.write_multi, api.ParquetFile.write_row_groups and the hive/drill dispatch of writer.write.  ctx.prop selects the
runs and the obligations that carry the property."""
import re

from contracts import c02_partfiles as M
from vlib.common import PROVED, REFUTED, UNKNOWN

PARTS = {
    "C02": M.PARTS,
    "C07": ("multi", "poc", "effects", "wrg", "write"),
    "C09": ("wcm", "pfwcm", "multi", "poc", "effects", "wrg"),
    "C19": ("multi", "poc", "effects", "wrg", "write"),
    "C18": ("multi", "effects", "write"),
}
_C07 = re.compile(r"^write_multi\[append=True.*\]\.(loop\.|closing\.|part\.|partition\.|no_attr_of_None|row_group_appended|out_of_reach)|"
                  r"^write_row_groups|^write\.dispatch\.(append_goes|scheme_and_append|append_requires|append_flag)")
_C09 = re.compile(r"part\.name_opened_is_numbered_past|fmd_restored|opens_fn_wb|^_write_common_metadata|^write_multi\[.*\]\.closing\.|^write_row_groups|"
                  r"^write_common_metadata\[.*\]\.(file_is_magic|footer\.(row_groups_are_all|has_no_row_groups|num_rows))|out_of_reach")
_C19 = re.compile(r"part\.name_opened_is_numbered_past|^write_multi\[append=True.*\]\.closing\.(metadata_then|summary_gets)|^write_row_groups(\[multi\]\.(steps_in_order|appends_through)"
                  r"|\.handle_refreshed)|^write\.dispatch\.(append_goes|append_requires|append_flag)|out_of_reach")
_RM = re.compile(r"^effects\.\w+\[ParquetFile\.(remove_row_groups|_sort_part_names)")     # the removal side: C09 only
_POC_EFF = re.compile(r"^partition_on_columns\[|^effects\.")
SELECT = {
    "C02": lambda n: _RM.search(n) is None,
    "C07": lambda n: _C07.search(n) is not None or (_POC_EFF.search(n) is not None and _RM.search(n) is None),
    "C09": lambda n: (_C09.search(n) is not None and "raises_only_before" not in n) or _POC_EFF.search(n) is not None,
    "C19": lambda n: _C19.search(n) is not None or (_POC_EFF.search(n) is not None and _RM.search(n) is None),
    "C18": lambda n: re.search(r"^write\.dispatch\.(append_requires|append_flag)|part\.name_opened_is_numbered_past|out_of_reach", n) is not None
    or (n.startswith("effects.") and _RM.search(n) is None),   # a failed append is reported, nothing touched
}
# known findings: (id, regex over the obligation names it covers).  Each region is exact: make_part_file's `[any frame]` obligation is
# refuted only for len(data) == 0 (its `[frame with rows]` sibling is PROVED), the fmd=None run has no other refutation.  The write_multi
# side of the empty-frame finding was repaired in /repo (f7aae56, records fixed-C02-empty-frame-zero-byte-part-file and
# fixed-C07-empty-frame-append-crashes): write_multi[..].part.file_opened_is_written_as_a_part_file[any frame] / no_attr_of_None[rg.columns]
# must be PROVED.  The
# truncation finding was repaired in /repo (4f80931, record fixed-C02-summary-truncated-before-validation): `fixed` records suppress
# nothing, write_common_metadata[..].raises_only_before_the_file_is_opened[key or value not text] must be PROVED.
KNOWN = {
    "C09": [(M.FID_RMSWALLOW, re.compile(r"^effects\.io_errors_propagate\[ParquetFile\.remove_row_groups: remove_with\(\)\]$"))],
    "C02": [
        (M.FID_EMPTY, re.compile(r"^make_part_file\[.*\]\.file_is_a_complete_parquet_file\[any frame\]$")),
        (M.FID_NOFMD, re.compile(r"^make_part_file\[fmd=None\]\.(footer_serialisation_does_not_raise|write_thrift\.no_iteration_over_None\[obj\.key_value_metadata\])$")),
    ],
}
FUNC = [("make_part_file", "writer.make_part_file"), ("write_common_metadata", "writer.write_common_metadata"),
        ("_write_common_metadata", "api.ParquetFile._write_common_metadata"), ("write_multi", "writer.write_multi"),
        ("write_row_groups", "api.ParquetFile.write_row_groups"), ("write.", "writer.write"), ("partition_on_columns", "writer.partition_on_columns"),
        ("effects.", "writer / api write path"), ("thrift_object_model", "cencoding.ThriftObject")]


def p_partfiles(ctx):
    if ctx.prop in ("C02", "C07"):          # the option-plumbing call-site obligations ride along where this part is wired
        from ._options import p_options
        p_options(ctx)
    prop = ctx.prop if ctx.prop in PARTS else "C02"
    ctx.assumptions += [a for a in M.ASSUMED if a not in ctx.assumptions]
    sel = SELECT[prop]
    for res in M.check(ctx, 10000 if ctx.tier == "quick" else 60000, parts=PARTS[prop]):
        for name in res.order:
            if not sel(name):
                continue
            st = res.status(name)
            e = next((x for x in res.d[name] if x[0] == st), res.d[name][0])
            fn = next((f for pre, f in FUNC if name.startswith(pre)), "?")
            secs = sum(x[2] for x in res.d[name])
            fid = next((f for f, rx in KNOWN.get(prop, []) if rx.search(name)), None)
            detail = f"{e[4] or ''} [{len(res.d[name])} path(s)]"
            if st == REFUTED and fid and ctx.is_known(fid):
                ctx.obligation(name, fn, "refuted-known", e[3], secs, detail=detail, model=e[1], sample=True)
                ctx.known_finding(fid)
                continue
            ctx.obligation(name, fn, st, e[3], secs, detail=detail, model=e[1] if st == REFUTED else None,
                           sample=(st != PROVED or ".footer." in name or "closing." in name))
            if st == REFUTED:
                ctx.violation(name, {"function": fn, "model": e[1], "solver_output": str(e[1])[:600], "snippet": None}, False,
                              what=(e[4] or "")[:200])
