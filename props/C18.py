"""C18 - see properties.jsonl; DESIGN.md section 5."""
from ._generic import run_property

EXPLANATION = 'Bounded stand-in: every kind of rejection x position x existing dataset state: raises and leaves the dataset as it was.'


def p_parts():
    return []


def run(ctx):
    return run_property(ctx, 'exploration', EXPLANATION, p_parts=p_parts(), b_modules=['c18_rejections'],
                        assumptions=["pandas / numpy / cramjam behaviour inside every opaque value",
                                     "the oracle (plain pandas / the spec library under /verif/spec) is a faithful reading of the property"],
                        trusted=["bounded layer: enumerated inputs only; nothing outside the stated bound is covered"])
