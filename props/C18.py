"""C18 - see properties.jsonl; DESIGN.md section 5."""
from ._generic import run_property

EXPLANATION = 'Mixed. P: writer.write_simple.write_to_file is executed symbolically from its real source on the byte-file model (make_row_group by contract: writes only at/after the current position): exceptional postcondition `a failed append leaves the file as it was` - REFUTED whenever a byte was written (known finding: the old footer is the first thing overwritten). B (labelled bounded): every kind of rejection x position x existing dataset state: raises and leaves the dataset as it was.'


def p_parts():
    from ._append import p_append
    from ._validate import p_validate
    from ._generic import optional_parts
    return [p_append, p_validate] + optional_parts(("_parts", "p_parts"), ("_partfiles", "p_partfiles"), ("_makemeta", "p_makemeta"), ("_pathconv", "p_part_id"))


def run(ctx):
    return run_property(ctx, 'other', EXPLANATION, p_parts=p_parts(), b_modules=['c18_rejections'],
                        assumptions=["pandas / numpy / cramjam behaviour inside every opaque value",
                                     "the oracle (plain pandas / the spec library under /verif/spec) is a faithful reading of the property"],
                        trusted=["bounded layer: enumerated inputs only; nothing outside the stated bound is covered"])
