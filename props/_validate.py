"""P part of C18: validate-before-effect of writer.write and api.ParquetFile.write_row_groups (contracts/c18_validate.py)."""
from contracts import c18_validate
from vc.symexec import Unsupported
from vlib.common import REFUTED, UNKNOWN

FUNCTION = {"write.": "writer.write", "write_row_groups.": "api.ParquetFile.write_row_groups"}


def p_validate(ctx):
    ctx.assumptions += [a for a in c18_validate.ASSUMED if a not in ctx.assumptions]
    try:
        results = c18_validate.check(ctx, 10000 if ctx.tier == "quick" else 60000)
    except Unsupported as ex:
        ctx.obligation("write.out_of_reach", "writer.write", UNKNOWN, "engine", 0.0, detail=str(ex), sample=True)
        return
    for res in results:
        for name in res.order:
            fn = next((f for pre, f in FUNCTION.items() if name.startswith(pre)), "writer.write")
            st = res.status(name)
            e = next((x for x in res.d[name] if x[0] == st), res.d[name][0])
            ctx.obligation(name, fn, st, e[3], sum(x[2] for x in res.d[name]), detail=e[4],
                           model=e[1] if st in (REFUTED, UNKNOWN) else None, sample=True)
            if st == REFUTED:
                ctx.violation(name, {"function": fn, "model": e[1], "solver_output": str(e[1])[:600], "snippet": None}, False,
                              what=((e[4] or "") + " | " + str(e[1]))[:300])
