"""P part of C03: page bookkeeping of the reader (contracts/c03_pages.py) - core.read_col page loop, read_data_page (+ read_def /
read_rep / read_data / _read_page), read_data_page_v2, read_dictionary_page executed symbolically from the real source; native
decoders / numpy / codecs as callee contracts (c03_pages.ASSUMED).  Wired by props/C03.py (optional_parts)."""
import re

from contracts import c03_pages
from vlib.common import PROVED, REFUTED, UNKNOWN

# finding id -> obligations it covers (a REFUTED obligation is `refuted-known` only while the id is listed as known).  The companion
# obligation `<name>[outside the regions of the recorded findings]` is never matched here: refuted there = VIOLATION.
# (repaired in /repo, `fixed` records suppress nothing: read_data_page.levels.declared_encoding_is_the_one_decoded f1984b1,
#  read_data_page.values.rle_boolean.runs_start_after_length_prefix c8ef5ea, read_data_page.values.dictionary.width_byte_consumed efe7e45)
KNOWN = [
    ("C03-P-dictionary-page-encoding-ignored", re.compile(r"^read_dictionary_page\.non_plain_dictionary_page_raises$")),
    ("C03-P-v2-delta-nulls", re.compile(r"^read_data_page_v2\.supported_page_is_not_refused@assert-L\d+$")),
    ("C03-P-v2-empty-values-section", re.compile(r"^(read_data_page_v2\.page_consumed_exactly|"
                                                 r"read_col\[\w+\]\.page_loop\.invariant_preserved\[cursor is at the start of page k[^\]]*\])$")),
    ("C03-P-v2-delta-64bit-output", re.compile(r"^read_data_page_v2\.values\.delta\.output_width_matches_type$")),
    ("C03-P-v2-nullable-levels-into-whole-mask", re.compile(r"^read_data_page_v2\.supported_page_is_not_refused@L\d+:IndexError$")),
    ("C03-P-v2-scratch-array-with-nulls", re.compile(r"^read_data_page_v2\.(supported_page_is_not_refused@L\d+:ValueError|"
                                                     r"values\.hybrid_output_holds_non_null_values|rows\.defined_positions_get_values_in_order|"
                                                     r"rows\.null_positions_get_null)$")),
    ("C03-P-v2-categorical-first-run-header-dropped", re.compile(r"^read_data_page_v2\.values\.dictionary\.width_byte_consumed_then_runs$")),
    # (v1 pages: repaired in /repo af3a4f3 = fixed-C03-categorical-read-of-fallback-chunk; read_col[categorical].* are plain obligations)
    # (v2 pages: repaired c3e23bf = fixed-C03-v2-categorical-read-of-plain-page: call-site precondition of read_data_page_v2)
    ("C03-P-chunk-shorter-than-row-group-not-refused", re.compile(r"^read_col\[\w+\]\.exit\.every_output_row_written$")),
]


def function_of(name):
    head = name.split(".")[0].split("[")[0]
    return "core." + head


def p_pages(ctx):
    ctx.assumptions += [a for a in c03_pages.ASSUMED if a not in ctx.assumptions]
    for res in c03_pages.check(ctx, 10000 if ctx.tier == "quick" else 60000):
        for name in res.order:
            st = res.status(name)
            e = next((x for x in res.d[name] if x[0] == st), res.d[name][0])
            fn = function_of(name)
            secs = sum(x[2] for x in res.d[name])
            detail = f"{e[4] or ''} [{len(res.d[name])} path(s)]"
            fid = next((f for f, rx in KNOWN if rx.search(name)), None)
            if st == REFUTED and fid and ctx.is_known(fid):
                ctx.obligation(name, fn, "refuted-known", e[3], secs, detail=detail, model=e[1], sample=True)
                ctx.known_finding(fid)
                continue
            ctx.obligation(name, fn, st, e[3], secs, detail=detail, model=e[1] if st == REFUTED else None,
                           sample=(st != PROVED or ".page_loop." in name or ".exit." in name or ".rows." in name))
            if st == REFUTED:
                ctx.violation(name, {"function": fn, "model": e[1], "solver_output": str(e[1])[:600], "snippet": None}, False,
                              what=(e[4] or "")[:200])


# ---- the labels of a categorical column (shared by C06 / C14 / C17; C03 gets them through p_pages) -------------------------------------
_LABELS = re.compile(r"categorical_labels_are_this_chunks_dictionary|dictionary_page\.(categories_installed_from_it|labels_fit_the_code_dtype|"
                     r"converted_once_and_kept)|invariant_(on_entry|preserved)\[categories are the chunk's dictionary|out_of_reach")


def p_catlabels(ctx):
    """read_col[categorical] only, and of it the obligations that say which labels the output categorical ends up with: partial and full
    reads (C06), many-file reads (C14) and metadata-only answers (C17) all rely on `labels == the dictionary of the chunk just read, for
    any prior state of the shared category definition`.  All of them are PROVED on the unchanged tree (no finding is mapped here).
    Wiring: optional_parts(("_pages", "p_catlabels")) in props/C06.py, props/C14.py, props/C17.py."""
    ctx.assumptions += [a for a in c03_pages.ASSUMED if a not in ctx.assumptions]
    for res in c03_pages.check(ctx, 10000 if ctx.tier == "quick" else 60000, parts=("read_col_cat",)):
        for name in res.order:
            if not _LABELS.search(name):
                continue
            st = res.status(name)
            e = next((x for x in res.d[name] if x[0] == st), res.d[name][0])
            secs = sum(x[2] for x in res.d[name])
            ctx.obligation(name, "core.read_col", st, e[3], secs, detail=f"{e[4] or ''} [{len(res.d[name])} path(s)]",
                           model=e[1] if st == REFUTED else None, sample=True)
            if st == REFUTED:
                ctx.violation(name, {"function": "core.read_col", "model": e[1], "solver_output": str(e[1])[:600], "snippet": None}, False,
                              what=(e[4] or "")[:200])


# ---- which schema element a column is decoded with (C15 / C01; C03 gets it through p_pages) --------------------------------------------
_SE = re.compile(r"schema_element_is_the_one_at_the_chunks_path|schema_query_is_about_this_column|callsite\.page_cursor_header_metadata|out_of_reach")


def _report(ctx, res, keep, why=""):
    for name in res.order:
        if not keep(name):
            continue
        st = res.status(name)
        e = next((x for x in res.d[name] if x[0] == st), res.d[name][0])
        fn = function_of(name)
        ctx.obligation(name, fn, st, e[3], sum(x[2] for x in res.d[name]), detail=f"{e[4] or ''}{why} [{len(res.d[name])} path(s)]",
                       model=e[1] if st == REFUTED else None, sample=True)
        if st == REFUTED:
            ctx.violation(name, {"function": fn, "model": e[1], "solver_output": str(e[1])[:600], "snippet": None}, False,
                          what=((e[4] or "") + why)[:260])


def p_schema_element(ctx):
    """the element used for width / converted type / encoding decisions is the element AT path_in_schema (nested columns share leaf
    names: LIST `element`, MAP `key` / `value`).  All PROVED on the unchanged tree.
    Wiring: optional_parts(("_pages", "p_schema_element")) in props/C15.py and props/C01.py."""
    ctx.assumptions += [a for a in c03_pages.ASSUMED if a not in ctx.assumptions]
    for res in c03_pages.check(ctx, 10000 if ctx.tier == "quick" else 60000, parts=("dictionary_page", "data_page_v1", "read_col_values")):
        _report(ctx, res, lambda n: _SE.search(n) is not None)


# ---- memory-safety PRECONDITIONS of the native decoders established by core.py (C12) ---------------------------------------------------
_NATIVE = re.compile(
    r"^(read_data_page_v2\.(values\.(start_at_sum_of_level_lengths|length_is_compressed_size_minus_levels|count_is_num_values_minus_num_nulls|"
    r"uncompressed_size_is_page_size_minus_levels|decompressed_iff_is_compressed_with_chunk_codec|plain\.decodes_value_section_as_physical_type|"
    r"rle_boolean\.length_prefix_skipped|delta\.starts_at_value_section)|levels\.def_(read_from_uncompressed_prefix|width_is_width_from_max_level|"
    r"output_holds_num_values_entries|decoded_iff_page_has_nulls))|"
    r"read_data_page\.(page_bytes\.|values\.(start_after_levels|count_is_num_values_minus_num_nulls|returned_length_is_num_values_minus_num_nulls|"
    r"plain\.|dictionary\.|rle_boolean\.|delta\.)|levels\.(width_is_width_from_max_level|count_is_num_values|blocks_decoded_are_the_blocks_present)|"
    r"rep_levels\.|def_levels\.)|"
    r"read_dictionary_page\.(page_bytes\.|count_is_header_num_values|decodes_whole_page_as_plain)|.*out_of_reach)")
_WHY_C12 = (" | C12: this is a memory-safety PRECONDITION of a native decoder - unpack_byte_array / read_plain / the hybrid and delta decoders "
            "trust the start, byte length and value count they are handed (known finding C12-P-unpack-byte-array-declared-length-unchecked: "
            "a declared string length is not checked against the buffer), so a misplaced start or a wrong count is an out-of-bounds read")


def p_pages_native_preconditions(ctx):
    """where the value section starts, how many bytes / values go to unpack_byte_array / read_plain / the hybrid / delta decoders, which
    level bytes are decoded with which width and capacity - for v1 pages, v2 pages and dictionary pages.  Only the obligations that are
    PROVED on the unchanged tree are selected (the ones refuted inside open C03-P-* findings stay reported under C03).
    Wiring: optional_parts(("_pages", "p_pages_native_preconditions")) in props/C12.py."""
    ctx.assumptions += [a for a in c03_pages.ASSUMED if a not in ctx.assumptions]
    for res in c03_pages.check(ctx, 10000 if ctx.tier == "quick" else 60000, parts=("dictionary_page", "data_page_v1", "data_page_v2")):
        _report(ctx, res, lambda n: _NATIVE.search(n) is not None, _WHY_C12)
