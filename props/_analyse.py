"""P part shared by C14 / C08: util.analyse_paths - base path = longest common directory prefix, relative paths keep every differing level;
ParquetFile.__init__ - which root reaches metadata_from_many; ParquetFile.basepath / row_group_filename on the fn shapes __init__ produces."""
from contracts import c14_paths
from vlib.common import PROVED, REFUTED, UNKNOWN


def replay_native(model):
    """run the REAL analyse_paths on the counter-model's component lists and judge by the property. -> (confirmed, text)"""
    if not model or not any(k.startswith("path") and isinstance(v, list) for k, v in model.items()):
        return False, "no concrete paths in the counter-model"
    from runtime.harness import import_fastparquet
    import_fastparquet()
    from fastparquet import util
    comps = [model[k] for k in sorted(model) if k.startswith("path") and isinstance(model[k], list) and k != "path_q"]
    if not comps or any(not c for c in comps):
        return False, "counter-model paths are not concrete"
    paths = ["/".join(f"c{x}" for x in c) for c in comps]
    root = "/".join(f"c{x}" for x in model["root"]) if model.get("root") else False
    try:
        base, out = util.analyse_paths(paths, root=root)
    except AssertionError as ex:
        bad = all(p.split("/")[:len(root.split("/"))] == root.split("/") for p in paths) if root else True
        return bad, f"real function raised AssertionError for paths {paths}, root {root!r}"
    except Exception as ex:
        return True, f"real function raised {type(ex).__name__}: {ex} for paths {paths}"
    parts = [p.split("/") for p in paths]
    if root:
        l = len(root.split("/"))
        bad = base != root or any(p[:l] != root.split("/") for p in parts)
    else:
        l = 0
        while all(len(p) - 1 > l for p in parts) and all(p[l] == parts[0][l] for p in parts):
            l += 1
        bad = base != "/".join(parts[0][:l])
    bad = bad or out != ["/".join(p[l:]) for p in parts] or any((base + "/" + o if base else o) != p for o, p in zip(out, paths))
    return bad, f"analyse_paths({paths}, root={root!r}) -> ({base!r}, {out}); longest common directory prefix has {l} levels"


def p_analyse(ctx):
    ctx.assumptions += [a for a in c14_paths.ASSUMED if a not in ctx.assumptions]
    for name, model, detail in c14_paths.check(ctx, 10000 if ctx.tier == "quick" else 60000):
        if name.startswith("ParquetFile."):
            # __init__: provenance of the `root` argument in a symbolic run (no input to replay); basepath / row_group_filename: the
            # expressions of the CURRENT source were executed on the fn shape in the model - that execution is the native confirmation
            executed = not name.startswith("ParquetFile.__init__")
            ctx.violation(name, {"function": "api." + ".".join(name.split(".")[:2]), "model": model, "snippet": None,
                                 "replay_result": "executed on the current source" if executed else "symbolic run of __init__"}, executed,
                          what=((detail or "")[:200] + " | " + str(model)[:160]))
            continue
        try:
            confirmed, text = replay_native(model)
        except Exception as ex:
            confirmed, text = False, f"replay failed: {type(ex).__name__}: {ex}"
        ctx.violation(name, {"function": "util.analyse_paths", "model": model, "replay_result": text,
                             "snippet": "from props._analyse import replay_native; print(replay_native(%r))" % (model,)}, confirmed,
                      what=((detail or "")[:120] + " | " + text)[:300])
