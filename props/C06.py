"""C06 - see properties.jsonl; DESIGN.md section 5."""
from ._generic import run_property

EXPLANATION = 'Mixed. P (discharged for every number of row groups and every row count, from the real source of api.py): to_pandas slices tile the pre-allocated output in row-group order in all five read modes, head takes a sufficient prefix, __getitem__ copies the footer and leaves the parent untouched, count/len/info use the handle-own row groups, RangeIndex regeneration has exactly size labels. B (labelled bounded): metamorphic contracts partial read vs full read on one handle (column subsets, row-group slices/picks, iter_row_groups, head(n) for every n, index choices, file-like, pickle/copy, compositions) and reported counts vs rows read.'


def p_parts():
    from ._partial import p_partial
    from ._handles import p_handles
    from ._generic import optional_parts
    return [p_partial, p_handles] + optional_parts(("_readoptions", "p_readoptions"), ("_pages", "p_catlabels"), ("_makemeta", "p_makemeta"), ("_pathconv", "p_read_partitions"), ("_header", "p_header"))


def run(ctx):
    return run_property(ctx, 'other', EXPLANATION, p_parts=p_parts(), b_modules=['c06_partial'],
                        assumptions=["pandas / numpy / cramjam behaviour inside every opaque value",
                                     "the oracle (plain pandas / the spec library under /verif/spec) is a faithful reading of the property"],
                        trusted=["bounded layer: enumerated inputs only; nothing outside the stated bound is covered"])
