"""C06 - see properties.jsonl; DESIGN.md section 5."""
from ._generic import run_property

EXPLANATION = 'Bounded stand-in: metamorphic contracts partial read vs full read on one handle (column subsets, row-group slices/picks, iter_row_groups, head(n) for every n, index choices, file-like, pickle/copy, compositions) and reported counts vs rows read.'


def p_parts():
    return []


def run(ctx):
    return run_property(ctx, 'exploration', EXPLANATION, p_parts=p_parts(), b_modules=['c06_partial'],
                        assumptions=["pandas / numpy / cramjam behaviour inside every opaque value",
                                     "the oracle (plain pandas / the spec library under /verif/spec) is a faithful reading of the property"],
                        trusted=["bounded layer: enumerated inputs only; nothing outside the stated bound is covered"])
