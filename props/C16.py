"""C16 - user key-value metadata is kept verbatim; in-place updates touch nothing else."""
import os

from contracts import c16_update as C
from contracts.filemodel import FILE_ASSUMED
from vc.front_py import parse_module

SNIPPET = '''import os, sys, tempfile, shutil, pandas as pd, fastparquet
from fastparquet.writer import update_file_custom_metadata
sys.path.insert(0, "/verif")
from spec import thrift_idl
d = tempfile.mkdtemp()
META = {meta}
try:
    # footer shrinks by {shrink} byte(s): value of key 'k' goes from {a} to {b} characters
    df = pd.DataFrame({{"x": [1, 2, 3]}})
    if META:
        fastparquet.write(d, df, file_scheme="hive", custom_metadata={{"k": "v" * {a}}})
        fn, target = os.path.join(d, "_metadata"), d
    else:
        fn = target = os.path.join(d, "t.parquet")
        fastparquet.write(fn, df, custom_metadata={{"k": "v" * {a}}})
    before = fastparquet.ParquetFile(target).to_pandas()
    raw0 = open(fn, "rb").read()
    loc = 4 if META else len(raw0) - 8 - int.from_bytes(raw0[-8:-4], "little")
    try:
        update_file_custom_metadata(fn, {{"k": "v" * {b}}})
        pf = fastparquet.ParquetFile(target)
        raw = open(fn, "rb").read()
        n = int.from_bytes(raw[-8:-4], "little")
        # the contract, evaluated natively: prefix untouched; the footer region is exactly ONE FileMetaData
        _, used = thrift_idl.dec(thrift_idl.load(), "FileMetaData", raw[loc:-8], strict=False)
        print("footer start", loc, "file length", len(raw), "length field", n, "bytes of one FileMetaData", used)
        VIOLATED = not (raw[:loc] == raw0[:loc] and raw[-4:] == b"PAR1" and n == used == len(raw) - 8 - loc
                        and pf.key_value_metadata["k"] == "v" * {b} and pf.to_pandas().equals(before))
    except Exception as e:
        print("update failed or file unreadable afterwards:", type(e).__name__, e)
        VIOLATED = True
finally:
    shutil.rmtree(d, ignore_errors=True)
print("VIOLATED", VIOLATED)
'''


def replay_native(model):
    """footer length delta of the counter-model -> a real file whose footer changes by that delta"""
    old, new = model.get("old_footer_len", 0), model.get("new_footer_len", 0)
    shrink = old - new
    if shrink <= 0:
        a, b = 3, 3 + min(-shrink, 200)
    else:
        a, b = min(shrink, 200) + 2, 2
    src = SNIPPET.format(a=a, b=b, shrink=a - b, meta=bool(model.get("is_metadata_file")))
    g = {}
    try:
        exec(src, g)
    except Exception as e:
        return False, src, f"replay crashed: {type(e).__name__}: {e}"
    return bool(g.get("VIOLATED")), src, f"footer value length {a} -> {b} ({'_metadata' if model.get('is_metadata_file') else 'data'} file): VIOLATED={g.get('VIOLATED')}"


def run(ctx):
    funcs, tree, src = parse_module("fastparquet/writer.py")
    timeout = 15000 if ctx.tier == "quick" else 60000
    for fn in ("update_file_custom_metadata", "write_thrift"):
        ctx.function("writer." + fn, funcs[fn].sha, funcs[fn].report)
    ctx.assumptions += FILE_ASSUMED + [
        "from_buffer parses a FileMetaData from a byte string that starts with one (trailing bytes ignored)",
        "update_custom_metadata(fmd, d) mutates only fmd (bounded layer checks the merge rules)",
        "ThriftObject.to_bytes returns the serialisation F' (C10); its length is arbitrary in [0, 2**32)"]
    ctx.trusted += ["z3 sequence theory", "vc.symexec", "assumed file-object contracts (contracts/filemodel.py)"]
    from runtime.harness import import_fastparquet
    def guarded():
        from vc.symexec import Unsupported
        try:
            yield from C.check(ctx, funcs, timeout)
        except Unsupported as ex:       # out of reach for this run: undecided, the bounded layer decides
            ctx.obligation("update_file_custom_metadata.out_of_reach", "writer.update_file_custom_metadata", "unknown", "engine", 0.0,
                           detail=str(ex), sample=True)
    for name, model in guarded():
        model = model or {}
        if "new_footer_len" in model:
            import_fastparquet()
            confirmed, snippet, text = replay_native(model)
        else:
            confirmed, snippet, text = False, None, "no concrete input"
        ctx.violation(name, {"function": "writer.update_file_custom_metadata", "model": model, "replay_result": text,
                             "snippet": snippet}, confirmed, what=text)
    from ._merge import p_merge
    from vc.symexec import Unsupported as _Unsup
    try:
        p_merge(ctx)
    except _Unsup as ex:
        ctx.obligation("update_custom_metadata.out_of_reach", "util.update_custom_metadata", "unknown", "engine", 0.0, detail=str(ex), sample=True)
    # families of other contracts that carry C16: consolidate_categories (runs on every open of a list / directory and on every _metadata
    # write) is total on arbitrary user keys and leaves their entries alone; a footer whose size changed is still fetched completely
    from ._generic import optional_parts
    for part in optional_parts(("_cats", "p_cats_keys"), ("_many", "p_many_fetch"), ("_header", "p_header")):
        try:
            part(ctx)
        except _Unsup as ex:
            ctx.obligation(part.__name__ + ".out_of_reach", "?", "unknown", "engine", 0.0, detail=str(ex), sample=True)
        except Exception as ex:      # the proof script failed on this source: undecided, never a violation
            ctx.obligation(part.__name__ + ".out_of_reach", "?", "unknown", "engine", 0.0, detail=f"{type(ex).__name__}: {ex}", sample=True)
    if not os.environ.get("VERIF_SKIP_BOUNDED"):
        try:
            from runtime import c16_update_history
        except ImportError:
            c16_update_history = None
            ctx.note("bounded check c16_update_history not available")
        if c16_update_history is not None:
            c16_update_history.run_bounded(ctx)
    import os as _os
    if ctx.tier == "thorough" and not _os.environ.get("VERIF_REPO") and not _os.environ.get("VERIF_NO_CANARIES"):
        from ._generic import run_canaries
        run_canaries(ctx)
    return ctx.finish(
        "proof",
        "update_file_custom_metadata is executed symbolically from its real source (writer.write_thrift inlined) on a "
        "byte-sequence file model; for every old/new footer length (grow, equal, shrink by any amount), data file or "
        "metadata file, z3 discharges: data bytes before the footer unchanged; the whole file equals prefix ++ new "
        "footer ++ le32(len) ++ PAR1 with nothing after it; the length field matches; a rejected key/value raises before "
        "any write. The merge rules of update_custom_metadata and the verbatim round trip of custom_metadata are checked "
        "by the bounded update-history contract (labelled bounded).")
