"""P part of C12: the precondition of cencoding.write_thrift (exact Python value types; its final `else` is an unchecked <dict> cast)
discharged at every thrift constructor / attribute-assignment site of the .py files by a value-kind analysis (contracts/c12_thriftvals.py)."""
import re

from contracts import c12_thriftvals
from vlib.common import PROVED, REFUTED, UNKNOWN

KNOWN = [("C12-P-write-thrift-unchecked-dict-cast", re.compile(r"^write_thrift\.else_branch_checks_type_before_dict_cast$"))]


def p_thriftvals(ctx):
    for a in c12_thriftvals.ASSUMED + c12_thriftvals.TEXT_ASSUMED:
        if a not in ctx.assumptions:
            ctx.assumptions.append(a)
    for res in (c12_thriftvals.check(ctx), c12_thriftvals.check_text(ctx)):
        _record(ctx, res)


def _record(ctx, res):
    for name in res.order:
        st = res.status(name)
        e = next((x for x in res.d[name] if x[0] == st), res.d[name][0])
        fn = "cencoding.write_thrift" if name.startswith("write_thrift.") else "thrift value sites (.py)"
        fid = next((f for f, rx in KNOWN if rx.search(name)), None)
        if st == REFUTED and fid and ctx.is_known(fid):
            ctx.obligation(name, fn, "refuted-known", e[3], 0.0, detail=e[4], model=e[1], sample=True)
            ctx.known_finding(fid)
            continue
        ctx.obligation(name, fn, st, e[3], 0.0, detail=e[4], model=e[1] if st == REFUTED else None,
                       sample=(st != PROVED or "write_column" in name))
        if st == REFUTED:
            ctx.violation(name, {"function": fn, "model": e[1], "solver_output": "value-kind analysis: " + str(e[1])[:600], "snippet": None}, False,
                          what=(e[4] or "")[:220])
