"""P part shared by C03 / C15 (reader side), C02 (writer side + codec tables) and C01 (codec round trips + buffer ownership): the schema as a pre-order list with child counts -
schema.schema_tree / SchemaHelper.__init__ / flatten / schema_element under contract, writer.make_metadata emits a well-formed list,
compression.py tables against the CompressionCodec enum (contracts/c03_schematree.py)."""
import re

from contracts import c03_schematree as M
from vlib.common import PROVED, REFUTED, UNKNOWN

# families per property
SELECT = {"C03": ("tree", "init", "flatten", "element", "callsites", "native", "codec"),
          "C15": ("tree", "init", "flatten", "element", "callsites", "native"),
          "C02": ("meta", "nativemeta", "codec"),
          "C01": ("codec",)}
# of the codec family, C03 (the reader) takes the number -> decompressor direction and the round trips
C03_CODEC = re.compile(r"^codec\.(roundtrip|roundtrip_table|rev_map|read_page|unknown_number|idl_enum|tables\.decompress_into|enumeration_seconds"
                       r"|decompress_data\.|module_state_not_mutated|compress_data\.|ownership)")
# C01 (round trip under every codec): the round trips, the number <-> name table and the ownership of the buffers
C01_CODEC = re.compile(r"^codec\.(roundtrip|roundtrip_table|decompress_data\.|module_state_not_mutated|compress_data\.|ownership|enumeration_seconds)")

# obligation (regex) -> finding id suffix; the id is <prop>-P-<suffix> (one record per property in contracts/findings.jsonl)
KNOWN = [("schema-leftover-elements-accepted", re.compile(r"^schema_tree\.ill_formed_list_is_refused\[(native: )?leftover elements after the root's subtree\]$")),
         ("flatten-repeated-group-leaves-omitted", re.compile(r"^flatten\.children_of_a_repeated_group_are_offered_or_refused\[(nested group|native)\]$")),
         ("flatten-struct-leaves-after-flat-columns", re.compile(r"^flatten\.leaf_order_is_schema_order\[schemas with plain groups\]$")),
         ("schema-element-str-splits-dotted-name", re.compile(r"^schema_element\.str_name_resolves_every_column\[names containing '\.'\]$")),
         ("flatten-dotted-key-collision", re.compile(r"^flatten\.dotted_key_identifies_one_element\[names containing '\.'\]$"))]


def p_schematree(ctx):
    fams = SELECT.get(ctx.prop)
    if not fams:
        return
    for a in M.ASSUMED:
        if a not in ctx.assumptions:
            ctx.assumptions.append(a)
    try:
        M.register(ctx, fams)
    except Exception as ex:
        ctx.note(f"schematree: function registration failed ({type(ex).__name__}: {ex})")
    timeout = 10000 if ctx.tier == "quick" else 60000
    for fam, res in M.run_families(",".join(fams), timeout):
        fn = M.FUNCTION_OF.get(fam, "schema")
        for name in res.order:
            if ctx.prop == "C03" and fam == "codec" and not C03_CODEC.search(name):
                continue
            if ctx.prop == "C01" and fam == "codec" and not C01_CODEC.search(name):
                continue
            st = res.status(name)
            entries = res.d[name]
            e = next((x for x in entries if x[0] == st), entries[0])
            secs = sum(x[2] for x in entries)
            if name.endswith("out_of_reach"):
                ctx.obligation(name, fn, UNKNOWN, "engine", 0.0, detail=e[4], sample=True)
                continue
            suffix = next((sfx for sfx, rx in KNOWN if rx.search(name)), None)
            fid = f"{ctx.prop}-P-{suffix}" if suffix else None
            if st == REFUTED and fid and ctx.is_known(fid):
                ctx.obligation(name, fn, "refuted-known", e[3], secs, detail=(e[4] or "") + f" [the obligation IS the region of {fid}]", model=e[1], sample=True)
                ctx.known_finding(fid)
                continue
            ctx.obligation(name, fn, st, e[3], secs, detail=e[4], model=e[1] if st in (REFUTED, UNKNOWN) else None,
                           sample=(st != PROVED or name in ("schema_tree.consumes_exactly_its_subtree", "root.whole_list_consumed",
                                                            "make_metadata.schema_is_wellformed_preorder", "codec.rev_map.matches_idl")))
            if st == REFUTED:
                ctx.violation(name, {"function": fn, "model": e[1], "solver_output": str(e[1])[:600],
                                     "snippet": "tools/schematree_native.py replays the schema / codec cases natively"}, e[3] in ("enumeration", "ast"),
                              what=((e[4] or "") + " | " + str(e[1]))[:300])
