"""P part shared by C11 (functional obligations), C12 (safety obligations) and C01 (round-trip lemmas only): the ENCODER side of
cencoding.pyx - encode_bitpacked (closure per width), encode_rle_bp, write_bitpacked1, encode_unsigned_varint's byte-level contract - and
the Python call site writer.encode_dict; contracts/c11_encoders.py."""
import re

from contracts import c11_encoders as E
from contracts import cy
from vlib.common import REPO, PROVED, REFUTED, UNKNOWN

W2532 = "(25|26|27|28|29|30|31|32)"
# known findings of this part: (finding id, property, regex on obligation names = the exact region)
KNOWN = [
    ("C11-P-encode_bitpacked-width-25-32", "C11", r"^encode_bitpacked\[w=" + W2532 + r"\]\.closure\.state\(bit=\d\)->\(bit=\d\)\.pending_bits_are_spec$"),
    ("C11-P-encode_bitpacked-last-group-not-padded", "C11", r"^encode_bitpacked\[w=([1-9]|[12]\d|3[012])\]\.cursor_is_whole_groups\[partial last group\]$"),
    ("C11-P-encode_dict-last-group-not-padded", "C11", r"^encode_dict\.run_is_whole_groups\[partial last group\]$"),
    ("C11-P-write_bitpacked1-msb-first", "C11", r"^write_bitpacked1\.(\[lsb\]loop0\.invariant_preserved|values_lsb_first\[count>=2\])$"),
    ("C11-P-write_bitpacked1-input-cursor", "C11", r"^write_bitpacked1\.input_cursor\[count>=1\]$"),
    ("C12-P-write_bitpacked1-input-cursor-leaves-buffer", "C12", r"^write_bitpacked1\.input_cursor_stays_in_buffer\[count>=1\]$"),
]
MAX_REPLAYS = 8
KNOWN.append(("C11-P-dict-index-int64-codes-width-64", "C11", r"^dict_index\.pair_roundtrip\[codes:int64( if [^\]]*)?\]$"))
ROUNDTRIP = re.compile(r"^(bitpacked\.roundtrip\[|hybrid\.header_roundtrip|dict_index\.roundtrip\[|bitpacked1\.roundtrip)")


def _function_of(name):
    if name.startswith("encode_dict"):
        return "writer.encode_dict"
    if name.startswith("make_definitions"):
        return "writer.make_definitions"
    if ROUNDTRIP.search(name):
        return "cencoding.encode_bitpacked" if name.startswith(("bitpacked.", "hybrid.")) else \
            "writer.encode_dict" if name.startswith("dict_index") else "cencoding.write_bitpacked1"
    return "cencoding." + name.split("[")[0].split(".")[0]


def p_encoders(ctx):
    want = "safety" if ctx.prop == "C12" else "functional"
    only_roundtrip = ctx.prop not in ("C11", "C12")
    cy.register(ctx, E.FUNCS_UNDER_CONTRACT)
    try:
        from vc.front_py import parse_module
        wf, _, _ = parse_module("fastparquet/writer.py")
        ctx.function("writer.encode_dict", wf["encode_dict"].sha, wf["encode_dict"].report)
        ctx.function("writer.make_definitions", wf["make_definitions"].sha, wf["make_definitions"].report)
    except Exception:
        pass
    for a in E.ASSUMED:
        if a not in ctx.assumptions:
            ctx.assumptions.append(a)
    results = E.run_all(ctx.tier, only={"rt", "rt_misc"} if only_roundtrip else None)
    known = [(fid, re.compile(rx)) for fid, prop, rx in KNOWN if prop == ctx.prop]
    in_region = {}
    n_replayed = [0]
    for label, order, d, kinds, err, secs in results:
        if err:
            # the proof script failed on the current source: undecided, never a violation
            ctx.obligation(f"encoders.{label}.out_of_reach", "cencoding.encode_bitpacked", UNKNOWN, "engine", 0.0, detail=err, sample=True)
            continue
        for name in order:
            k = kinds.get(name, "functional")
            if only_roundtrip:
                if not ROUNDTRIP.search(name):
                    continue
            elif k != want and not (want == "functional" and name.endswith((".closure_completed", ".out_of_reach"))):
                continue
            entries = d[name]
            sts = [e[0] for e in entries]
            st = REFUTED if REFUTED in sts else UNKNOWN if UNKNOWN in sts else PROVED
            e = next((x for x in entries if x[0] == st), entries[0])
            model, detail = e[1], next((x[4] for x in entries if x[4]), None)
            be = "+".join(sorted({x[3] for x in entries}))
            t = sum(x[2] for x in entries)
            func = _function_of(name)
            fid = next((f for f, rx in known if rx.search(name)), None)
            if fid is not None:
                in_region.setdefault(fid, [0, 0])[0 if st == PROVED else 1] += 1
            if st == REFUTED and fid is not None and ctx.is_known(fid):
                ctx.obligation(name, func, "refuted-known", be, t, detail=detail, model=model, sample=True)
                ctx.known_finding(fid)
                continue
            ctx.obligation(name, func, st, be, t, detail=detail, model=model if st == REFUTED else None,
                           sample=(st != PROVED or "payload_bits_are_spec" in name or "roundtrip" in name))
            if st == REFUTED:
                n_replayed[0] += 1
                if n_replayed[0] <= MAX_REPLAYS:
                    confirmed, text, prog = E.replay(name, model or {}, REPO)
                else:
                    confirmed, text, prog = False, f"native replay skipped (more than {MAX_REPLAYS} refuted obligations in this run)", None
                ctx.violation(name, {"function": func, "model": model, "solver_output": str(model)[:600], "replay_result": text,
                                     "snippet": (prog + "\nVIOLATED = " + repr(confirmed)) if prog else None}, confirmed,
                              what=((detail or "") + " | native: " + text)[:400])
    if ctx.prop == "C11":
        _pairs(ctx, known, in_region)
    for fid, (n_ok, n_bad) in in_region.items():
        if n_bad == 0 and n_ok > 0:
            ctx.note(f"known finding {fid}: every obligation of its region now passes (defect appears repaired upstream)")


def _pairs(ctx, known, in_region):
    """codec PAIRS and codec PURITY (contracts/c11_codecpairs.py): encode_dict <-> the reader's dictionary-index branch on the element types the
    call site in write_column can produce; every function of encoding.py is a function of its arguments only"""
    from contracts import c11_codecpairs as P
    from vc.front_py import parse_module
    for rel, names, mod in (("fastparquet/writer.py", ["write_column"], "writer"), ("fastparquet/core.py", ["read_data_page"], "core"),
                            ("fastparquet/encoding.py", None, "encoding")):
        try:
            fs, _, _ = parse_module(rel)
            for q, f in fs.items():
                if names is None and "." not in q or names and q in names:
                    ctx.function(f"{mod}.{q}", f.sha, f.report)
        except Exception:
            pass
    for a in P.ASSUMED:
        if a not in ctx.assumptions:
            ctx.assumptions.append(a)
    for part, fn in (("dict_index", P.dict_index_pair), ("decoder_purity", P.decoder_purity)):
        try:
            res = fn(10000 if ctx.tier == "quick" else 60000)
        except Exception as ex:            # the analysis failed on the current source: undecided, never a violation
            ctx.obligation(f"{part}.out_of_reach", "writer.write_column" if part == "dict_index" else "encoding.read_plain", UNKNOWN, "engine", 0.0,
                           detail=f"{type(ex).__name__}: {ex}", sample=True)
            continue
        for name in res.order:
            entries = res.d[name]
            sts = [e[0] for e in entries]
            st = REFUTED if REFUTED in sts else UNKNOWN if UNKNOWN in sts else PROVED
            e = next((x for x in entries if x[0] == st), entries[0])
            m = re.match(r"decoder_purity\[(\w+)\]", name)
            func = ("encoding." + m.group(1)) if m else "encoding.read_plain" if part == "decoder_purity" else \
                "core.read_data_page" if "reader_branches" in name else "writer.write_column"
            fid = next((f for f, rx in known if rx.search(name)), None)
            if fid is not None:
                in_region.setdefault(fid, [0, 0])[0 if st == PROVED else 1] += 1
            if st == REFUTED and fid is not None and ctx.is_known(fid):
                ctx.obligation(name, func, "refuted-known", e[3], e[2], detail=e[4], model=e[1], sample=True)
                ctx.known_finding(fid)
                continue
            ctx.obligation(name, func, st, e[3], e[2], detail=e[4], model=e[1] if st != PROVED else None, sample=True)
            if st == REFUTED:
                confirmed, text, prog = P.replay_dict_index(name, e[1] or {}, REPO) if part == "dict_index" else \
                    (False, "structural obligation on the source text (no input to replay)", None)
                ctx.violation(name, {"function": func, "model": e[1], "solver_output": str(e[1])[:600], "replay_result": text,
                                     "snippet": (prog + "\nVIOLATED = " + repr(confirmed)) if prog else None}, confirmed,
                              what=((e[4] or "") + " | " + str(e[1])[:200] + " | native: " + text)[:500])
