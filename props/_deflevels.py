"""P part shared by C11 / C02: definition-level framing of a no-null page (Python writer + native varint encoder, one run)."""
from contracts import c11_deflevels
from vlib.common import PROVED, REFUTED, UNKNOWN


def p_deflevels(ctx):
    res = c11_deflevels.check(ctx, 10000 if ctx.tier == "quick" else 60000)
    for name in res.order:
        if ctx.prop == "C12" and "capacity" not in name and "store_in_region" not in name and "in_region" not in name:
            continue            # C12 reports the memory side only: the scratch buffer holds everything written into it
        st = res.status(name)
        e = next((x for x in res.d[name] if x[0] == st), res.d[name][0])
        ctx.obligation(name, "writer.make_definitions + cencoding.encode_unsigned_varint", st, e[3], sum(x[2] for x in res.d[name]),
                       detail=e[4], model=e[1] if st == REFUTED else None, sample=True)
        if st == REFUTED:
            ctx.violation(name, {"function": "writer.make_definitions", "model": e[1], "solver_output": str(e[1])[:600], "snippet": None},
                          False, what=(e[4] or "")[:200])
