"""P part of C06: partial-read bookkeeping of api.ParquetFile (to_pandas offsets, head, __getitem__, count/len/info,
RangeIndex regeneration) executed symbolically from the real source - contracts/c06_partial.py.

Wire into props/C06.py with
    def p_parts():
        from ._partial import p_partial
        return [p_partial]
"""
import re

from contracts import c06_partial
from vlib.common import PROVED, REFUTED, UNKNOWN

# finding id -> obligations it covers (a REFUTED obligation is `refuted-known` only while the id is listed as known);
# both C06 defects found while designing this contract are repaired in /repo (55c3123 head on empty, 2086035 RangeIndex)
KNOWN = []

FUNCTION = [
    (re.compile(r"^to_pandas"), "api.ParquetFile.to_pandas"),
    (re.compile(r"^head"), "api.ParquetFile.head"),
    (re.compile(r"^(getitem|__getitem__)"), "api.ParquetFile.__getitem__"),
    (re.compile(r"^__setstate__"), "api.ParquetFile.__setstate__"),
    (re.compile(r"^(set_attrs|_set_attrs)"), "api.ParquetFile._set_attrs"),
    (re.compile(r"^count"), "api.ParquetFile.count"),
    (re.compile(r"^(len|__len__)"), "api.ParquetFile.__len__"),
    (re.compile(r"^info"), "api.ParquetFile.info"),
    (re.compile(r"^(rangeindex|pre_allocate)"), "api.ParquetFile.pre_allocate"),
]


def _function(name):
    for rx, f in FUNCTION:
        if rx.search(name):
            return f
    return "api.ParquetFile (lemmas / frame)"


def p_partial(ctx):
    ctx.assumptions += [a for a in c06_partial.ASSUMED if a not in ctx.assumptions]
    for res in c06_partial.check(ctx, 10000 if ctx.tier == "quick" else 60000):
        for name in res.order:
            st = res.status(name)
            e = next((x for x in res.d[name] if x[0] == st), res.d[name][0])
            fn = _function(name)
            secs = sum(x[2] for x in res.d[name])
            fid = next((f for f, rx in KNOWN if rx.search(name)), None)
            if st == REFUTED and fid and ctx.is_known(fid):
                ctx.obligation(name, fn, "refuted-known", e[3], secs, detail=e[4], model=e[1], sample=True)
                ctx.known_finding(fid)
                continue
            ctx.obligation(name, fn, st, e[3], secs, detail=e[4], model=e[1] if st == REFUTED else None,
                           sample=(st != PROVED or ".size" in name or "prefix_sufficient" in name))
            if st == REFUTED:
                ctx.violation(name, {"function": fn, "model": e[1], "solver_output": str(e[1])[:600], "snippet": None}, False,
                              what=(e[4] or "")[:200])
