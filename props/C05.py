"""C05 - filtered reads never lose a qualifying row (row-group pruning is sound)."""
import importlib

from contracts import c05_filters as C
from vc.front_py import parse_module
from vlib.common import REFUTED


def replay_native(name, model):
    """Run the REAL function on the counter-model and judge by the contract. -> (confirmed, text)"""
    from runtime.harness import import_fastparquet
    import_fastparquet()
    from fastparquet import api
    cv = model.get("chunk_value")
    vmin, vmax = model.get("vmin"), model.get("vmax")
    inb = cv is not None and (vmin is None or vmin <= cv) and (vmax is None or cv <= vmax)
    try:
        if name.startswith("filter_in"):
            r = api.filter_in(model["values"], vmin, vmax)
            bad = bool(r) and inb and cv in model["values"]
        elif name.startswith("filter_not_in"):
            r = api.filter_not_in(model["values"], vmin, vmax)
            bad = bool(r) and inb and cv not in model["values"]
        elif name.startswith("filter_val"):
            op, val = model["op"], model["val"]
            r = api.filter_val(op, val, vmin, vmax)
            sat = {"==": cv == val, "=": cv == val, "!=": cv != val, "<": cv < val, "<=": cv <= val,
                   ">": cv > val, ">=": cv >= val}.get(op, True) if not isinstance(val, list) else \
                ((cv in val) if op == "in" else (cv not in val))
            bad = bool(r) and inb and sat
        else:
            return False, "no native replay for " + name
    except Exception as e:   # the side obligations (None comparisons) replay as exceptions
        return True, f"real function raised {type(e).__name__}: {e}"
    return bad, f"real function returned {r!r}; chunk value {cv} within bounds={inb}"


SNIPPET = """import fastparquet.api as api
model = {model!r}
name = {name!r}
# the chunk holds `chunk_value` (within [vmin, vmax]); the pruning function must not return True if that value satisfies the condition
from props.C05 import replay_native
VIOLATED, text = replay_native(name, model)
print(text)
"""


def _guard(ctx, check, funcs, timeout):
    """a function the engine cannot lower is OUT OF REACH for this run: undecided, never a violation"""
    from vc.symexec import Unsupported
    try:
        yield from check(ctx, funcs, timeout)
    except Unsupported as ex:
        ctx.obligation(check.__name__ + ".out_of_reach", "api." + check.__name__.replace("check_", ""), "unknown", "engine",
                       0.0, detail=str(ex), sample=True)


def run(ctx):
    funcs, tree, src = parse_module("fastparquet/api.py")
    timeout = 10000 if ctx.tier == "quick" else 60000
    for fn in ("filter_val", "filter_in", "filter_not_in", "_handle_np_array", "filter_out_stats", "filter_row_groups",
               "filter_out_cats"):
        if fn in funcs:
            ctx.function("api." + fn, funcs[fn].sha, funcs[fn].report)
    ctx.assumptions += C.ASSUMED
    ctx.trusted += ["z3 4.x/5.x (Python API)", "vc.symexec (own VC generator; differential + must-fail guards)",
                    "assumed library contracts: sorted, np.searchsorted"]
    for check in (C.check_filter_val, C.check_filter_in, C.check_filter_not_in, C.check_filter_out_stats,
                  C.check_filter_out_cats, C.check_filter_row_groups):
        for name, model in _guard(ctx, check, funcs, timeout):
            model = model or {}
            confirmed, text = replay_native(name, model) if "chunk_value" in model or "op" in model else (False, "no concrete input: opaque objects")
            ctx.violation(name, {"function": name.split(".")[0], "model": model, "replay_result": text,
                                 "snippet": SNIPPET.format(model=model, name=name)}, confirmed, what=text)
    # the contracts above ASSUME that stored min/max are true bounds of the chunk; the writer-side obligation that establishes it
    # for fastparquet's own files (statistics are the PLAIN encoding of the column's real extremes, unmodified) is posed here too
    try:
        from ._bookkeeping import p_bookkeeping
        p_bookkeeping(ctx)
    except Exception as ex:          # out of reach for this run: undecided, never a violation
        ctx.obligation("p_bookkeeping.out_of_reach", "writer.write_column", "unknown", "engine", 0.0, detail=f"{type(ex).__name__}: {ex}", sample=True)
    # ... and that the DECODE step of the statistics chain gives values of the annotated meaning (converted_types.convert on min / max:
    # an unsigned bound decoded as signed flips the comparison)
    try:
        from ._statdecode import p_statdecode
        p_statdecode(ctx)
    except Exception as ex:          # out of reach for this run: undecided, never a violation
        ctx.obligation("p_statdecode.out_of_reach", "encoding.read_plain", "unknown", "engine", 0.0, detail=f"{type(ex).__name__}: {ex}", sample=True)
    try:
        from ._units import p_units
        p_units(ctx)
    except Exception as ex:          # out of reach for this run: undecided, never a violation
        ctx.obligation("p_units.out_of_reach", "converted_types.convert", "unknown", "engine", 0.0, detail=f"{type(ex).__name__}: {ex}", sample=True)
    try:                             # filter_out_cats reads the partition values with util.ex_from_sep's pattern: it must agree with the split convention
        from ._pathconv import p_hive_convention
        p_hive_convention(ctx)
    except Exception as ex:          # out of reach for this run: undecided, never a violation
        ctx.obligation("p_hive_convention.out_of_reach", "util.ex_from_sep", "unknown", "engine", 0.0, detail=f"{type(ex).__name__}: {ex}", sample=True)
    try:
        from runtime import c05_superset
    except ImportError:
        c05_superset = None
        ctx.note("bounded secondary check c05_superset not available")
    import os
    if c05_superset is not None and not os.environ.get("VERIF_SKIP_BOUNDED"):
        c05_superset.run_bounded(ctx)
    import os as _os
    if ctx.tier == "thorough" and not _os.environ.get("VERIF_REPO") and not _os.environ.get("VERIF_NO_CANARIES"):
        from ._generic import run_canaries
        run_canaries(ctx)
    return ctx.finish(
        "proof",
        "Pruning soundness decided by contracts on the real source of api.py: every returning path of filter_val (per "
        "operator), filter_in, filter_not_in, every `return True` of filter_out_stats / filter_out_cats and the OR/AND "
        "combination of filter_row_groups is discharged by z3 for all bounds, constants and value lists, given that "
        "statistics are bounds (C04). Side obligations: no comparison with None, indices in range. The secondary "
        "superset contract on to_pandas(filters=...) is bounded and labelled so.")
