"""P parts for the conventions the path helpers share (contracts/c14_paths.py, executed tables + one symbolic run):
p_hive_convention  util.ex_from_sep's pattern vs the split convention on hive paths (C05 C08 C13 C14)
p_path_parsing     the same + the paths_to_cats / read_row_group families of contracts/c08_paths.py (C14)
p_read_partitions  api.ParquetFile._read_partitions: cats == paths_to_cats of the CURRENT row groups (C06 C07 C08 C17)
p_part_id          api.PART_ID: the number is that of the file name (C07 C09 C18 C19)"""
from contracts import c14_paths


def _report(ctx, refuted):
    for name, model, detail, function in refuted:
        ctx.violation(name, {"function": function, "model": model, "snippet": None, "replay_result": "executed on the current source"},
                      ("executed" in name) or name.startswith(("hive_path", "part_id")), what=((detail or "")[:180] + " | " + str(model)[:200]))


def p_hive_convention(ctx):
    _report(ctx, c14_paths.check_conventions(ctx, {"hive"}))


def p_read_partitions(ctx):
    _report(ctx, c14_paths.check_conventions(ctx, {"read_partitions"}))


def p_part_id(ctx):
    _report(ctx, c14_paths.check_conventions(ctx, {"part_id"}))


def p_paths_to_cats_executed(ctx):
    _report(ctx, c14_paths.check_conventions(ctx, {"paths_to_cats"}))


def p_path_parsing(ctx):
    from ._paths import p_paths
    p_hive_convention(ctx)
    p_paths_to_cats_executed(ctx)
    # the scenarios that are PROVED on the unchanged tree (the refuted-known ones are C08 findings and stay with C08)
    p_paths(ctx, families=("paths_to_cats[hive dataset, metadata]", "paths_to_cats[hive dataset, no metadata]", "paths_to_cats[drill dataset, no metadata]",
                           "strip_path_tail", "read_row_group[hive]", "read_row_group[drill, no metadata]"))
