"""P part shared by C03 / C11 / C12: callers of the native hybrid decoder checked against the callee's contract."""
import re

from contracts import c03_callsites
from vlib.common import PROVED, REFUTED, UNKNOWN

KNOWN = {
    "C03": [("C03-P-v2-level-length-is-count", re.compile(r"^hybrid\.length_is_bytes\[read_data_page_v2:")),
            ("C03-P-v2-itemsize-is-bit-width", re.compile(r"^hybrid\.itemsize_in_1_4\[read_data_page_v2:"))],
    "C12": [("C12-P-v2-itemsize-is-bit-width", re.compile(r"^hybrid\.itemsize_in_1_4\[read_data_page_v2:"))],
    "C11": [("C11-P-v2-itemsize-is-bit-width", re.compile(r"^hybrid\.itemsize_in_1_4\[read_data_page_v2:"))],
}


def p_callsites(ctx):
    res = c03_callsites.check(ctx, 10000 if ctx.tier == "quick" else 60000)
    for name in res.order:
        if ctx.prop in ("C11", "C12") and "length_is_bytes" in name:
            continue
        st = res.status(name)
        e = next((x for x in res.d[name] if x[0] == st), res.d[name][0])
        fid = next((f for f, rx in KNOWN.get(ctx.prop, []) if rx.search(name)), None)
        if st == REFUTED and fid and ctx.is_known(fid):
            ctx.obligation(name, "core (decoder call sites)", "refuted-known", e[3], e[2], detail=e[4], model=e[1], sample=True)
            ctx.known_finding(fid)
            continue
        ctx.obligation(name, "core (decoder call sites)", st, e[3], sum(x[2] for x in res.d[name]), detail=e[4],
                       model=e[1] if st == REFUTED else None, sample=True)
        if st == REFUTED:
            ctx.violation(name, {"function": "core." + name.split("[")[-1].split(":")[0], "model": e[1], "solver_output": str(e[1])[:600],
                                 "snippet": None}, False, what=(e[4] or "")[:200])
