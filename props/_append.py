"""P part shared by C07 / C18 / C02: writer.write_simple.write_to_file on the byte-file model."""
import re

from contracts import c07_append
from vlib.common import PROVED, REFUTED, UNKNOWN

SELECT = {
    "C07": lambda n: ("[append]" in n or n.startswith("append.") or n == "write_simple.open_mode") and "on_raise" not in n,
    "C18": lambda n: "on_raise" in n,
    "C02": lambda n: "[fresh]" in n or n == "write_simple.open_mode",
}
KNOWN = {"C18": [("C18-P-append-raise-overwrites-footer", re.compile(r"write_to_file\[append\]\.on_raise_file_unchanged"))]}


def p_append(ctx):
    ctx.assumptions += [a for a in c07_append.ASSUMED if a not in ctx.assumptions]
    for res in c07_append.check(ctx, 10000 if ctx.tier == "quick" else 60000):
        for name in res.order:
            if not SELECT[ctx.prop](name):
                continue
            st = res.status(name)
            e = next((x for x in res.d[name] if x[0] == st), res.d[name][0])
            fid = next((f for f, rx in KNOWN.get(ctx.prop, []) if rx.search(name)), None)
            if st == REFUTED and fid and ctx.is_known(fid):
                ctx.obligation(name, "writer.write_simple.write_to_file", "refuted-known", e[3], e[2], detail=e[4], model=e[1], sample=True)
                ctx.known_finding(fid)
                continue
            ctx.obligation(name, "writer.write_simple.write_to_file", st, e[3], sum(x[2] for x in res.d[name]), detail=e[4],
                           model=e[1] if st == REFUTED else None, sample=True)
            if st == REFUTED:
                ctx.violation(name, {"function": "writer.write_simple.write_to_file", "model": e[1], "solver_output": str(e[1])[:600],
                                     "snippet": None}, False, what=(e[4] or "")[:200])
