"""P part of C08: write-side path construction and read-side path parsing under contract (contracts/c08_paths.py):
util.join_path, writer.partition_on_columns (+ util.path_string), util.val_from_meta / val_to_num / _val_to_num,
api._strip_path_tail / paths_to_cats / _path_to_cats, core.read_row_group (partition block), util.get_file_scheme, util.analyse_paths."""
from contracts import c08_paths
from vlib.common import PROVED, REFUTED, UNKNOWN

FUNC = [("join_path", "util.join_path"), ("partition_on_columns", "writer.partition_on_columns"), ("path_string", "util.path_string"),
        ("val_from_meta", "util.val_from_meta"), ("val_to_num", "util.val_to_num"), ("_val_to_num", "util._val_to_num"),
        ("roundtrip", "util.val_from_meta"), ("strip_path_tail", "api._strip_path_tail"), ("paths_to_cats", "api.paths_to_cats"),
        ("_path_to_cats", "api._path_to_cats"), ("read_row_group", "core.read_row_group"), ("get_file_scheme", "util.get_file_scheme"),
        ("analyse_paths", "util.analyse_paths"), ("ParquetFile.partition_meta", "api.ParquetFile.partition_meta"), ("ParquetFile", "api.ParquetFile"),
        ("make_metadata", "writer.make_metadata"), ("write.", "writer.write")]


def p_paths(ctx, families=None):
    ctx.assumptions += [a for a in c08_paths.ASSUMED if a not in ctx.assumptions]
    for res in c08_paths.check(ctx, 10000 if ctx.tier == "quick" else 60000, families):
        for name in res.order:
            st = res.status(name)
            e = next((x for x in res.d[name] if x[0] == st), res.d[name][0])
            fn = next((f for pre, f in FUNC if name.startswith(pre)), "?")
            secs = sum(x[2] for x in res.d[name])
            # obligations refuted on the unchanged tree inside the region of a recorded finding: each has a sibling obligation that is
            # PROVED under the complementary precondition (that is what makes the region exact)
            fids = next((f for f, rx in c08_paths.KNOWN if rx.search(name)), ())
            fid = next((f for f in fids if ctx.is_known(f)), None)
            if st == REFUTED and fid:
                ctx.obligation(name, fn, "refuted-known", e[3], secs, detail=e[4], model=e[1], sample=True)
                ctx.known_finding(fid)
                continue
            ctx.obligation(name, fn, st, e[3], secs, detail=e[4], model=e[1] if st == REFUTED else None, sample=st != PROVED)
            if st == REFUTED:
                ctx.violation(name, {"function": fn, "model": e[1], "solver_output": str(e[1])[:600], "snippet": None}, False,
                              what=(e[4] or "")[:200])


def p_paths_c08(ctx):
    """C08: every family of c08_paths + the conventions shared with the other readers of a path (contracts/c14_paths.py)"""
    from ._pathconv import p_hive_convention, p_read_partitions, p_paths_to_cats_executed
    p_paths(ctx)
    p_hive_convention(ctx)
    p_paths_to_cats_executed(ctx)
    p_read_partitions(ctx)
