"""P part shared by C11 / C12 / C03: the decoder drivers read_rle_bit_packed_hybrid and delta_binary_unpack (contracts/c11_hybrid.py)."""
import concurrent.futures as cf
import multiprocessing as mp

from contracts import c11_hybrid, cy
from vlib.common import PROVED, REFUTED, UNKNOWN


def _task(t):
    kind, a, b, timeout = t
    try:
        res = c11_hybrid.hybrid(a, b, timeout) if kind == "hybrid" else c11_hybrid.delta_unpack(a, b, timeout)
        return (kind, a, b, res.order, res.d, res.kind, None)
    except Exception as ex:
        import traceback
        return (kind, a, b, [], {}, {}, f"{type(ex).__name__}: {ex} | " + traceback.format_exc().splitlines()[-3].strip())


def p_hybrid(ctx):
    cy.register(ctx, ["read_rle_bit_packed_hybrid", "delta_binary_unpack", "NumpyIO.read_int", "NumpyIO.read", "NumpyIO.read_long",
                      "NumpyIO.write_long", "NumpyIO.write_int"])
    for a in c11_hybrid.ASSUMED:
        if a not in ctx.assumptions:
            ctx.assumptions.append(a)
    timeout = 30000 if ctx.tier == "quick" else 120000
    tasks = [("hybrid", a, b, timeout) for a, b in c11_hybrid.HYBRID_TASKS] + [("delta", a, b, timeout) for a, b in c11_hybrid.DELTA_TASKS]
    with cf.ProcessPoolExecutor(max_workers=8, mp_context=mp.get_context("fork")) as ex:
        results = list(ex.map(_task, tasks))
    want = "safety" if ctx.prop == "C12" else "functional"
    for kind, a, b, order, d, kinds, err in results:
        fn = "cencoding.read_rle_bit_packed_hybrid" if kind == "hybrid" else "cencoding.delta_binary_unpack"
        if err:
            ctx.obligation(f"{kind}[{a}][{b}].out_of_reach", fn, "unknown", "engine", 0.0, detail=err, sample=True)
            continue
        for name in order:
            if kinds.get(name, "functional") != want:
                continue
            if ctx.prop == "C03" and not (name.startswith("hybrid.dispatch") or name.startswith("hybrid.length_prefix") or name.startswith("delta.")):
                continue
            entries = d[name]
            sts = [e[0] for e in entries]
            st = REFUTED if REFUTED in sts else UNKNOWN if UNKNOWN in sts else PROVED
            e = next((x for x in entries if x[0] == st), entries[0])
            ctx.obligation(name, fn, st, e[3], sum(x[2] for x in entries), detail=e[4], model=e[1] if st == REFUTED else None, sample=True)
            if st == REFUTED:
                ctx.violation(name, {"function": fn, "model": e[1], "solver_output": str(e[1])[:600], "snippet": None}, False, what=(e[4] or "")[:200])
