"""P part shared by C06 / C03 / C13 / C14 / C15 / C17: option plumbing along the READ chain (contracts/c06_readoptions.py): at every call site
from ParquetFile.__init__ / to_pandas / iter_row_groups / head / count down to core.read_col, the page readers and the assembly kernel the
callee receives the caller's own option or the value its contract needs (EXPECT table), decided from the ast of the real source.
ctx.prop selects:  C06 the api.py chain;  C03 the core.py chain (without the kernel site);  C13 the `row_filter` / `filters` arguments;
C15 the encoding._assemble_objects sites;  C17 _dtypes / pre_allocate / _pre_allocate / dataframe.empty;  C14 __init__ -> metadata_from_many."""
import re

from contracts import c06_readoptions as M
from vlib.common import PROVED, REFUTED, UNKNOWN

_API = re.compile(r"^readoptions\.(ParquetFile\.|_pre_allocate->|sorted_partitioned_columns->|filter_row_groups->)")
SELECT = {
    "C06": lambda n: _API.search(n) is not None and "_not_rebound" not in n or n.startswith("readoptions.ParquetFile.") and "_not_rebound" in n
    or "selfmade_is_created_by" in n,
    "C03": lambda n: (_API.search(n) is None or "_not_rebound" in n and not n.startswith("readoptions.ParquetFile.")) and "->_assemble_objects" not in n,
    "C13": lambda n: re.search(r"passes\[(row_filter|filters)\]$|^readoptions\.(read_col|read_data_page|read_data_page_v2|read_row_group|read_row_group_arrays)\.\w+_not_rebound$", n) is not None,
    "C15": lambda n: "->_assemble_objects" in n,
    "C17": lambda n: re.search(r"^readoptions\.(ParquetFile\._dtypes->|ParquetFile\.pre_allocate->|_pre_allocate->)|->pre_allocate\.", n) is not None,
    "C14": lambda n: "__init__->metadata_from_many" in n,
    # C12: own files never reach the > 24-bit path of read_bitpacked because `selfmade` arrives untouched at the page readers
    "C12": lambda n: re.search(r"passes\[selfmade\]$|\.selfmade_not_rebound$|selfmade_is_created_by_fastparquet$", n) is not None,
}
# the v2 kernel site passes null=True, null_val=False: recorded finding of C15 (contracts/c15_assembly.py derives the same symbolically)
KNOWN = {"C15": [(M.FID_V2NULL, re.compile(r"^readoptions\.read_data_page_v2->_assemble_objects\.passes\[(null|null_val)\]$"))]}


def function_of(name):
    caller = name[len("readoptions."):].split("->")[0]
    return ("api." if _API.search(name) else "core.") + caller


def p_readoptions(ctx):
    if getattr(ctx, "_readoptions_done", False):
        return
    ctx._readoptions_done = True
    sel = SELECT.get(ctx.prop, SELECT["C06"])
    ctx.assumptions += [a for a in M.ASSUMED if a not in ctx.assumptions]
    for res in M.check(ctx):
        for name in res.order:
            if not sel(name):
                continue
            st = res.status(name)
            e = next((x for x in res.d[name] if x[0] == st), res.d[name][0])
            fn = function_of(name)
            fid = next((f for f, rx in KNOWN.get(ctx.prop, []) if rx.search(name)), None)
            if st == REFUTED and fid and ctx.is_known(fid):
                ctx.obligation(name, fn, "refuted-known", e[3], 0.0, detail=e[4], model=e[1], sample=True)
                ctx.known_finding(fid)
                continue
            ctx.obligation(name, fn, st, e[3], 0.0, detail=e[4], model=e[1] if st == REFUTED else None, sample=(st != PROVED))
            if st == REFUTED:
                m = e[1] or {}
                got = m.get("passed") or m.get("rebound_to_a_different_value") or m.get("required_normalisation_missing")
                ctx.violation(name, {"function": fn, "model": e[1], "solver_output": str(e[1])[:600], "snippet": None}, False,
                              what=((e[4] or "")[:220] + " - instead: " + str(m)[:200]))
