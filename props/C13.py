"""C13 - see properties.jsonl; DESIGN.md section 5."""
from ._generic import run_property

EXPLANATION = 'Mixed. P (from the real source of api.py, for every number of groups / atoms / row groups): the fold steps of _column_filter (OR accumulator starts False, each group ORs in the AND of its atoms, the AND accumulator starts True for EVERY group, flat list = one AND group, operators per class), _columns_from_filters, the mask cut into per-row-group pieces that tile the mask, wrong-length mask raises before any read, count(row_filter=True) evaluates the same selection as to_pandas; dropped partition atoms and unknown operators counting as True are refuted = known findings. The induction from fold steps to the whole predicate is argued, not mechanised. B (labelled bounded): to_pandas(filters, row_filter=True|mask) equals the full read restricted to the satisfying rows (oracle: plain pandas on the source frame), count(row_filter=True) equals its length, masks select exactly the masked rows.'


def p_parts():
    from ._rowfilter import p_rowfilter
    from ._pagemask import p_pagemask
    from ._generic import optional_parts
    return [p_rowfilter, p_pagemask] + optional_parts(("_readoptions", "p_readoptions"), ("_pathconv", "p_hive_convention"))


def run(ctx):
    return run_property(ctx, 'other', EXPLANATION, p_parts=p_parts(), b_modules=['c13_exact_rows'],
                        assumptions=["pandas / numpy / cramjam behaviour inside every opaque value",
                                     "the oracle (plain pandas / the spec library under /verif/spec) is a faithful reading of the property"],
                        trusted=["bounded layer: enumerated inputs only; nothing outside the stated bound is covered"])
