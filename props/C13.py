"""C13 - see properties.jsonl; DESIGN.md section 5."""
from ._generic import run_property

EXPLANATION = 'Bounded stand-in: to_pandas(filters, row_filter=True|mask) equals the full read restricted to the satisfying rows (oracle: plain pandas on the source frame), count(row_filter=True) equals its length, masks select exactly the masked rows.'


def p_parts():
    return []


def run(ctx):
    return run_property(ctx, 'exploration', EXPLANATION, p_parts=p_parts(), b_modules=['c13_exact_rows'],
                        assumptions=["pandas / numpy / cramjam behaviour inside every opaque value",
                                     "the oracle (plain pandas / the spec library under /verif/spec) is a faithful reading of the property"],
                        trusted=["bounded layer: enumerated inputs only; nothing outside the stated bound is covered"])
