"""C03 - page bookkeeping of the READER (real source of fastparquet/core.py, by ast, on every run).

Functions under contract: core.read_col (page loop), core.read_data_page + read_def + read_rep + read_data + _read_page (inlined),
core.read_data_page_v2, core.read_dictionary_page.  The native decoders, numpy and the codecs are callee contracts (ASSUMED below; the
decoders' own contracts are proved in contracts/kernels.py, their call-site preconditions itemsize / width / length-is-bytes in
contracts/c03_callsites.py - not repeated here).

Model.  A byte buffer is a `Region` (id, length); `Bts` = window [a, a+n) of a region; `IOBuf` = cencoding.NumpyIO over a window with a
ghost cursor kept per path; decompress_data makes a new region whose provenance (input window, codec, size) is recorded.  numpy arrays are
`Arr` windows (root array, offset, length, element size, role data/mask, element/byte view); every store into an array and every decoder
call is an EVENT in path.ghost["ev"]; postconditions are posed over the events of each finished path.  Words of the file that the format
defines but this model does not compute (4-byte little-endian length prefix of a level block, the index-width byte, a run header) are
uninterpreted functions of (region, offset): int32_le_at, byte_at, uvarint_at.  count_equal(array, v) is the number of entries == v.

The chunk (read_col) is the page sequence the FORMAT defines: page j starts at OFF(j), OFF(0) = 0, OFF(j+1) = OFF(j) + HL(j) + CPS(j)
(header length, compressed_page_size), VS(j) = number of values in the data pages before page j, K pages, VS(K) = cmd.num_values.  The
`while num < rows` loop is run for ONE arbitrary page k: every variable the body assigns is havoc'd under the invariant
    infile.tell() == OFF(k)   num == VS(k)   0 <= k <= K   dic is None <=> no dictionary page read, else dic is the dictionary of page 0
    (categorical read) categories were installed from the dictionary <=> dictionary page read
proved on entry and after the body.  read_data_page / read_data_page_v2 / read_dictionary_page are cuts inside read_col (their contracts
are the obligations proved by the runs of those functions here).

Obligation names (prefix = function; what a VIOLATION reports):
 read_col.  chunk.bytes_are_first_page_offset_plus_total_compressed_size
            page_loop.invariant_on_entry[..] / invariant_preserved[..]   prefix_sum.monotone.base/step (lemma, then instantiated)
            page.header_parsed_at_page_start   dictionary_page.{consumed_as_dictionary, converted_once_and_kept, categories_installed_from_it}
            data_page.{rows_are_next_window, defined_positions_get_values_in_order, null_positions_get_null,
                       values_dereferenced_through_dictionary_iff_dictionary_encoded, plain_page_not_routed_through_dictionary,
                       dictionary_is_the_chunk_dictionary, num_advances_by_page_num_values, index_page_is_refused}
            categorical.{codes_only_from_dictionary_encoded_pages, no_dictionary_raises}
            data_page_v2.callsite.{num_is_rows_so_far, output_is_whole_column, header_is_this_page, dictionary_is_chunk_dictionary, result_added_to_num}
            exit.all_values_placed_no_overrun   exit.every_output_row_written (+ companion "[chunk num_values == rows of the row group]")
 read_data_page.   page_bytes.{read_at_cursor_exactly_compressed_page_size, decompressed_with_chunk_codec_to_uncompressed_page_size}
            rep_levels.{first_in_page_with_length_prefix, absent_iff_max_rep_0}  def_levels.{after_rep_levels_with_length_prefix,
            absent_iff_required, skipped_block_only_when_no_nulls}  levels.width_is_width_from_max_level  levels.count_is_num_values
            levels.declared_encoding_is_the_one_decoded (BIT_PACKED must raise)   num_nulls_is_num_values_minus_defined
            values.{start_after_levels, count_is_num_values_minus_num_nulls, returned_length_is_num_values_minus_num_nulls}
            values.dictionary.{width_byte_consumed, runs_extend_to_page_end}  values.rle_boolean.runs_start_after_length_prefix
            values.delta.{output_width_matches_type}  returns.{definition_levels_None_iff_no_nulls, repetition_levels_None_iff_max_rep_0}
            unsupported_encoding_raises   supported_page_is_not_refused
 read_data_page_v2.  unsupported_encoding_raises  levels.{def_read_from_uncompressed_prefix, def_width_is_width_from_max_level,
            def_output_holds_num_values_entries}  values.{start_at_sum_of_level_lengths, length_is_compressed_size_minus_levels,
            decompressed_iff_is_compressed_with_chunk_codec, uncompressed_size_is_page_size_minus_levels, count_is_num_values_minus_num_nulls}
            values.dictionary.{width_byte_consumed_then_runs, output_holds_non_null_values} values.rle_boolean.length_prefix_skipped
            values.delta.output_width_matches_type  rows.{window_is_num_to_num_plus_num_values, defined_positions_get_values_in_order,
            null_positions_get_null, dictionary_dereferenced_unless_categorical}  page_consumed_exactly  returns_num_values
            supported_page_is_not_refused
 read_dictionary_page.  page_bytes.*  count_is_header_num_values  decodes_whole_page_as_plain  non_plain_dictionary_page_raises
A source shape the script does not model gives `<run>.out_of_reach` = unknown (never a violation).
"""
import ast
import itertools
import time

import z3

from vc.front_py import parse_module
from vc.symexec import (Engine, Path, Custom, Opaque, Str, PyB, PyI, NONE, NoneV, Unsupported, Tup, Opt, LoopSpec)
from vlib.common import PROVED, REFUTED, UNKNOWN
from .util import Results, solve, ret_line

I = z3.IntSort()
B = z3.BoolSort()
LEN32 = z3.Function("int32_le_at", I, I, I)          # (region, offset) -> the 4-byte little-endian int stored there
BYTE = z3.Function("byte_at", I, I, I)               # (region, offset) -> the byte stored there
UVAR = z3.Function("uvarint_at", I, I, I)            # (region, offset) -> the ULEB128 number starting there
UVARLEN = z3.Function("uvarint_len_at", I, I, I)     # ... and its length in bytes (1..5)
CNT = z3.Function("count_equal", I, I, I)            # (array, v) -> number of entries equal to v
WIDTH = z3.Function("width_from_max_int", I, I)      # bit length of a non-negative int (kernel contract: contracts/kernels.py)

_ids = itertools.count(1)


def _enums():
    from spec import thrift_idl
    return thrift_idl.load().enums


ENUMS = _enums()                                      # numbers from parquet.thrift (the format), not from the library module
ENC, PT, TY, CODEC, REP = (ENUMS[k] for k in ("Encoding", "PageType", "Type", "CompressionCodec", "FieldRepetitionType"))
DICT_ENCS = (ENC["PLAIN_DICTIONARY"], ENC["RLE_DICTIONARY"])
SUPPORTED = (ENC["PLAIN"], ENC["PLAIN_DICTIONARY"], ENC["RLE_DICTIONARY"], ENC["RLE"], ENC["DELTA_BINARY_PACKED"])

ASSUMED = [
    "valid chunk (Parquet format): pages are adjacent, page j = thrift header (HL(j) >= 1 bytes) + compressed_page_size(j) bytes; at most "
    "one dictionary page and it is page 0; a dictionary-encoded data page implies page 0 is the dictionary page; the num_values of the data "
    "pages sum to ColumnMetaData.num_values; every data page holds >= 1 value; v1 data / dictionary pages have compressed_page_size >= 1",
    "valid data page v1 body: [repetition levels iff max_rep > 0][definition levels iff max_def > 0][values]; a level block is a 4-byte "
    "little-endian length L followed by L bytes of RLE/bit-packed hybrid runs holding exactly num_values levels; the blocks lie inside the page",
    "valid data page v2: repetition_levels_byte_length + definition_levels_byte_length <= compressed_page_size; levels are stored "
    "uncompressed in front of the values; header num_nulls == number of definition levels < max; flat column: repetition length 0, "
    "num_rows == num_values; num_nulls > 0 only for an optional column",
    "schema helper: is_required(path) <=> max_definition_level(path) == 0; max levels are in 0..255; a path of length 1 has max_rep 0",
    "cencoding.NumpyIO (proved: contracts/kernels.py NumpyIO methods): tell/seek/read/read_byte move the cursor as the .pyx says, in "
    "particular read(x) with x < 1 returns the REST of the buffer and seek clamps to the end",
    "cencoding.read_rle_bit_packed_hybrid(io, width, length, o, itemsize) (kernel contract): length == 0 -> reads the 4-byte length L at the "
    "cursor, decodes the runs of [cursor+4, cursor+4+L) and - for a valid block holding exactly the requested values - leaves the cursor at "
    "cursor+4+L; length > 0 -> decodes runs from the cursor, consuming at most `length` bytes; fills o (capacity = its array) when the stream "
    "holds enough values.  width_from_max_int(n) = bit length of n (>= 1 for n >= 1, 0 for 0, <= 8 for n <= 255)",
    "cencoding.delta_binary_unpack(io, o, longval): decodes from the cursor into o with 8-byte stores iff longval else 4-byte stores; "
    "read_unsigned_var_int(io) consumes 1..5 bytes; skip_definition_bytes(io, n) skips exactly the definition block fastparquet's own writer "
    "emits for n values without nulls (4-byte length + one RLE run; proved for C01: contracts/py_arith.py)",
    "selfmade files (created_by fastparquet): statistics.null_count == 0 => every definition level of the chunk is the maximum; the "
    "dictionary-index fast path's single bit-packed run covers all non-null values of the page (C01: dictionary-index fast path framing)",
    "encoding.read_plain(raw, type, count, ...) / speedups.unpack_byte_array(raw, count, ...): decode `count` PLAIN values from the start of "
    "`raw` and return an array of exactly `count` entries; converted_types.convert(x, se, ...) is element-wise (same length, same order)",
    "compression.decompress_data(b, n, codec): the n-byte plain form of b under `codec`; codec UNCOMPRESSED (0 / 'UNCOMPRESSED') returns b "
    "itself; decom_into[name](src, dst) decompresses src into dst",
    "numpy: a[lo:hi] (0 <= lo) is the window [min(lo, len), min(hi, len)); x.view('uint8') is the same memory as bytes; a[...] and a[:] "
    "select everything; w[m] = v with a boolean mask m needs len(m) == len(w) (else IndexError) and len(v) == count(m) or v scalar / of "
    "length 1 (else ValueError), values go to the True positions in order; w[:] = v needs len(v) == len(w) or length 1; (a == x).sum() == "
    "count_equal(a, x), (a != x) is its complement; np.empty / np.zeros(n, dtype) has n entries of that dtype; freshly allocated object "
    "arrays hold None",
    "the output array `assign` has one entry per row of the row group (api.ParquetFile.to_pandas / pre_allocate: C06 to_pandas.slices_tile)",
    "out of scope here (other properties): row_filter (C13: runs use row_filter=None), repeated columns / _assemble_objects (C15: runs use "
    "max_repetition_level == 0 in read_col and read_data_page_v2), the KeyError path of read_col (column absent from the schema)",
]


def fint(base):
    return z3.Int(f"{base}!p{next(_ids)}")


def fbool(base):
    return z3.Bool(f"{base}!p{next(_ids)}")


def zmin(a, b):
    return z3.If(a <= b, a, b)


def zmax(a, b):
    return z3.If(a >= b, a, b)


def is_ellipsis(v):
    return isinstance(v, Opaque) and v.tag == "global:Ellipsis"


def unopt(v):
    return v.val if isinstance(v, Opt) else v


def raise_path(p, exc, node):
    p.ctl = ("raise", exc)
    p.trace.append(("raise", getattr(node, "lineno", 0)))
    return p


def events(p, kind=None):
    return [e for e in p.ghost.get("ev", []) if kind is None or e["kind"] == kind]


def emit(p, **e):
    if p.ctl is not None:
        return
    e["seq"] = len(p.ghost.get("ev", []))
    p.ghost["ev"] = p.ghost.get("ev", []) + [e]
    return e


# ---- bytes ---------------------------------------------------------------------------------------------------------------------
class Region:
    def __init__(self, name, n, prov=None):
        self.id = next(_ids)
        self.rid = z3.IntVal(self.id)
        self.name, self.n, self.prov = name, n, prov


class Bts:
    """window [a, a+n) of a region"""
    tracked = True
    is_bytes = True

    def __init__(self, region, a, n):
        self.region, self.a, self.n = region, z3.simplify(a), z3.simplify(n)

    def len(self, eng, p):
        return PyI(self.n)

    def truth(self, eng, p):
        return self.n > 0

    def is_none(self, eng, p):
        return z3.BoolVal(False)

    def slice(self, eng, p, lo, hi, node):
        a = eng.as_int(lo, p) if lo is not None else z3.IntVal(0)
        b = eng.as_int(hi, p) if hi is not None else self.n
        a2, b2 = zmin(zmax(a, 0), self.n), zmin(zmax(b, 0), self.n)
        return Custom(Bts(self.region, self.a + a2, zmax(b2 - a2, 0)))

    def getitem(self, eng, p, i, node):
        if is_ellipsis(i):
            return Custom(self)
        raise Unsupported("bytes[...] with a non-trivial index")


class IOBuf:
    """cencoding.NumpyIO: `base` is a Bts (input) or an Arr (output, see o_arr); ghost cursor per path"""
    tracked = True

    def __init__(self, base, nbytes, arr=None, name="io"):
        self.key = ("io", next(_ids))
        self.base, self.nbytes, self.arr, self.name = base, z3.simplify(nbytes), arr, name

    def pos(self, p):
        return p.ghost.get(self.key, z3.IntVal(0))

    def set(self, p, v):
        p.ghost[self.key] = z3.simplify(v)

    def abs(self, p):
        return z3.simplify(self.base.a + self.pos(p))

    def attr(self, eng, p, name):
        if name == "len":
            return PyI(self.nbytes)
        raise Unsupported("NumpyIO." + name)

    def truth(self, eng, p):
        return z3.BoolVal(True)

    def is_none(self, eng, p):
        return z3.BoolVal(False)

    def call_method(self, eng, p, name, args, kw, node):
        pos = self.pos(p)
        if name == "tell" and not args:
            return [(p, PyI(pos))]
        if name == "seek":
            off = eng.as_int(args[0], p)
            wh = z3.simplify(eng.as_int(args[1], p)) if len(args) > 1 else z3.IntVal(0)
            if not z3.is_int_value(wh) or wh.as_long() not in (0, 1, 2):
                raise Unsupported("seek whence")
            new = {0: off, 1: pos + off, 2: self.nbytes + off}[wh.as_long()]
            self.set(p, zmin(new, self.nbytes))
            emit(p, kind="seek", io=self, frm=pos, to=self.pos(p), line=node.lineno)
            return [(p, PyI(self.pos(p)))]
        if name == "read":
            if self.arr is not None:
                raise Unsupported("read on an output NumpyIO")
            x = eng.as_int(args[0], p) if args else z3.IntVal(-1)
            n = z3.simplify(z3.If(x < 1, self.nbytes - pos, x))
            got = z3.simplify(zmax(zmin(pos + n, self.nbytes) - zmin(pos, self.nbytes), 0))
            b = Bts(self.base.region, self.base.a + pos, got)
            emit(p, kind="read", io=self, pos=pos, asked=x, n=n, got=got, bts=b, line=node.lineno)
            self.set(p, pos + n)
            return [(p, Custom(b))]
        if name == "read_byte" and not args:
            v = BYTE(self.base.region.rid, self.abs(p))
            p.pc += [v >= 0, v <= 255]
            emit(p, kind="read_byte", io=self, pos=pos, value=v, line=node.lineno)
            self.set(p, pos + 1)
            return [(p, PyI(v))]
        raise Unsupported("NumpyIO." + name)


# ---- arrays --------------------------------------------------------------------------------------------------------------------
class Root:
    """one numpy allocation: n entries of `item` bytes; kind = dtype.kind as a character code; masked = pandas nullable extension array"""

    def __init__(self, name, n, item, kind=None, masked=None):
        self.id = next(_ids)
        self.aid = z3.IntVal(self.id)
        self.name, self.n, self.item = name, n, item
        self.kind = kind if kind is not None else fint("dtype_kind_" + name)
        self.masked = masked if masked is not None else z3.BoolVal(False)


class DTypeObj:
    tracked = False

    def __init__(self, root):
        self.root = root

    def attr(self, eng, p, name):
        if name == "kind":
            return Custom(KindChr(self.root.kind))
        if name == "itemsize":
            return PyI(self.root.item)
        return Opaque(("dtype", self.root.name, name))

    def eq(self, eng, p, other):
        if isinstance(other, Str) and len(other.s) == 1:
            return self.root.kind == ord(other.s)
        raise Unsupported("dtype compared with " + repr(getattr(other, "s", other)))

    def isinstance(self, eng, p, tn):
        if "BaseMaskedDtype" in tn:
            return self.root.masked
        raise Unsupported("isinstance(dtype, " + tn + ")")

    def call_method(self, eng, p, name, args, kw, node):
        if name == "type":
            return [(p, Opaque(("NaT", self.root.name)))]
        raise Unsupported("dtype." + name)


class KindChr:
    tracked = False

    def __init__(self, code):
        self.code = code

    def eq(self, eng, p, other):
        if isinstance(other, Str):
            return self.code == ord(other.s) if len(other.s) == 1 else z3.BoolVal(False)
        raise Unsupported("dtype.kind compared with a non-string")


class Arr:
    """window [off, off+n) of a root array; role: 'data' | 'mask' (the _mask of a nullable array); view: 'elem' | 'bytes'"""
    tracked = False
    is_array = True

    def __init__(self, root, off=None, n=None, role="data", view="elem", lo_raw=None, hi_raw=None, whole=True):
        self.root = root
        self.off = z3.IntVal(0) if off is None else z3.simplify(off)
        self.n = root.n if n is None else z3.simplify(n)
        self.role, self.view, self.whole = role, view, whole
        self.lo_raw = self.off if lo_raw is None else lo_raw
        self.hi_raw = z3.simplify(self.off + self.n) if hi_raw is None else hi_raw

    def _like(self, **kw):
        d = dict(off=self.off, n=self.n, role=self.role, view=self.view, lo_raw=self.lo_raw, hi_raw=self.hi_raw, whole=self.whole)
        d.update(kw)
        return Arr(self.root, **d)

    def item(self):
        return z3.IntVal(1) if self.role == "mask" else self.root.item

    def nbytes(self):
        return z3.simplify(self.n * self.item())

    def len(self, eng, p):
        return PyI(self.nbytes() if self.view == "bytes" else self.n)

    def truth(self, eng, p):
        raise Unsupported("truth value of an array")

    def is_none(self, eng, p):
        return z3.BoolVal(False)

    def isinstance(self, eng, p, tn):
        return z3.BoolVal("ndarray" in tn)

    def attr(self, eng, p, name):
        if name == "dtype":
            return Custom(DTypeObj(self.root))
        if name == "_mask":
            return Custom(self._like(role="mask"))
        if name == "_data":
            return Custom(self._like(role="data"))
        if name == "data":
            return Custom(self)
        if name == "nbytes":
            return PyI(self.nbytes())
        raise Unsupported("ndarray." + name)

    def call_method(self, eng, p, name, args, kw, node):
        if name == "view":
            t = args[0] if args else None
            src = ast.unparse(node.args[0]) if node.args else ""
            if isinstance(t, Str) and t.s == "uint8":
                return [(p, Custom(self._like(view="bytes")))]
            if src == "np.bool_" and (self.role == "mask" or True):
                return [(p, Custom(self._like()))]
            raise Unsupported("ndarray.view(" + src + ")")
        if name == "copy":
            raise Unsupported("ndarray.copy")
        raise Unsupported("ndarray." + name)

    def slice(self, eng, p, lo, hi, node):
        if self.view == "bytes":
            raise Unsupported("slice of a byte view")
        a = eng.as_int(lo, p) if lo is not None else z3.IntVal(0)
        b = eng.as_int(hi, p) if hi is not None else self.n
        eng.oblige(p, f"{eng.cur_func}.slice_start_nonnegative@L{node.lineno}", "safety", a >= 0, node,
                   note="a negative slice start would count from the end of the array")
        a2, b2 = zmin(a, self.n), zmin(zmax(b, 0), self.n)
        return Custom(Arr(self.root, self.off + a2, zmax(b2 - a2, 0), self.role, self.view, z3.simplify(self.off + a),
                          z3.simplify(self.off + b), whole=False))

    def getitem(self, eng, p, i, node):
        if is_ellipsis(i):
            return Custom(self)
        i = unopt(i)
        if isinstance(i, Custom) and isinstance(i.h, Arr):
            return Custom(Lookup(self, i.h))
        raise Unsupported("array[...] with an index of type " + type(i).__name__)

    # stores -> [paths]
    def setslice(self, eng, p, lo, hi, v, node):
        tgt = self if (lo is None and hi is None) else self.slice(eng, p, lo, hi, node).h
        return store(eng, p, tgt, ("all",), v, node)

    def setitem_paths(self, eng, p, i, v, node):
        if is_ellipsis(i):
            return store(eng, p, self, ("all",), v, node)
        i = unopt(i)
        if isinstance(i, Custom) and isinstance(i.h, CmpMask):
            return store(eng, p, self, ("mask", i.h), v, node)
        raise Unsupported("array[...] = with an index of type " + type(i).__name__)


class CmpMask:
    """boolean array (arr <op> value), op in '==', '!='"""
    tracked = False
    is_array = True
    is_mask = True

    def __init__(self, arr, op, val):
        self.arr, self.op, self.val = arr, op, val

    def count(self):
        c = CNT(self.arr.root.aid, self.val)
        return c if self.op == "==" else self.arr.n - c

    def alen(self):
        return self.arr.n

    def len(self, eng, p):
        return PyI(self.arr.n)

    def invert(self, eng, p):
        return Custom(CmpMask(self.arr, "!=" if self.op == "==" else "==", self.val))

    def getitem(self, eng, p, i, node):
        if is_ellipsis(i):
            return Custom(self)
        raise Unsupported("mask[...] with a non-trivial index")

    def call_method(self, eng, p, name, args, kw, node):
        if name == "sum" and not args:
            whole = z3.And(self.arr.off == 0, self.arr.n == self.arr.root.n)
            eng.oblige(p, f"{eng.cur_func}.count_over_whole_level_array@L{node.lineno}", "safety", whole, node)
            c = CNT(self.arr.root.aid, self.val)
            p.pc += [c >= 0, c <= self.arr.root.n]
            return [(p, PyI(self.count()))]
        if name == "any" and not args:
            return [(p, PyB(fbool("any")))]
        if name == "view":
            return [(p, Custom(self))]
        raise Unsupported("mask." + name)

    def truth(self, eng, p):
        raise Unsupported("truth value of a mask")

    def is_none(self, eng, p):
        return z3.BoolVal(False)


class Lookup:
    """dic[idx]"""
    tracked = False
    is_array = True

    def __init__(self, table, idx):
        self.table, self.idx = table, idx

    def alen(self):
        return alen(self.idx)

    def len(self, eng, p):
        return PyI(self.alen())

    def getitem(self, eng, p, i, node):
        if is_ellipsis(i):
            return Custom(self)
        raise Unsupported("lookup[...]")


class Conv:
    """convert(x, se, ...): element-wise"""
    tracked = False
    is_array = True

    def __init__(self, x):
        self.x = x

    def alen(self):
        return alen(self.x)

    def len(self, eng, p):
        return PyI(self.alen())

    def getitem(self, eng, p, i, node):
        if is_ellipsis(i):
            return Custom(self)
        i = unopt(i)
        if isinstance(i, Custom) and isinstance(i.h, Arr):
            return Custom(Lookup(self, i.h))
        raise Unsupported("converted[...]")

    def is_none(self, eng, p):
        return z3.BoolVal(False)

    def call_method(self, eng, p, name, args, kw, node):
        raise Unsupported("converted." + name)


def alen(v):
    """length of an array-like value as a z3 term; None for a scalar"""
    v = unopt(v)
    if isinstance(v, Custom):
        h = v.h
    else:
        h = v
    if isinstance(h, Arr):
        return h.nbytes() if h.view == "bytes" else h.n
    if isinstance(h, (CmpMask, Lookup, Conv)):
        return h.alen()
    if isinstance(h, Bts):
        return h.n
    if isinstance(h, DictVal):
        return h.n
    return None


def content(p, root):
    return p.ghost.get(("content", root.id))


def set_content(p, root, c):
    p.ghost[("content", root.id)] = c


def store(eng, p, tgt, sel, v, node):
    """numpy assignment tgt[sel] = v: length rules of numpy (ASSUMED) give the raise paths; the store itself is an event"""
    outs = []
    if sel[0] == "mask":
        m = sel[1]
        bad = p.fork(m.alen() != tgt.n)
        if eng.feasible(bad):
            emit(bad, kind="numpy_raise", why="boolean index did not match the indexed array", line=node.lineno)
            outs.append(raise_path(bad, "IndexError", node))
        p.pc.append(m.alen() == tgt.n)
        c = CNT(m.arr.root.aid, m.val)
        p.pc += [c >= 0, c <= m.arr.root.n]
        cnt = m.count()
    else:
        cnt = tgt.nbytes() if tgt.view == "bytes" else tgt.n
    vl = alen(v)
    if vl is not None:
        bad = p.fork(z3.And(vl != cnt, vl != 1))
        if eng.feasible(bad):
            emit(bad, kind="numpy_raise", why="cannot assign %s values to %s selected entries" % (vl, cnt), line=node.lineno)
            outs.append(raise_path(bad, "ValueError", node))
        p.pc.append(z3.Or(vl == cnt, vl == 1))
    if eng.feasible(p):
        emit(p, kind="store", tgt=tgt, sel=sel, src=v, srclen=vl, count=z3.simplify(cnt), line=node.lineno)
        outs.append(p)
    return outs


class DictVal:
    """the (converted) values of a dictionary page; `page` = index of the page in the chunk it was read from"""
    tracked = False
    is_array = True

    def __init__(self, page, n, converted=False, raw=None):
        self.page, self.n, self.converted, self.raw = page, n, converted, raw
        self.id = next(_ids)

    def len(self, eng, p):
        return PyI(self.n)

    def is_none(self, eng, p):
        return z3.BoolVal(False)

    def truth(self, eng, p):
        raise Unsupported("truth value of an array")

    def getitem(self, eng, p, i, node):
        i = unopt(i)
        if isinstance(i, Custom) and isinstance(i.h, Arr):
            return Custom(Lookup(self, i.h))
        raise Unsupported("dic[...] with an index of type " + type(i).__name__)


# ---- records (thrift structures, schema helper) --------------------------------------------------------------------------------
class Rec:
    """struct with named fields (values given at construction; assignments are kept per path)"""
    tracked = False

    def __init__(self, name, fields):
        self.name, self.fields = name, dict(fields)
        self.id = next(_ids)

    def attr(self, eng, p, name):
        k = ("recset", self.id, name)
        if k in p.ghost:
            return p.ghost[k]
        if name in self.fields:
            return self.fields[name]
        raise Unsupported(f"{self.name}.{name} is not modelled")

    def setattr(self, eng, p, name, v):
        p.ghost[("recset", self.id, name)] = v

    def truth(self, eng, p):
        return z3.BoolVal(True)

    def is_none(self, eng, p):
        return z3.BoolVal(False)


class PathInSchema:
    tracked = False

    def __init__(self, n):
        self.n = n

    def len(self, eng, p):
        return PyI(self.n)

    def getitem(self, eng, p, i, node):
        return Opaque(("path_in_schema", str(getattr(i, "z", i))))


class Helper:
    """schema.SchemaHelper: every query must be about THIS column (cmd.path_in_schema)"""
    tracked = False

    def __init__(self, S):
        self.S = S

    def call_method(self, eng, p, name, args, kw, node):
        S = self.S
        own = len(args) == 1 and isinstance(args[0], Custom) and args[0].h is S.path
        if name in ("is_required", "max_definition_level", "max_repetition_level", "schema_element"):
            eng.oblige(p, f"{eng.cur_func}.schema_query_is_about_this_column@L{node.lineno}", "post", z3.BoolVal(own), node,
                       note=f"schema_helper.{name}(...) is asked about cmd.path_in_schema")
        if name == "is_required":
            return [(p, PyB(S.required))]
        if name == "max_definition_level":
            return [(p, PyI(S.max_def))]
        if name == "max_repetition_level":
            return [(p, PyI(S.max_rep))]
        if name == "schema_element":
            return [(p, Custom(S.se))]
        raise Unsupported("schema_helper." + name)


class Schema:
    """the column: schema facts + ColumnMetaData"""

    def __init__(self, flat=False):
        self.required = z3.Bool("column_is_required")
        self.max_def, self.max_rep, self.pathlen = z3.Int("max_definition_level"), z3.Int("max_repetition_level"), z3.Int("len_path_in_schema")
        self.ptype, self.codec = z3.Int("cmd.type"), z3.Int("cmd.codec")
        self.num_values, self.tcs = z3.Int("cmd.num_values"), z3.Int("cmd.total_compressed_size")
        self.dpo, self.dict_none, self.dict_off = z3.Int("cmd.data_page_offset"), z3.Bool("cmd.dictionary_page_offset_is_None"), \
            z3.Int("cmd.dictionary_page_offset")
        self.null_count = z3.Int("cmd.statistics.null_count")
        self.path = PathInSchema(self.pathlen)
        self.se = Rec("SchemaElement", {"type_length": Opt(z3.Bool("se.type_length_is_None"), PyI(z3.Int("se.type_length"))),
                                        "converted_type": Opt(z3.Bool("se.converted_type_is_None"), PyI(z3.Int("se.converted_type"))),
                                        "type": PyI(self.ptype), "repetition_type": PyI(z3.Int("se.repetition_type"))})
        self.stats = Rec("Statistics", {"null_count": PyI(self.null_count)})
        self.cmd = Rec("ColumnMetaData", {
            "path_in_schema": Custom(self.path), "type": PyI(self.ptype), "codec": PyI(self.codec), "num_values": PyI(self.num_values),
            "total_compressed_size": PyI(self.tcs), "data_page_offset": PyI(self.dpo),
            "dictionary_page_offset": Opt(self.dict_none, PyI(self.dict_off)), "statistics": Custom(self.stats),
            "key_value_metadata": Opaque("cmd.key_value_metadata")})
        self.helper = Helper(self)
        self.pre = [self.required == (self.max_def == 0), self.max_def >= 0, self.max_def <= 255, self.max_rep >= 0, self.max_rep <= 255,
                    self.pathlen >= 1, z3.Implies(self.pathlen == 1, self.max_rep == 0), self.codec >= 0, self.codec <= 7,
                    self.ptype >= 0, self.ptype <= 7]
        if flat:
            self.pre += [self.max_rep == 0, self.max_def <= 1]


def width_facts(x):
    return [WIDTH(x) >= 0, z3.Implies(x >= 1, WIDTH(x) >= 1), z3.Implies(x == 0, WIDTH(x) == 0), z3.Implies(x <= 255, WIDTH(x) <= 8)]


# ---- engine --------------------------------------------------------------------------------------------------------------------
class PEngine(Engine):
    def oblige(self, p, name, kind, goal, node=None, note=""):
        if p.ctl is not None:               # a path that already raised inside this expression: nothing more is evaluated on it
            return
        super().oblige(p, name, kind, goal, node, note)

    def pose(self, p, name, goal, note="", kind="post"):
        Engine.oblige(self, p, name, kind, goal, None, note)

    def getattr(self, o, attr, p, node):
        if isinstance(o, Opaque) and isinstance(o.tag, tuple) and len(o.tag) == 2 and o.tag[0] == "global:parquet_thrift" \
                and o.tag[1] in ENUMS:
            if attr not in ENUMS[o.tag[1]]:
                raise Unsupported(f"parquet_thrift.{o.tag[1]}.{attr} is not in parquet.thrift")
            return PyI(ENUMS[o.tag[1]][attr])
        return super().getattr(o, attr, p, node)

    def e_Compare(self, e, p):
        if len(e.ops) == 1 and isinstance(e.ops[0], (ast.Eq, ast.NotEq)):
            out = []
            for q, a in self.ev(e.left, p):
                for r, b in self.ev(e.comparators[0], q):
                    ua, ub = unopt(a), unopt(b)
                    arr, other = None, None
                    if isinstance(ua, Custom) and isinstance(ua.h, (Arr, DictVal, Conv)):
                        arr, other = ua.h, ub
                    elif isinstance(ub, Custom) and isinstance(ub.h, (Arr, DictVal, Conv)):
                        arr, other = ub.h, ua
                    if arr is None:
                        out.append((r, PyB(self.compare(e.ops[0], a, b, r, e))))
                    elif isinstance(arr, Arr) and isinstance(other, (PyI, PyB)):
                        out.append((r, Custom(CmpMask(arr, "==" if isinstance(e.ops[0], ast.Eq) else "!=", self.as_int(other, r)))))
                    else:
                        out.append((r, Custom(AnyMask())))
            return out
        return super().e_Compare(e, p)

    def e_UnaryOp(self, e, p):
        if isinstance(e.op, ast.Invert):
            out = []
            for q, v in self.ev(e.operand, p):
                u = unopt(v)
                if isinstance(u, Custom) and hasattr(u.h, "invert"):
                    out.append((q, u.h.invert(self, q)))
                elif isinstance(u, (PyI,)):
                    out.append((q, PyI(-u.z - 1)))
                else:
                    raise Unsupported("~ on " + type(u).__name__)
            return out
        return super().e_UnaryOp(e, p)

    def identical(self, a, b, p):
        if is_ellipsis(a) or is_ellipsis(b):
            return z3.BoolVal(is_ellipsis(a) and is_ellipsis(b))
        return super().identical(a, b, p)

    def contains(self, coll, item, p, node):
        if isinstance(coll, Str) and isinstance(item, Custom) and hasattr(item.h, "eq"):
            return z3.Or(*[item.h.eq(self, p, Str(c)) for c in coll.s]) if coll.s else z3.BoolVal(False)
        return super().contains(coll, item, p, node)

    def assign(self, t, v, p):
        if isinstance(t, ast.Subscript):
            out = []
            for q, o in self.ev(t.value, p):
                if isinstance(o, Opt):
                    self.oblige(q, f"{self.cur_func}.no_subscript_of_None@L{t.lineno}", "safety", z3.Not(o.isnone), t)
                    o = o.val
                if isinstance(o, Opaque):
                    self.check_untracked([v], {}, "store into an opaque object", t)
                    out.append(q)
                    continue
                if not isinstance(o, Custom):
                    raise Unsupported("subscript store on " + type(o).__name__)
                if isinstance(t.slice, ast.Slice):
                    if t.slice.step is not None:
                        raise Unsupported("slice step")
                    lo = self.ev1(t.slice.lower, q) if t.slice.lower is not None else None
                    hi = self.ev1(t.slice.upper, q) if t.slice.upper is not None else None
                    if not hasattr(o.h, "setslice"):
                        raise Unsupported("slice store on " + type(o.h).__name__)
                    out += o.h.setslice(self, q, lo, hi, v, t)
                else:
                    for r, i in self.ev(t.slice, q):
                        if r.ctl is not None:
                            out.append(r)
                        elif hasattr(o.h, "setitem_paths"):
                            out += o.h.setitem_paths(self, r, i, v, t)
                        else:
                            raise Unsupported("item store on " + type(o.h).__name__)
            return out
        return super().assign(t, v, p)

    def s_Assign(self, st, p):
        out = []
        for q, v in self.ev(st.value, p):
            if q.ctl is not None:
                out.append(q)
                continue
            qs = [q]
            for t in st.targets:
                nq = []
                for r in qs:
                    nq += self.assign(t, v, r) if r.ctl is None else [r]
                qs = nq
            out += qs
        return out

    def s_AugAssign(self, st, p):
        out = []
        import copy
        load = copy.copy(st.target)
        load.ctx = ast.Load()
        for q, a in self.ev(load, p):
            for r, b in self.ev(st.value, q):
                if r.ctl is not None:
                    out.append(r)
                    continue
                out += self.assign(st.target, self.binop(st.op, a, b, r, st), r)
        return out

    def s_Expr(self, st, p):
        if isinstance(st.value, ast.Constant):
            return [p]
        return [q for q, _ in self.ev(st.value, p)]

    def e_Call(self, e, p):
        if p.ctl is not None:
            return [(p, Opaque("dead"))]
        return super().e_Call(e, p)

    def ev_list(self, nodes, p):
        acc = [(p, [])]
        for n in nodes:
            nxt = []
            for q, vs in acc:
                if q.ctl is not None:
                    nxt.append((q, vs + [Opaque("dead")]))
                else:
                    nxt += [(r, vs + [v]) for r, v in self.ev(n, q)]
            acc = nxt
        return acc

    def call_named(self, name, selfobj, e, p):
        out = []
        for q, (args, kw) in self.ev_args(e, p):
            if q.ctl is not None:
                out.append((q, Opaque("dead")))
                continue
            if selfobj is not None:
                args = [selfobj] + args
            if name in self.handlers:
                out += self.handlers[name](self, q, args, kw, e)
            elif name in self.funcs and (name in self.inline or "*" in self.inline):
                self.inlined.add(name)
                for r in self.run(name, q, args, kw):
                    if r.ctl[0] == "ret":
                        v = r.ctl[1]
                        r.ctl = None
                        out.append((r, v))
                    else:
                        out.append((r, Opaque("raised")))
            else:
                from vc.symexec import BUILTINS
                if name in BUILTINS:
                    out += BUILTINS[name](self, q, args, kw, e)
                elif self.opaque_calls:
                    self.check_untracked(args, kw, name, e)
                    out.append((q, Opaque(("call", name, next(self.counter)))))
                else:
                    raise Unsupported(f"call {name} in {self.cur_func} L{e.lineno}")
        return out


class AnyMask:
    """element-wise comparison whose content is not modelled (dic2 != dic)"""
    tracked = False

    def call_method(self, eng, p, name, args, kw, node):
        if name in ("any", "all"):
            return [(p, PyB(fbool("arrays_differ")))]
        raise Unsupported("comparison result." + name)


# ---- handlers shared by the runs -------------------------------------------------------------------------------------------------
DT_ITEM = {"np.uint8": 1, "np.int8": 1, "np.int32": 4, "np.uint32": 4, "np.int64": 8, "'uint8'": 1, '"uint8"': 1, "'int32'": 4,
           "'uint32'": 4, "'int64'": 8, "np.bool_": 1, "bool": 1, "'int8'": 1}


def dtype_item(eng, p, node, val):
    """element size of the dtype argument of np.empty / np.zeros (source text of the argument + its value)"""
    src = ast.unparse(node) if node is not None else ""
    if src in DT_ITEM:
        return z3.IntVal(DT_ITEM[src])
    if isinstance(node, ast.IfExp):
        return None
    if isinstance(val, Custom) and isinstance(val.h, DTypeObj):
        return val.h.root.item
    raise Unsupported("dtype " + src)


def base_handlers(S):
    def h_empty(eng, p, args, kw, node):
        n = eng.as_int(args[0], p)
        dnode = next((k.value for k in node.keywords if k.arg == "dtype"), node.args[1] if len(node.args) > 1 else None)
        dval = kw.get("dtype") or (args[1] if len(args) > 1 else None)
        fname = ast.unparse(node.func)
        if isinstance(dnode, ast.IfExp):
            # np.int64 if <cond> else np.int32: evaluated by the engine into two paths already? (IfExp forks in ev_args): use source of branch
            raise Unsupported("conditional dtype reached the handler")
        item = dtype_item(eng, p, dnode, dval)
        eng.oblige(p, f"{eng.cur_func}.allocation_size_nonnegative@L{node.lineno}", "safety", n >= 0, node)
        root = Root(f"{fname}@L{node.lineno}", n, item)
        if fname == "np.zeros":
            set_content(p, root, ("zeros",))
        emit(p, kind="alloc", root=root, line=node.lineno)
        return [(p, Custom(Arr(root)))]

    def h_numpyio(eng, p, args, kw, node):
        a = unopt(args[0])
        if isinstance(a, Custom) and isinstance(a.h, Bts):
            return [(p, Custom(IOBuf(a.h, a.h.n, name=f"NumpyIO@L{node.lineno}")))]
        if isinstance(a, Custom) and isinstance(a.h, Arr):
            return [(p, Custom(IOBuf(None, a.h.nbytes(), arr=a.h, name=f"NumpyIO(out)@L{node.lineno}")))]
        raise Unsupported("NumpyIO over " + type(getattr(a, "h", a)).__name__)

    def h_width(eng, p, args, kw, node):
        x = eng.as_int(args[0], p)
        p.pc += width_facts(x)
        return [(p, PyI(WIDTH(x)))]

    def h_hybrid(eng, p, args, kw, node):
        names = ["io_obj", "width", "length", "o", "itemsize"]
        a = dict(zip(names, args))
        a.update(kw)
        io, o = unopt(a["io_obj"]), unopt(a["o"])
        if not (isinstance(io, Custom) and isinstance(io.h, IOBuf) and io.h.arr is None and isinstance(o, Custom)
                and isinstance(o.h, IOBuf) and o.h.arr is not None):
            raise Unsupported("read_rle_bit_packed_hybrid argument shapes")
        io, o = io.h, o.h
        width, length = eng.as_int(a["width"], p), eng.as_int(a["length"], p)
        item = eng.as_int(a["itemsize"], p) if "itemsize" in a else z3.IntVal(4)
        pos, reg = io.pos(p), io.base.region
        outs = []
        # (a) length == 0: the 4-byte length prefix is read
        q = p.fork(length == 0)
        if eng.feasible(q):
            L = LEN32(reg.rid, io.abs(q))
            q.pc += [L >= 0]
            emit(q, kind="hybrid", io=io, region=reg, prefix_at=io.abs(q), start=z3.simplify(io.abs(q) + 4), nbytes=L, width=width, out=o.arr,
                 cap=o.arr.n, itemsize=item, length_arg=length, line=node.lineno, func=eng.cur_func)
            io.set(q, pos + 4 + L)
            o.set(q, o.nbytes)
            set_content(q, o.arr.root, ("hybrid", len(q.ghost["ev"]) - 1))
            outs.append((q, NONE))
        # (b) a byte length is given
        q = p.fork(length != 0)
        if eng.feasible(q):
            c = fint("bytes_consumed_by_runs")
            q.pc += [c >= 0, c <= zmax(length, 0)]
            emit(q, kind="hybrid", io=io, region=reg, prefix_at=None, start=io.abs(q), nbytes=length, width=width, out=o.arr, cap=o.arr.n,
                 itemsize=item, length_arg=length, line=node.lineno, func=eng.cur_func)
            io.set(q, pos + c)
            o.set(q, o.nbytes)
            set_content(q, o.arr.root, ("hybrid", len(q.ghost["ev"]) - 1))
            outs.append((q, NONE))
        return outs

    def h_delta(eng, p, args, kw, node):
        io, o = unopt(args[0]), unopt(args[1])
        if not (isinstance(io, Custom) and isinstance(io.h, IOBuf) and isinstance(o, Custom) and isinstance(o.h, IOBuf) and o.h.arr is not None):
            raise Unsupported("delta_binary_unpack argument shapes")
        io, o = io.h, o.h
        lv = kw.get("longval", args[2] if len(args) > 2 else PyB(False))
        emit(p, kind="delta", io=io, region=io.base.region, start=io.abs(p), out=o.arr, cap=o.arr.n, longval=eng.truth(lv, p),
             line=node.lineno)
        c = fint("bytes_consumed_by_delta")
        p.pc += [c >= 0]
        io.set(p, io.pos(p) + c)
        set_content(p, o.arr.root, ("delta", len(p.ghost["ev"]) - 1))
        return [(p, NONE)]

    def h_varint(eng, p, args, kw, node):
        io = unopt(args[0])
        if not (isinstance(io, Custom) and isinstance(io.h, IOBuf)):
            raise Unsupported("read_unsigned_var_int argument")
        io = io.h
        v, ln = UVAR(io.base.region.rid, io.abs(p)), UVARLEN(io.base.region.rid, io.abs(p))
        p.pc += [v >= 0, ln >= 1, ln <= 5]
        emit(p, kind="varint", io=io, pos=io.abs(p), value=v, line=node.lineno)
        io.set(p, io.pos(p) + ln)
        return [(p, PyI(v))]

    def h_frombuffer(eng, p, args, kw, node):
        b = unopt(args[0])
        dnode = next((k.value for k in node.keywords if k.arg == "dtype"), node.args[1] if len(node.args) > 1 else None)
        if isinstance(b, Custom) and isinstance(b.h, Bts):
            if dnode is not None and ast.unparse(dnode) in ("'uint8'", '"uint8"', "np.uint8"):
                return [(p, b)]
            # a typed view of the bytes (dictionary-index fast path): item size unknown here
            item = fint("frombuffer_itemsize")
            p.pc += [item >= 1]
            root = Root(f"np.frombuffer@L{node.lineno}", fint("frombuffer_len"), item)
            p.pc += [root.n >= 0, root.n * item <= b.h.n, (root.n + 1) * item > b.h.n]
            set_content(p, root, ("raw", b.h))
            emit(p, kind="frombuffer", root=root, bts=b.h, line=node.lineno)
            return [(p, Custom(Arr(root)))]
        raise Unsupported("np.frombuffer over " + type(getattr(b, "h", b)).__name__)

    def h_decompress(eng, p, args, kw, node):
        b = unopt(args[0])
        if not (isinstance(b, Custom) and isinstance(b.h, Bts)):
            raise Unsupported("decompress_data over " + type(getattr(b, "h", b)).__name__)
        size = eng.as_int(args[1], p)
        c = args[2] if len(args) > 2 else kw.get("algorithm", Str("gzip"))
        if isinstance(c, Str):
            code = z3.IntVal(CODEC[c.s.upper()]) if c.s.upper() in CODEC else None
            if code is None:
                raise Unsupported("codec name " + c.s)
        else:
            code = eng.as_int(c, p)
        n = z3.simplify(z3.If(code == 0, b.h.n, size))
        reg = Region(f"decompressed@L{node.lineno}", n, prov=("decomp", b.h, code, size))
        emit(p, kind="decompress", src=b.h, codec=code, size=size, region=reg, line=node.lineno)
        return [(p, Custom(Bts(reg, z3.IntVal(0), n)))]

    def h_read_plain(eng, p, args, kw, node):
        names = ["raw_bytes", "type_", "count", "width", "utf", "stat"]
        a = dict(zip(names, args))
        a.update(kw)
        b = unopt(a["raw_bytes"])
        if not (isinstance(b, Custom) and isinstance(b.h, Bts)):
            raise Unsupported("read_plain over " + type(getattr(b, "h", b)).__name__)
        cnt = eng.as_int(a["count"], p)
        root = Root(f"read_plain@L{node.lineno}", cnt, fint("plain_itemsize"))
        emit(p, kind="plain", bts=b.h, count=cnt, ptype=eng.as_int(a["type_"], p), out=root, line=node.lineno, func=eng.cur_func)
        set_content(p, root, ("plain", len(p.ghost["ev"]) - 1))
        return [(p, Custom(Arr(root)))]

    def h_unpack_byte_array(eng, p, args, kw, node):
        b = unopt(args[0])
        if not (isinstance(b, Custom) and isinstance(b.h, Bts)):
            raise Unsupported("unpack_byte_array over " + type(getattr(b, "h", b)).__name__)
        cnt = eng.as_int(args[1], p)
        root = Root(f"unpack_byte_array@L{node.lineno}", cnt, fint("object_itemsize"))
        emit(p, kind="plain", bts=b.h, count=cnt, ptype=z3.IntVal(TY["BYTE_ARRAY"]), out=root, line=node.lineno, func=eng.cur_func)
        set_content(p, root, ("plain", len(p.ghost["ev"]) - 1))
        return [(p, Custom(Arr(root)))]

    def h_convert(eng, p, args, kw, node):
        x = unopt(args[0])
        if isinstance(x, Custom) and isinstance(x.h, (Arr, DictVal, Lookup, Conv)):
            if isinstance(x.h, Arr) and x.h.root.name == "assign":
                emit(p, kind="convert_inplace", tgt=x.h, line=node.lineno)
                return [(p, args[0])]
            if isinstance(x.h, DictVal):
                return [(p, Custom(DictVal(x.h.page, x.h.n, converted=True, raw=x.h)))]
            return [(p, Custom(Conv(x)))]
        raise Unsupported("convert of " + type(getattr(x, "h", x)).__name__)

    def h_int(eng, p, args, kw, node):
        return [(p, PyI(eng.as_int(args[0], p)))]

    def h_getattr(eng, p, args, kw, node):
        o, nm = args[0], args[1]
        if not isinstance(nm, Str):
            raise Unsupported("getattr with a computed name")
        if isinstance(o, NoneV):
            return [(p, args[2])] if len(args) > 2 else [(raise_path(p, "AttributeError", node), NONE)]
        if isinstance(o, Custom) and hasattr(o.h, "getattr_default") and len(args) > 2:
            return [(p, o.h.getattr_default(eng, p, nm.s, args[2]))]
        return [(p, eng.getattr(o, nm.s, p, node))]

    def h_hasattr(eng, p, args, kw, node):
        o, nm = args[0], args[1]
        if isinstance(o, Custom) and hasattr(o.h, "hasattr"):
            return [(p, PyB(o.h.hasattr(eng, p, nm.s)))]
        if isinstance(o, Custom) and isinstance(o.h, Rec):
            return [(p, PyB(nm.s in o.h.fields))]
        if isinstance(o, NoneV):
            return [(p, PyB(False))]
        return [(p, PyB(fbool("hasattr_" + nm.s)))]

    def h_min(eng, p, args, kw, node):
        if len(args) == 1 and isinstance(args[0], Tup) and len(args[0].items) == 2:
            a, b = (eng.as_int(x, p) for x in args[0].items)
            return [(p, PyI(zmin(a, b)))]
        if len(args) == 2:
            a, b = (eng.as_int(x, p) for x in args)
            return [(p, PyI(zmin(a, b)))]
        raise Unsupported("min shape")

    def h_not_equal(eng, p, args, kw, node):
        a = unopt(args[0])
        out = unopt(kw.get("out"))
        if not (isinstance(a, Custom) and isinstance(a.h, Arr) and isinstance(out, Custom) and isinstance(out.h, Arr)
                and a.h.root is out.h.root):
            raise Unsupported("np.not_equal shape")
        m = CmpMask(out.h._like(view="elem"), "!=", eng.as_int(args[1], p))
        p.ghost[("asmask", out.h.root.id)] = m
        return [(p, Custom(m))]

    return {"np.empty": h_empty, "np.zeros": h_empty, "encoding.NumpyIO": h_numpyio, "encoding.width_from_max_int": h_width,
            "encoding.read_rle_bit_packed_hybrid": h_hybrid, "encoding.delta_binary_unpack": h_delta,
            "encoding.read_unsigned_var_int": h_varint, "np.frombuffer": h_frombuffer, "decompress_data": h_decompress,
            "read_plain": h_read_plain, "unpack_byte_array": h_unpack_byte_array, "convert": h_convert, "int": h_int,
            "getattr": h_getattr, "hasattr": h_hasattr, "min": h_min, "np.not_equal": h_not_equal}


# ---- discharge -----------------------------------------------------------------------------------------------------------------
def short_model(m):
    if m is None:
        return None
    d = {}
    for dcl in m.decls():
        nm = dcl.name()
        if dcl.arity() == 0 and not nm.startswith(("opq", "isinst", "streq", "truth", "in!", "isnone", "len!", "hasattr", "any", "k!")):
            d[nm] = str(m[dcl])
    return dict(sorted(d.items())[:48])


def discharge(res, eng, timeout, rename=None):
    """consecutive obligations with the same hypotheses share one solver"""
    from vc import backends
    cur_key, sol = None, None
    for ob in eng.oblig:
        t = time.time()
        name = rename(ob.name) if rename else ob.name
        if z3.is_true(ob.goal):
            res.add(name, PROVED, None, 0.0, "simplify", ob.note or ob.kind)
            continue
        key = tuple(c.get_id() for c in ob.pc) + tuple(c.get_id() for c in ob.axioms)
        if key != cur_key:
            sol = z3.Solver()
            sol.set("timeout", timeout)
            sol.add(*ob.pc)
            sol.add(*ob.axioms)
            cur_key = key
        sol.push()
        sol.add(z3.Not(ob.goal))
        r = sol.check()
        m = sol.model() if r == z3.sat else None
        sol.pop()
        if r == z3.unsat:
            res.add(name, PROVED, None, time.time() - t, "z3", ob.note or ob.kind)
        elif r == z3.sat:
            res.add(name, REFUTED, short_model(m), time.time() - t, "z3", ob.note or ob.kind)
        else:
            st, be, secs, m = backends.discharge(ob, timeout)
            res.add(name, st, short_model(m), secs, be, ob.note or ob.kind)
    eng.oblig = []
