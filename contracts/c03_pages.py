"""C03 - page bookkeeping of the READER (real source of fastparquet/core.py, by ast, on every run).

Functions under contract: core.read_col (page loop), core.read_data_page + read_def + read_rep + read_data + _read_page (inlined),
core.read_data_page_v2, core.read_dictionary_page.  The native decoders, numpy and the codecs are callee contracts (ASSUMED below; the
decoders' own contracts are proved in contracts/kernels.py, their call-site preconditions itemsize / width / length-is-bytes in
contracts/c03_callsites.py - not repeated here).

Model.  A byte buffer is a `Region` (id, length); `Bts` = window [a, a+n) of a region; `IOBuf` = cencoding.NumpyIO over a window with a
ghost cursor kept per path; decompress_data makes a new region whose provenance (input window, codec, size) is recorded.  numpy arrays are
`Arr` windows (root array, offset, length, element size, role data/mask, element/byte view); every store into an array and every decoder
call is an EVENT in path.ghost["ev"]; numpy's length rules for `w[mask] = v` / `w[:] = v` give the IndexError / ValueError paths.
Postconditions are posed over the events of each finished path.  Words of the file that the format defines but this model does not
compute (4-byte little-endian length prefix of a level block, the index-width byte, a run header) are uninterpreted functions of
(region, offset): int32_le_at, byte_at, uvarint_at.  count_equal(array, v) is the number of entries == v.  Paths with the same events /
cursors are merged after every statement and after inlined calls (ints, bools, optionals exactly by if-then-else).

The chunk (read_col) is the page sequence the FORMAT defines: page j starts at OFF(j), OFF(0) = 0, OFF(j+1) = OFF(j) + HL(j) + CPS(j)
(header length, compressed_page_size), VS(j) = number of values in the data pages before page j, K pages, VS(K) = cmd.num_values.  The
`while num < rows` loop is run for ONE arbitrary page k: every variable the body assigns is havoc'd under the invariant
    infile.tell() == OFF(k)   num == VS(k)   0 <= k <= K   dic is None <=> no dictionary page read, else dic is the dictionary of page 0
    (categorical read) categories were installed from the dictionary <=> dictionary page read, never from anything else
proved on entry and after the body.  read_data_page / read_data_page_v2 / read_dictionary_page are cuts inside read_col (their contracts
are the obligations proved by the runs of those functions here).  read_col runs twice: [values] (use_cat False) and [categorical].

Obligation names (prefix = function; what a VIOLATION reports):
 read_col[mode].  chunk.bytes_are_first_page_offset_plus_total_compressed_size     prefix_sum.monotone.base/step (lemma, then instantiated)
      page_loop.invariant_on_entry[..] / invariant_preserved[..] (4 / 5 conjuncts)   page.header_parsed_at_page_start
      dictionary_page.{consumed_as_dictionary, converted_once_and_kept, writes_no_rows, categories_installed_from_it,
      labels_fit_the_code_dtype}   categorical_labels_are_this_chunks_dictionary (for an ARBITRARY prior state of the shared catdef)
      data_page.callsite.{page_cursor_header_metadata, skip_nulls_only_for_selfmade_chunk_without_nulls, selfmade_passed_on}
      data_page.{rows_are_next_window, defined_positions_get_values_in_order, null_positions_get_null,
                 dictionary_indices_dereferenced_through_chunk_dictionary, plain_page_not_routed_through_dictionary}
      categorical.codes_only_from_dictionary_encoded_pages   plain_page_in_categorical_read_is_refused
      data_page_v2.callsite.{page_cursor_header_metadata, num_is_rows_so_far, output_is_whole_column, dictionary_is_chunk_dictionary,
                             flags_passed_on}   data_page_v2.rows_written_only_by_the_v2_reader
      exit.all_values_placed_no_overrun   exit.every_output_row_written   supported_chunk_is_not_refused@L<line>
 read_data_page.   page_bytes.{read_at_cursor_exactly_compressed_page_size, decompressed_with_chunk_codec_to_uncompressed_page_size}
      levels.{blocks_decoded_are_the_blocks_present, width_is_width_from_max_level, count_is_num_values, declared_encoding_is_the_one_decoded}
      rep_levels.first_in_page_with_length_prefix   def_levels.{after_rep_levels_with_length_prefix, skipped_block_only_when_no_nulls}
      num_nulls_is_num_values_minus_defined   values.{start_after_levels, count_is_num_values_minus_num_nulls,
      returned_length_is_num_values_minus_num_nulls}   values.plain.decodes_from_value_start_to_page_end
      values.dictionary.{width_byte_consumed, runs_extend_to_page_end}   values.rle_boolean.runs_start_after_length_prefix
      values.delta.output_width_matches_type   returns.{definition_levels_None_iff_no_nulls, repetition_levels_None_iff_max_rep_0}
      unsupported_encoding_raises   supported_page_is_not_refused@L<line>
 read_data_page_v2.  unsupported_encoding_raises   returns_num_values   page_consumed_exactly   idx.row_index_untouched_for_flat_column
      levels.{def_decoded_iff_page_has_nulls, def_read_from_uncompressed_prefix, def_width_is_width_from_max_level,
      def_output_holds_num_values_entries}   values.{count_is_num_values_minus_num_nulls, start_at_sum_of_level_lengths,
      length_is_compressed_size_minus_levels, decompressed_iff_is_compressed_with_chunk_codec, uncompressed_size_is_page_size_minus_levels,
      hybrid_output_holds_non_null_values}   values.plain.decodes_value_section_as_physical_type
      values.dictionary.width_byte_consumed_then_runs   values.rle_boolean.length_prefix_skipped
      values.delta.{starts_at_value_section, output_width_matches_type}
      rows.{window_is_num_to_num_plus_num_values, defined_positions_get_values_in_order, null_positions_get_null,
      dictionary_dereferenced_unless_categorical, categorical_codes_only_from_dictionary_encoded_pages}
      supported_page_is_not_refused@L<line>:<exception> / @assert-L<line>
 read_dictionary_page.  page_bytes.*  count_is_header_num_values  decodes_whole_page_as_plain  returns_the_decoded_values
      non_plain_dictionary_page_raises
 <each function>.schema_element_is_the_one_at_the_chunks_path: every schema element looked up is helper.schema_element(cmd.path_in_schema)
      (the tree walk), never schema_elements_by_name[leaf name] (leaf names are shared by nested columns)
 + the engine's own safety obligations (<func>.no_attr_of_None@L.., slice_start_nonnegative, allocation_size_nonnegative, ...).
Findings.  Twelve defects of /repo were re-derived / found here (contracts/findings.jsonl, ids C03-P-*, each replayed natively by
tools/c03pages_native.py); three of them are repaired in /repo (fixed-C03-v1-dict-boolean-width-byte efe7e45, fixed-C03-v1-rle-boolean-
length-prefix c8ef5ea, fixed-C03-v1-bit-packed-levels f1984b1: their obligations are plain PROVED obligations again, reverting a fix is a
canary; likewise fixed-C03-categorical-read-of-fallback-chunk af3a4f3 for v1 pages - the v2 reader still copies a PLAIN page into the
codes, and read_col now refuses such a page before the call: fixed-C03-v2-categorical-read-of-plain-page c3e23bf = call-site precondition
data_page_v2.callsite.categorical_read_only_for_dictionary_pages).  Every run carries the union of the INPUT REGIONS of the open findings; an obligation that is REFUTED is posed a second time with
the region excluded under `<name>[outside the regions of the recorded findings]` - that one is PROVED on the unchanged tree, so every
counter-model lies inside a recorded finding, and a change that breaks the same obligation elsewhere is a VIOLATION of the companion.
C13 (part "read_col_mask", props/_pagemask.py): run `read_col[values, row_filter mask]` - the caller's boolean row mask of the row group:
count(a, b) = mask_true_count = True entries of mask[a:b] (additive, 0 <= count <= b - a: instances only).  Invariant in addition:
index_off == VS(k) (mask cursor) and num == count(0, VS(k)) (output cursor of the FILTERED output).  Obligations:
mask.window_is_the_rows_of_the_page, mask.page_skipped_only_if_no_row_selected, data_page.filtered_rows_are_next_output_window,
data_page.kept_values_are_the_selected_values_of_the_page_in_order, data_page.null_positions_get_null, dictionary routing,
data_page_v2.callsite.page_window_of_the_mask_is_identified, exit.all_selected_rows_written_no_overrun; findings C13-P-* (3).
A source shape the script does not model gives `<run>.out_of_reach` = unknown (never a violation).
"""
import ast
import itertools
import time

import z3

from vc.front_py import parse_module
from vc.symexec import (Engine, Path, Custom, Opaque, Str, PyB, PyI, NONE, NoneV, Unsupported, Tup, Opt, LoopSpec)
from vlib.common import PROVED, REFUTED, UNKNOWN
from .util import Results, solve, ret_line

I = z3.IntSort()
B = z3.BoolSort()
LEN32 = z3.Function("int32_le_at", I, I, I)          # (region, offset) -> the 4-byte little-endian int stored there
BYTE = z3.Function("byte_at", I, I, I)               # (region, offset) -> the byte stored there
UVAR = z3.Function("uvarint_at", I, I, I)            # (region, offset) -> the ULEB128 number starting there
UVARLEN = z3.Function("uvarint_len_at", I, I, I)     # ... and its length in bytes (1..5)
CNT = z3.Function("count_equal", I, I, I)            # (array, v) -> number of entries equal to v
WIDTH = z3.Function("width_from_max_int", I, I)      # bit length of a non-negative int (kernel contract: contracts/kernels.py)

_ids = itertools.count(1)


def _enums():
    from spec import thrift_idl
    return thrift_idl.load().enums


ENUMS = _enums()                                      # numbers from parquet.thrift (the format), not from the library module
ENC, PT, TY, CODEC, REP = (ENUMS[k] for k in ("Encoding", "PageType", "Type", "CompressionCodec", "FieldRepetitionType"))
DICT_ENCS = (ENC["PLAIN_DICTIONARY"], ENC["RLE_DICTIONARY"])
SUPPORTED = (ENC["PLAIN"], ENC["PLAIN_DICTIONARY"], ENC["RLE_DICTIONARY"], ENC["RLE"], ENC["DELTA_BINARY_PACKED"])

ASSUMED = [
    "valid chunk (Parquet format): pages are adjacent, page j = thrift header (HL(j) >= 1 bytes) + compressed_page_size(j) bytes; at most "
    "one dictionary page and it is page 0; a dictionary-encoded data page implies page 0 is the dictionary page; the num_values of the data "
    "pages sum to ColumnMetaData.num_values; every data page holds >= 1 value; v1 data / dictionary pages have compressed_page_size >= 1",
    "valid data page v1 body: [repetition levels iff max_rep > 0][definition levels iff max_def > 0][values]; a level block is a 4-byte "
    "little-endian length L followed by L bytes of RLE/bit-packed hybrid runs holding exactly num_values levels; the blocks lie inside the page",
    "valid data page v2: repetition_levels_byte_length + definition_levels_byte_length <= compressed_page_size; levels are stored "
    "uncompressed in front of the values; header num_nulls == number of definition levels < max; flat column: repetition length 0, "
    "num_rows == num_values; num_nulls > 0 only for an optional column",
    "schema helper: is_required(path) <=> max_definition_level(path) == 0; max levels are in 0..255; a path of length 1 has max_rep 0",
    "cencoding.NumpyIO (proved: contracts/kernels.py NumpyIO methods): tell/seek/read/read_byte move the cursor as the .pyx says, in "
    "particular read(x) with x < 1 returns the REST of the buffer and seek clamps to the end",
    "cencoding.read_rle_bit_packed_hybrid(io, width, length, o, itemsize) (kernel contract): length == 0 -> reads the 4-byte length L at the "
    "cursor, decodes the runs of [cursor+4, cursor+4+L) and - for a valid block holding exactly the requested values - leaves the cursor at "
    "cursor+4+L; length > 0 -> decodes runs from the cursor, consuming at most `length` bytes; fills o (capacity = its array) when the stream "
    "holds enough values.  width_from_max_int(n) = bit length of n (>= 1 for n >= 1, 0 for 0, <= 8 for n <= 255)",
    "cencoding.delta_binary_unpack(io, o, longval): decodes from the cursor into o with 8-byte stores iff longval else 4-byte stores; "
    "read_unsigned_var_int(io) consumes 1..5 bytes; skip_definition_bytes(io, n) skips exactly the definition block fastparquet's own writer "
    "emits for n values without nulls (4-byte length + one RLE run; proved for C01: contracts/py_arith.py)",
    "selfmade files (created_by fastparquet): statistics.null_count == 0 => every definition level of the chunk is the maximum; the "
    "dictionary-index fast path's single bit-packed run covers all non-null values of the page (C01: dictionary-index fast path framing)",
    "encoding.read_plain(raw, type, count, ...) / speedups.unpack_byte_array(raw, count, ...): decode `count` PLAIN values from the start of "
    "`raw` and return an array of exactly `count` entries; converted_types.convert(x, se, ...) is element-wise (same length, same order)",
    "compression.decompress_data(b, n, codec): the n-byte plain form of b under `codec`; codec UNCOMPRESSED (0 / 'UNCOMPRESSED') returns b "
    "itself; decom_into[name](src, dst) decompresses src into dst",
    "numpy: a[lo:hi] (0 <= lo) is the window [min(lo, len), min(hi, len)); x.view('uint8') is the same memory as bytes; a[...] and a[:] "
    "select everything; w[m] = v with a boolean mask m needs len(m) == len(w) (else IndexError) and len(v) == count(m) or v scalar / of "
    "length 1 (else ValueError), values go to the True positions in order; w[:] = v needs len(v) == len(w) or length 1; (a == x).sum() == "
    "count_equal(a, x), (a != x) is its complement; np.empty / np.zeros(n, dtype) has n entries of that dtype; freshly allocated object "
    "arrays hold None",
    "the output array `assign` has one entry per row of the row group (api.ParquetFile.to_pandas / pre_allocate: C06 to_pandas.slices_tile)",
    "preconditions on the output array (api.ParquetFile.pre_allocate / _dtypes): a column read as category codes is a plain integer array "
    "whose dtype holds the number of dictionary entries; a non-nullable integer / boolean array is only handed over for a column without "
    "nulls; when the element size matches the physical type (`see`) an uncompressed PLAIN values section of n values is n * itemsize bytes",
    "valid values section: a page with a non-null value has a non-empty values section (dictionary: width byte + runs when the width "
    "is > 0; RLE booleans: 4-byte length + runs); RLE as a value encoding only for BOOLEAN, DELTA_BINARY_PACKED only for INT32 / INT64",
    "out of scope here (other properties): row_filter (C13: runs use row_filter=None), repeated columns / _assemble_objects (C15: runs use "
    "max_repetition_level == 0 in read_col and read_data_page_v2), the KeyError path of read_col (column absent from the schema)",
]


def fint(base):
    return z3.Int(f"{base}!p{next(_ids)}")


def fbool(base):
    return z3.Bool(f"{base}!p{next(_ids)}")


def zmin(a, b):
    return z3.If(a <= b, a, b)


def zmax(a, b):
    return z3.If(a >= b, a, b)


def is_ellipsis(v):
    return isinstance(v, Opaque) and v.tag == "global:Ellipsis"


def unopt(v):
    return v.val if isinstance(v, Opt) else v


def raise_path(p, exc, node):
    p.ctl = ("raise", exc)
    p.trace.append(("raise", getattr(node, "lineno", 0)))
    return p


def events(p, kind=None):
    return [e for e in p.ghost.get("ev", []) if kind is None or e["kind"] == kind]


def emit(p, **e):
    if p.ctl is not None:
        return
    e["seq"] = len(p.ghost.get("ev", []))
    p.ghost["ev"] = p.ghost.get("ev", []) + [e]
    return e


# ---- bytes ---------------------------------------------------------------------------------------------------------------------
class Region:
    def __init__(self, name, n, prov=None):
        self.id = next(_ids)
        self.rid = z3.IntVal(self.id)
        self.name, self.n, self.prov = name, n, prov


class Bts:
    """window [a, a+n) of a region"""
    tracked = True
    is_bytes = True

    def __init__(self, region, a, n):
        self.region, self.a, self.n = region, z3.simplify(a), z3.simplify(n)

    def len(self, eng, p):
        return PyI(self.n)

    def truth(self, eng, p):
        return self.n > 0

    def is_none(self, eng, p):
        return z3.BoolVal(False)

    def slice(self, eng, p, lo, hi, node):
        a = eng.as_int(lo, p) if lo is not None else z3.IntVal(0)
        b = eng.as_int(hi, p) if hi is not None else self.n
        a2, b2 = zmin(zmax(a, 0), self.n), zmin(zmax(b, 0), self.n)
        return Custom(Bts(self.region, self.a + a2, zmax(b2 - a2, 0)))

    def getitem(self, eng, p, i, node):
        if is_ellipsis(i):
            return Custom(self)
        raise Unsupported("bytes[...] with a non-trivial index")


class IOBuf:
    """cencoding.NumpyIO: `base` is a Bts (input) or an Arr (output, see o_arr); ghost cursor per path"""
    tracked = True

    def __init__(self, base, nbytes, arr=None, name="io"):
        self.key = ("io", next(_ids))
        self.base, self.nbytes, self.arr, self.name = base, z3.simplify(nbytes), arr, name

    def pos(self, p):
        return p.ghost.get(self.key, z3.IntVal(0))

    def set(self, p, v):
        p.ghost[self.key] = z3.simplify(v)

    def abs(self, p):
        return z3.simplify(self.base.a + self.pos(p))

    def attr(self, eng, p, name):
        if name == "len":
            return PyI(self.nbytes)
        raise Unsupported("NumpyIO." + name)

    def truth(self, eng, p):
        return z3.BoolVal(True)

    def is_none(self, eng, p):
        return z3.BoolVal(False)

    def call_method(self, eng, p, name, args, kw, node):
        pos = self.pos(p)
        if name == "tell" and not args:
            return [(p, PyI(pos))]
        if name == "seek":
            off = eng.as_int(args[0], p)
            wh = z3.simplify(eng.as_int(args[1], p)) if len(args) > 1 else z3.IntVal(0)
            if not z3.is_int_value(wh) or wh.as_long() not in (0, 1, 2):
                raise Unsupported("seek whence")
            new = {0: off, 1: pos + off, 2: self.nbytes + off}[wh.as_long()]
            self.set(p, zmin(new, self.nbytes))
            emit(p, kind="seek", io=self, frm=pos, to=self.pos(p), line=node.lineno)
            return [(p, PyI(self.pos(p)))]
        if name == "read":
            if self.arr is not None:
                raise Unsupported("read on an output NumpyIO")
            x = eng.as_int(args[0], p) if args else z3.IntVal(-1)
            n = z3.simplify(z3.If(x < 1, self.nbytes - pos, x))
            got = z3.simplify(zmax(zmin(pos + n, self.nbytes) - zmin(pos, self.nbytes), 0))
            b = Bts(self.base.region, self.base.a + pos, got)
            emit(p, kind="read", io=self, pos=pos, asked=x, n=n, got=got, bts=b, line=node.lineno)
            self.set(p, pos + n)
            return [(p, Custom(b))]
        if name == "read_byte" and not args:
            v = BYTE(self.base.region.rid, self.abs(p))
            p.pc += [v >= 0, v <= 255]
            emit(p, kind="read_byte", io=self, pos=pos, value=v, line=node.lineno)
            self.set(p, pos + 1)
            return [(p, PyI(v))]
        raise Unsupported("NumpyIO." + name)


# ---- arrays --------------------------------------------------------------------------------------------------------------------
class Root:
    """one numpy allocation: n entries of `item` bytes; kind = dtype.kind as a character code; masked = pandas nullable extension array"""

    def __init__(self, name, n, item, kind=None, masked=None):
        self.id = next(_ids)
        self.aid = z3.IntVal(self.id)
        self.maid = z3.IntVal(next(_ids))
        self.name, self.n, self.item = name, n, item
        self.kind = kind if kind is not None else fint("dtype_kind_" + name)
        self.masked = masked if masked is not None else z3.BoolVal(False)


class DTypeObj:
    tracked = False

    def __init__(self, root):
        self.root = root

    def attr(self, eng, p, name):
        if name == "kind":
            return Custom(KindChr(self.root.kind))
        if name == "itemsize":
            return PyI(self.root.item)
        return Opaque(("dtype", self.root.name, name))

    def eq(self, eng, p, other):
        if isinstance(other, Str) and len(other.s) == 1:
            return self.root.kind == ord(other.s)
        raise Unsupported("dtype compared with " + repr(getattr(other, "s", other)))

    def isinstance(self, eng, p, tn):
        if "BaseMaskedDtype" in tn:
            return self.root.masked
        raise Unsupported("isinstance(dtype, " + tn + ")")

    def call_method(self, eng, p, name, args, kw, node):
        if name == "type":
            return [(p, Opaque(("NaT", self.root.name)))]
        raise Unsupported("dtype." + name)


class KindChr:
    tracked = False

    def __init__(self, code):
        self.code = code

    def eq(self, eng, p, other):
        if isinstance(other, Str):
            return self.code == ord(other.s) if len(other.s) == 1 else z3.BoolVal(False)
        raise Unsupported("dtype.kind compared with a non-string")


class Arr:
    """window [off, off+n) of a root array; role: 'data' | 'mask' (the _mask of a nullable array); view: 'elem' | 'bytes'"""
    tracked = False
    is_array = True

    def __init__(self, root, off=None, n=None, role="data", view="elem", lo_raw=None, hi_raw=None, whole=True):
        self.root = root
        self.off = z3.IntVal(0) if off is None else z3.simplify(off)
        self.n = root.n if n is None else z3.simplify(n)
        self.role, self.view, self.whole = role, view, whole
        self.lo_raw = self.off if lo_raw is None else lo_raw
        self.hi_raw = z3.simplify(self.off + self.n) if hi_raw is None else hi_raw

    def _like(self, **kw):
        d = dict(off=self.off, n=self.n, role=self.role, view=self.view, lo_raw=self.lo_raw, hi_raw=self.hi_raw, whole=self.whole)
        d.update(kw)
        return Arr(self.root, **d)

    def item(self):
        return z3.IntVal(1) if self.role == "mask" else self.root.item

    def cid(self):
        """identity of the CONTENT: the data and the _mask of a nullable array are two arrays"""
        return self.root.maid if self.role == "mask" else self.root.aid

    def nbytes(self):
        return z3.simplify(self.n * self.item())

    def len(self, eng, p):
        return PyI(self.nbytes() if self.view == "bytes" else self.n)

    def truth(self, eng, p):
        raise Unsupported("truth value of an array")

    def is_none(self, eng, p):
        return z3.BoolVal(False)

    def isinstance(self, eng, p, tn):
        return z3.BoolVal("ndarray" in tn)

    def attr(self, eng, p, name):
        if name == "dtype":
            return Custom(DTypeObj(self.root))
        if name == "_mask":
            return Custom(self._like(role="mask"))
        if name == "_data":
            return Custom(self._like(role="data"))
        if name == "data":
            return Custom(self)
        if name == "nbytes":
            return PyI(self.nbytes())
        raise Unsupported("ndarray." + name)

    def call_method(self, eng, p, name, args, kw, node):
        if name == "view":
            t = args[0] if args else None
            src = ast.unparse(node.args[0]) if node.args else ""
            if isinstance(t, Str) and t.s == "uint8":
                return [(p, Custom(self._like(view="bytes")))]
            if src == "np.bool_":
                m = p.ghost.get(("asmask", self.root.id, self.role))
                if m is None:
                    raise Unsupported("view(np.bool_) of an array that is not known to hold 0/1")
                return [(p, Custom(m))]
            raise Unsupported("ndarray.view(" + src + ")")
        if name == "copy":
            raise Unsupported("ndarray.copy")
        raise Unsupported("ndarray." + name)

    def slice(self, eng, p, lo, hi, node):
        if self.view == "bytes":
            raise Unsupported("slice of a byte view")
        a = eng.as_int(lo, p) if lo is not None else z3.IntVal(0)
        b = eng.as_int(hi, p) if hi is not None else self.n
        eng.oblige(p, f"{eng.cur_func}.slice_start_nonnegative@L{node.lineno}", "safety", a >= 0, node,
                   note="a negative slice start would count from the end of the array")
        a2, b2 = zmin(a, self.n), zmin(zmax(b, 0), self.n)
        return Custom(Arr(self.root, self.off + a2, zmax(b2 - a2, 0), self.role, self.view, z3.simplify(self.off + a),
                          z3.simplify(self.off + b), whole=False))

    def getitem(self, eng, p, i, node):
        if is_ellipsis(i):
            return Custom(self)
        i = unopt(i)
        if isinstance(i, Custom) and isinstance(i.h, Arr):
            return Custom(Lookup(self, i.h))
        if isinstance(i, Custom) and isinstance(i.h, (MaskWin, MaskSel)):
            return filtered(eng, p, self, i.h, node)
        raise Unsupported("array[...] with an index of type " + type(i).__name__)

    # stores -> [paths]
    def setslice(self, eng, p, lo, hi, v, node):
        tgt = self if (lo is None and hi is None) else self.slice(eng, p, lo, hi, node).h
        return store(eng, p, tgt, ("all",), v, node)

    def setitem_paths(self, eng, p, i, v, node):
        if is_ellipsis(i):
            return store(eng, p, self, ("all",), v, node)
        i = unopt(i)
        if isinstance(i, Custom) and isinstance(i.h, CmpMask):
            return store(eng, p, self, ("mask", i.h), v, node)
        raise Unsupported("array[...] = with an index of type " + type(i).__name__)


PC = z3.Function("mask_true_count", I, I, I)                  # (a, b) -> number of True entries of the row mask in [a, b)
SELDEF = z3.Function("selected_and_equal_count", I, I, I, I, I)   # (a, b, array, v) -> positions j of the window with mask[a+j] and array[j] == v


def pc_facts(a, b, L):
    """instances of: 0 <= count(a, b) <= b - a and count(0, a) + count(a, b) == count(0, b) for 0 <= a <= b <= len(mask)"""
    ok = z3.And(0 <= a, a <= b, b <= L)
    return [z3.Implies(ok, z3.And(PC(a, b) >= 0, PC(a, b) <= b - a, PC(0, a) + PC(a, b) == PC(0, b), PC(0, a) >= 0, PC(0, b) <= b))]


def seldef_facts(a, b, arr, v):
    sd = SELDEF(a, b, arr.cid(), v)
    c = CNT(arr.cid(), v)
    return [sd >= 0, sd <= PC(a, b), sd <= c, z3.Implies(b - a == arr.n, PC(a, b) - sd <= arr.n - c)]


class MaskArr:
    """the caller's boolean row mask of the row group (numpy bool array of L entries)"""
    tracked = False

    def __init__(self, L):
        self.L = L

    def isinstance(self, eng, p, tn):
        return z3.BoolVal("ndarray" in tn)

    def is_none(self, eng, p):
        return z3.BoolVal(False)

    def len(self, eng, p):
        return PyI(self.L)

    def call_method(self, eng, p, name, args, kw, node):
        if name == "sum" and not args:
            p.pc += [PC(0, self.L) >= 0, PC(0, self.L) <= self.L]
            return [(p, PyI(PC(0, self.L)))]
        raise Unsupported("row_filter." + name)

    def slice(self, eng, p, lo, hi, node):
        a = eng.as_int(lo, p) if lo is not None else z3.IntVal(0)
        b = eng.as_int(hi, p) if hi is not None else self.L
        eng.oblige(p, f"{eng.cur_func}.slice_start_nonnegative@L{node.lineno}", "safety", a >= 0, node)
        a2, b2 = zmin(a, self.L), zmin(zmax(b, 0), self.L)
        w = MaskWin(self, z3.simplify(a2), z3.simplify(zmax(b2, a2)), z3.simplify(a), z3.simplify(b))
        p.pc += pc_facts(w.a, w.b, self.L)
        emit(p, kind="mask_window", win=w, line=node.lineno)
        return Custom(w)


class MaskWin:
    """row_filter[a:b]"""
    tracked = False

    def __init__(self, mask, a, b, a_raw, b_raw):
        self.mask, self.a, self.b, self.a_raw, self.b_raw = mask, a, b, a_raw, b_raw
        self.n = z3.simplify(b - a)

    def len(self, eng, p):
        return PyI(self.n)

    def call_method(self, eng, p, name, args, kw, node):
        if name == "sum" and not args:
            return [(p, PyI(PC(self.a, self.b)))]
        raise Unsupported("row_filter[a:b]." + name)

    def getitem(self, eng, p, i, node):
        i = unopt(i)
        if isinstance(i, Custom) and isinstance(i.h, CmpMask):
            eng.oblige(p, f"{eng.cur_func}.boolean_index_matches_array@L{node.lineno}", "safety", i.h.alen() == self.n, node,
                       "mask window indexed with a boolean array of another length: numpy raises IndexError")
            p.pc.append(i.h.alen() == self.n)
            return Custom(MaskSel(self, i.h))
        raise Unsupported("row_filter[a:b][...] with an index of type " + type(getattr(i, "h", i)).__name__)


class MaskSel:
    """row_filter[a:b][arr == v]: the mask bits of the positions where arr == v (len = count(arr == v))"""
    tracked = False

    def __init__(self, win, cmp):
        self.win, self.cmp = win, cmp


def filtered(eng, p, arr, idx, node):
    """arr[<boolean index built from the row mask>] -> new array: the entries of arr at the True positions, in order"""
    if isinstance(idx, MaskWin):
        need, n, cmp = idx.n, PC(idx.a, idx.b), None
        win = idx
    else:
        win, cmp = idx.win, idx.cmp
        if cmp.op != "==":
            raise Unsupported("mask restricted by a != comparison")
        c = CNT(cmp.arr.cid(), cmp.val)
        p.pc += [c >= 0, c <= cmp.arr.root.n] + seldef_facts(win.a, win.b, cmp.arr, cmp.val)
        need, n = c, SELDEF(win.a, win.b, cmp.arr.cid(), cmp.val)
    eng.oblige(p, f"{eng.cur_func}.boolean_index_matches_array@L{node.lineno}", "safety", need == arr.n, node,
               "array indexed with a boolean array of another length: numpy raises IndexError")
    p.pc.append(need == arr.n)
    root = Root("filtered:" + arr.root.name, z3.simplify(n), arr.root.item)
    set_content(p, root, ("filtered", arr, win, cmp))
    emit(p, kind="filtered", src=arr, win=win, cmp=cmp, out=root, line=node.lineno)
    return Custom(Arr(root))


class CmpMask:
    """boolean array (arr <op> value), op in '==', '!='"""
    tracked = False
    is_array = True
    is_mask = True

    def __init__(self, arr, op, val):
        self.arr, self.op, self.val = arr, op, val

    def count(self):
        c = CNT(self.arr.cid(), self.val)
        return c if self.op == "==" else self.arr.n - c

    def alen(self):
        return self.arr.n

    def len(self, eng, p):
        return PyI(self.arr.n)

    def invert(self, eng, p):
        return Custom(CmpMask(self.arr, "!=" if self.op == "==" else "==", self.val))

    def getitem(self, eng, p, i, node):
        if is_ellipsis(i):
            return Custom(self)
        raise Unsupported("mask[...] with a non-trivial index")

    def call_method(self, eng, p, name, args, kw, node):
        if name == "sum" and not args:
            whole = z3.And(self.arr.off == 0, self.arr.n == self.arr.root.n)
            eng.oblige(p, f"{eng.cur_func}.count_over_whole_level_array@L{node.lineno}", "safety", whole, node)
            c = CNT(self.arr.cid(), self.val)
            p.pc += [c >= 0, c <= self.arr.root.n]
            return [(p, PyI(self.count()))]
        if name == "any" and not args:
            return [(p, PyB(fbool("any")))]
        if name == "view":
            return [(p, Custom(self))]
        raise Unsupported("mask." + name)

    def truth(self, eng, p):
        raise Unsupported("truth value of a mask")

    def is_none(self, eng, p):
        return z3.BoolVal(False)


class Lookup:
    """dic[idx]"""
    tracked = False
    is_array = True

    def __init__(self, table, idx):
        self.table, self.idx = table, idx

    def alen(self):
        return alen(self.idx)

    def len(self, eng, p):
        return PyI(self.alen())

    def getitem(self, eng, p, i, node):
        if is_ellipsis(i):
            return Custom(self)
        raise Unsupported("lookup[...]")


class Conv:
    """convert(x, se, ...): element-wise"""
    tracked = False
    is_array = True

    def __init__(self, x):
        self.x = x

    def alen(self):
        return alen(self.x)

    def len(self, eng, p):
        return PyI(self.alen())

    def getitem(self, eng, p, i, node):
        if is_ellipsis(i):
            return Custom(self)
        i = unopt(i)
        if isinstance(i, Custom) and isinstance(i.h, Arr):
            return Custom(Lookup(self, i.h))
        raise Unsupported("converted[...]")

    def is_none(self, eng, p):
        return z3.BoolVal(False)

    def call_method(self, eng, p, name, args, kw, node):
        raise Unsupported("converted." + name)


def alen(v):
    """length of an array-like value as a z3 term; None for a scalar"""
    v = unopt(v)
    if isinstance(v, Custom):
        h = v.h
    else:
        h = v
    if isinstance(h, Arr):
        return h.nbytes() if h.view == "bytes" else h.n
    if isinstance(h, (CmpMask, Lookup, Conv)):
        return h.alen()
    if isinstance(h, Bts):
        return h.n
    if isinstance(h, DictVal):
        return h.n
    return None


def content(p, root):
    return p.ghost.get(("content", root.id))


def set_content(p, root, c):
    p.ghost[("content", root.id)] = c


def store(eng, p, tgt, sel, v, node):
    """numpy assignment tgt[sel] = v: length rules of numpy (ASSUMED) give the raise paths; the store itself is an event"""
    outs = []
    if sel[0] == "mask":
        m = sel[1]
        bad = p.fork(m.alen() != tgt.n)
        if eng.feasible(bad):
            emit(bad, kind="numpy_raise", why="boolean index did not match the indexed array", line=node.lineno)
            outs.append(raise_path(bad, "IndexError", node))
        p.pc.append(m.alen() == tgt.n)
        c = CNT(m.arr.cid(), m.val)
        p.pc += [c >= 0, c <= m.arr.root.n]
        cnt = m.count()
    else:
        cnt = tgt.nbytes() if tgt.view == "bytes" else tgt.n
    vl = alen(v)
    if vl is not None:
        bad = p.fork(z3.And(vl != cnt, vl != 1))
        if eng.feasible(bad):
            emit(bad, kind="numpy_raise", why="cannot assign n values to m selected entries (n = length of the source, m = entries selected)",
                 view=tgt.view, srclen=vl, cnt=cnt, tgt=tgt, src=v, line=node.lineno)
            outs.append(raise_path(bad, "ValueError", node))
        p.pc.append(z3.Or(vl == cnt, vl == 1))
    if eng.feasible(p):
        emit(p, kind="store", tgt=tgt, sel=sel, src=v, srclen=vl, count=z3.simplify(cnt), line=node.lineno)
        outs.append(p)
    return outs


class DictVal:
    """the (converted) values of a dictionary page; `page` = index of the page in the chunk it was read from"""
    tracked = False
    is_array = True

    def __init__(self, page, n, converted=False, raw=None):
        self.page, self.n, self.converted, self.raw = page, n, converted, raw
        self.id = next(_ids)

    def len(self, eng, p):
        return PyI(self.n)

    def is_none(self, eng, p):
        return z3.BoolVal(False)

    def truth(self, eng, p):
        raise Unsupported("truth value of an array")

    def getitem(self, eng, p, i, node):
        i = unopt(i)
        if isinstance(i, Custom) and isinstance(i.h, Arr):
            return Custom(Lookup(self, i.h))
        raise Unsupported("dic[...] with an index of type " + type(i).__name__)


# ---- records (thrift structures, schema helper) --------------------------------------------------------------------------------
_RECS = {}


class Rec:
    """struct with named fields (values given at construction; assignments are kept per path)"""
    tracked = False

    def __init__(self, name, fields):
        self.name, self.fields = name, dict(fields)
        self.id = next(_ids)
        _RECS[self.id] = self

    def attr(self, eng, p, name):
        k = ("recset", self.id, name)
        if k in p.ghost:
            return p.ghost[k]
        if name in self.fields:
            return self.fields[name]
        raise Unsupported(f"{self.name}.{name} is not modelled")

    def setattr(self, eng, p, name, v):
        p.ghost[("recset", self.id, name)] = v

    def truth(self, eng, p):
        return z3.BoolVal(True)

    def is_none(self, eng, p):
        return z3.BoolVal(False)


class PathInSchema:
    tracked = False

    def __init__(self, n):
        self.n = n

    def len(self, eng, p):
        return PyI(self.n)

    def getitem(self, eng, p, i, node):
        return Opaque(("path_in_schema", str(getattr(i, "z", i))))


class Helper:
    """schema.SchemaHelper: every query must be about THIS column (cmd.path_in_schema)"""
    tracked = False

    def __init__(self, S):
        self.S = S

    def call_method(self, eng, p, name, args, kw, node):
        S = self.S
        own = len(args) == 1 and isinstance(args[0], Custom) and args[0].h is S.path
        if name in ("is_required", "max_definition_level", "max_repetition_level", "schema_element"):
            eng.oblige(p, f"{eng.cur_func}.schema_query_is_about_this_column@L{node.lineno}", "post", z3.BoolVal(own), node,
                       note=f"schema_helper.{name}(...) is asked about cmd.path_in_schema")
        if name == "is_required":
            return [(p, PyB(S.required))]
        if name == "max_definition_level":
            return [(p, PyI(S.max_def))]
        if name == "max_repetition_level":
            return [(p, PyI(S.max_rep))]
        if name == "schema_element":
            emit(p, kind="schema_lookup", how="path", own=own, func=eng.cur_func, line=node.lineno)
            return [(p, Custom(S.se))]
        raise Unsupported("schema_helper." + name)

    def attr(self, eng, p, name):
        if name == "schema_elements_by_name":
            return Custom(ByLeafName(self.S))
        raise Unsupported("schema_helper." + name)


class ByLeafName:
    """SchemaHelper.schema_elements_by_name: name -> the LAST schema element of that name.  Leaf names are not unique (every 3-level LIST
    has a leaf `element`, every MAP `key` / `value`): what comes back is AN element of that name, its path may be another column's"""
    tracked = False

    def __init__(self, S):
        self.S = S

    def getitem(self, eng, p, i, node):
        emit(p, kind="schema_lookup", how="leaf name", own=False, func=eng.cur_func, line=node.lineno)
        return Custom(self.S.se_same_name)

    def call_method(self, eng, p, name, args, kw, node):
        if name == "get":
            return [(p, self.getitem(eng, p, args[0], node))]
        raise Unsupported("schema_elements_by_name." + name)


class Schema:
    """the column: schema facts + ColumnMetaData"""

    def __init__(self, flat=False):
        self.required = z3.Bool("column_is_required")
        self.max_def, self.max_rep, self.pathlen = z3.Int("max_definition_level"), z3.Int("max_repetition_level"), z3.Int("len_path_in_schema")
        self.ptype, self.codec = z3.Int("cmd.type"), z3.Int("cmd.codec")
        self.num_values, self.tcs = z3.Int("cmd.num_values"), z3.Int("cmd.total_compressed_size")
        self.dpo, self.dict_none, self.dict_off = z3.Int("cmd.data_page_offset"), z3.Bool("cmd.dictionary_page_offset_is_None"), \
            z3.Int("cmd.dictionary_page_offset")
        self.null_count = z3.Int("cmd.statistics.null_count")
        self.path = PathInSchema(self.pathlen)
        self.se = Rec("SchemaElement", {"type_length": Opt(z3.Bool("se.type_length_is_None"), PyI(z3.Int("se.type_length"))),
                                        "converted_type": Opt(z3.Bool("se.converted_type_is_None"), PyI(z3.Int("se.converted_type"))),
                                        "type": PyI(self.ptype), "repetition_type": PyI(z3.Int("se.repetition_type"))})
        # an element of the same leaf name somewhere else in the schema tree: nothing relates its fields to this column's
        self.se_same_name = Rec("SchemaElement(same leaf name, other path)", {
            "type_length": Opt(z3.Bool("other_se.type_length_is_None"), PyI(z3.Int("other_se.type_length"))),
            "converted_type": Opt(z3.Bool("other_se.converted_type_is_None"), PyI(z3.Int("other_se.converted_type"))),
            "type": PyI(z3.Int("other_se.type")), "repetition_type": PyI(z3.Int("other_se.repetition_type"))})
        self.stats = Rec("Statistics", {"null_count": PyI(self.null_count)})
        self.cmd = Rec("ColumnMetaData", {
            "path_in_schema": Custom(self.path), "type": PyI(self.ptype), "codec": PyI(self.codec), "num_values": PyI(self.num_values),
            "total_compressed_size": PyI(self.tcs), "data_page_offset": PyI(self.dpo),
            "dictionary_page_offset": Opt(self.dict_none, PyI(self.dict_off)), "statistics": Custom(self.stats),
            "key_value_metadata": Opaque("cmd.key_value_metadata")})
        self.helper = Helper(self)
        self.pre = [self.required == (self.max_def == 0), self.max_def >= 0, self.max_def <= 255, self.max_rep >= 0, self.max_rep <= 255,
                    self.pathlen >= 1, z3.Implies(self.pathlen == 1, self.max_rep == 0), self.codec >= 0, self.codec <= 7,
                    self.ptype >= 0, self.ptype <= 7]
        if flat:
            self.pre += [self.max_rep == 0, self.max_def <= 1]


def width_facts(x):
    return [WIDTH(x) >= 0, z3.Implies(x >= 1, WIDTH(x) >= 1), z3.Implies(x == 0, WIDTH(x) == 0), z3.Implies(x <= 255, WIDTH(x) <= 8)]


# ---- engine --------------------------------------------------------------------------------------------------------------------
class PEngine(Engine):
    default_region = None

    def oblige(self, p, name, kind, goal, node=None, note=""):
        if p.ctl is not None:               # a path that already raised inside this expression: nothing more is evaluated on it
            return
        super().oblige(p, name, kind, goal, node, note)
        self.oblig[-1].region = p.ghost.get("region", self.default_region)

    def pose(self, p, name, goal, note="", kind="post"):
        Engine.oblige(self, p, name, kind, goal, None, note)
        self.oblig[-1].region = p.ghost.get("region", self.default_region)

    def getattr(self, o, attr, p, node):
        if isinstance(o, Opaque) and isinstance(o.tag, tuple) and len(o.tag) == 2 and o.tag[0] == "global:parquet_thrift" \
                and o.tag[1] in ENUMS:
            if attr not in ENUMS[o.tag[1]]:
                raise Unsupported(f"parquet_thrift.{o.tag[1]}.{attr} is not in parquet.thrift")
            return PyI(ENUMS[o.tag[1]][attr])
        return super().getattr(o, attr, p, node)

    def e_Compare(self, e, p):
        if len(e.ops) == 1 and isinstance(e.ops[0], (ast.Eq, ast.NotEq)):
            out = []
            for q, a in self.ev(e.left, p):
                for r, b in self.ev(e.comparators[0], q):
                    ua, ub = unopt(a), unopt(b)
                    arr, other = None, None
                    if isinstance(ua, Custom) and isinstance(ua.h, (Arr, DictVal, Conv)):
                        arr, other = ua.h, ub
                    elif isinstance(ub, Custom) and isinstance(ub.h, (Arr, DictVal, Conv)):
                        arr, other = ub.h, ua
                    if arr is None:
                        out.append((r, PyB(self.compare(e.ops[0], a, b, r, e))))
                    elif isinstance(arr, Arr) and isinstance(other, (PyI, PyB)):
                        v = self.as_int(other, r)
                        c = content(r, arr.root)
                        if isinstance(c, tuple) and c[0] == "filtered" and c[3] is None:
                            # entries of the filtered array equal to v = selected positions of the window whose source entry is v
                            r.pc += seldef_facts(c[2].a, c[2].b, c[1], v) + [CNT(arr.cid(), v) == SELDEF(c[2].a, c[2].b, c[1].cid(), v)]
                        out.append((r, Custom(CmpMask(arr, "==" if isinstance(e.ops[0], ast.Eq) else "!=", v))))
                    else:
                        out.append((r, Custom(AnyMask())))
            return out
        return super().e_Compare(e, p)

    def e_UnaryOp(self, e, p):
        if isinstance(e.op, ast.Invert):
            out = []
            for q, v in self.ev(e.operand, p):
                u = unopt(v)
                if isinstance(u, Custom) and hasattr(u.h, "invert"):
                    out.append((q, u.h.invert(self, q)))
                elif isinstance(u, (PyI,)):
                    out.append((q, PyI(-u.z - 1)))
                else:
                    raise Unsupported("~ on " + type(u).__name__)
            return out
        return super().e_UnaryOp(e, p)

    def load_sub(self, o, i, p, node):
        if isinstance(o, Opaque):
            key = ("item", o.tag, str(i.s if isinstance(i, Str) else i.z if isinstance(i, (PyI, PyB)) else getattr(i, "tag", id(i))))
            if key not in p.opq:
                p.opq[key] = Opaque((o.tag, "[]", key[2]))
            return p.opq[key]
        return super().load_sub(o, i, p, node)

    def identical(self, a, b, p):
        if is_ellipsis(a) or is_ellipsis(b):
            return z3.BoolVal(is_ellipsis(a) and is_ellipsis(b))
        return super().identical(a, b, p)

    def contains(self, coll, item, p, node):
        if isinstance(coll, Str) and isinstance(item, Custom) and hasattr(item.h, "eq"):
            return z3.Or(*[item.h.eq(self, p, Str(c)) for c in coll.s]) if coll.s else z3.BoolVal(False)
        return super().contains(coll, item, p, node)

    def assign(self, t, v, p):
        if isinstance(t, ast.Subscript):
            out = []
            for q, o in self.ev(t.value, p):
                if isinstance(o, Opt):
                    self.oblige(q, f"{self.cur_func}.no_subscript_of_None@L{t.lineno}", "safety", z3.Not(o.isnone), t)
                    o = o.val
                if isinstance(o, Opaque):
                    self.check_untracked([v], {}, "store into an opaque object", t)
                    out.append(q)
                    continue
                if not isinstance(o, Custom):
                    raise Unsupported("subscript store on " + type(o).__name__)
                if isinstance(t.slice, ast.Slice):
                    if t.slice.step is not None:
                        raise Unsupported("slice step")
                    lo = self.ev1(t.slice.lower, q) if t.slice.lower is not None else None
                    hi = self.ev1(t.slice.upper, q) if t.slice.upper is not None else None
                    if not hasattr(o.h, "setslice"):
                        raise Unsupported("slice store on " + type(o.h).__name__)
                    out += o.h.setslice(self, q, lo, hi, v, t)
                else:
                    for r, i in self.ev(t.slice, q):
                        if r.ctl is not None:
                            out.append(r)
                        elif hasattr(o.h, "setitem_paths"):
                            out += o.h.setitem_paths(self, r, i, v, t)
                        else:
                            raise Unsupported("item store on " + type(o.h).__name__)
            return out
        return super().assign(t, v, p)

    def s_Assign(self, st, p):
        out = []
        for q, v in self.ev(st.value, p):
            if q.ctl is not None:
                out.append(q)
                continue
            qs = [q]
            for t in st.targets:
                nq = []
                for r in qs:
                    nq += self.assign(t, v, r) if r.ctl is None else [r]
                qs = nq
            out += qs
        return out

    def s_AugAssign(self, st, p):
        out = []
        import copy
        load = copy.copy(st.target)
        load.ctx = ast.Load()
        for q, a in self.ev(load, p):
            for r, b in self.ev(st.value, q):
                if r.ctl is not None:
                    out.append(r)
                    continue
                out += self.assign(st.target, self.binop(st.op, a, b, r, st), r)
        return out

    def s_Expr(self, st, p):
        if isinstance(st.value, ast.Constant):
            return [p]
        return [q for q, _ in self.ev(st.value, p)]

    merge = True

    def block(self, stmts, paths):
        live = paths
        for st in stmts:
            nxt = []
            for q in live:
                if q.ctl is not None:
                    nxt.append(q)
                else:
                    nxt += self.stmt(st, q)
            if self.merge and sum(1 for q in nxt if q.ctl is None) > 1:
                nxt = merge_paths([q for q in nxt if q.ctl is None]) + [q for q in nxt if q.ctl is not None]
            live = nxt
        return live

    def e_Call(self, e, p):
        if p.ctl is not None:
            return [(p, Opaque("dead"))]
        return super().e_Call(e, p)

    def ev_list(self, nodes, p):
        acc = [(p, [])]
        for n in nodes:
            nxt = []
            for q, vs in acc:
                if q.ctl is not None:
                    nxt.append((q, vs + [Opaque("dead")]))
                else:
                    nxt += [(r, vs + [v]) for r, v in self.ev(n, q)]
            acc = nxt
        return acc

    def call_named(self, name, selfobj, e, p):
        out = []
        for q, (args, kw) in self.ev_args(e, p):
            if q.ctl is not None:
                out.append((q, Opaque("dead")))
                continue
            if selfobj is not None:
                args = [selfobj] + args
            lv = q.env.get(name)
            if isinstance(lv, Opaque) and isinstance(lv.tag, tuple) and lv.tag[:2] == ("global:decom_into", "[]") and "decom_into()" in self.handlers:
                out += self.handlers["decom_into()"](self, q, [lv] + args, kw, e)
            elif name in self.handlers:
                out += self.handlers[name](self, q, args, kw, e)
            elif name in self.funcs and (name in self.inline or "*" in self.inline):
                self.inlined.add(name)
                got = []
                for r in self.run(name, q, args, kw):
                    if r.ctl[0] == "ret":
                        v = r.ctl[1]
                        r.ctl = None
                        got.append((r, v))
                    else:
                        got.append((r, Opaque("raised")))
                out += merge_results(got) if self.merge else got
            else:
                from vc.symexec import BUILTINS
                if name in BUILTINS:
                    out += BUILTINS[name](self, q, args, kw, e)
                elif self.opaque_calls:
                    self.check_untracked(args, kw, name, e)
                    out.append((q, Opaque(("call", name, next(self.counter)))))
                else:
                    raise Unsupported(f"call {name} in {self.cur_func} L{e.lineno}")
        return out


# ---- path merging (joins of `if` statements and of inlined calls) -----------------------------------------------------------------
def same_value(a, b):
    if a is b:
        return True
    if type(a) is not type(b):
        return False
    if isinstance(a, (PyI, PyB)):
        return a.z.eq(b.z)
    if isinstance(a, Str):
        return a.s == b.s
    if isinstance(a, NoneV):
        return True
    if isinstance(a, Opaque):
        return a.tag == b.tag
    if isinstance(a, Custom):
        return a.h is b.h
    if isinstance(a, Opt):
        return a.isnone.eq(b.isnone) and same_value(a.val, b.val)
    if isinstance(a, Tup):
        return len(a.items) == len(b.items) and a.is_list == b.is_list and all(same_value(x, y) for x, y in zip(a.items, b.items))
    return False


def _sig(v):
    if isinstance(v, list):
        return tuple(_sig(x) for x in v)
    if isinstance(v, tuple):
        return tuple(_sig(x) for x in v)
    if isinstance(v, dict):
        return ("d", id(v))
    if z3.is_expr(v):
        return ("z", v.get_id())
    if isinstance(v, (PyI, PyB)):
        return ("z", v.z.get_id())
    if isinstance(v, Custom):
        return ("c", id(v.h))
    if isinstance(v, Opaque):
        return ("o", str(v.tag))
    if isinstance(v, Str):
        return ("s", v.s)
    if isinstance(v, NoneV):
        return ("n",)
    if isinstance(v, Opt):
        return ("opt", v.isnone.get_id(), _sig(v.val))
    if isinstance(v, Tup):
        return ("t", tuple(_sig(x) for x in v.items))
    return ("id", id(v))


def _is_recset(k):
    return isinstance(k, tuple) and len(k) == 3 and k[0] == "recset"


def ghost_sig(q):
    return tuple(sorted(((str(k), _sig(v)) for k, v in q.ghost.items() if not (isinstance(k, str) and k.startswith("locals:"))
                         and not _is_recset(k)), key=lambda kv: kv[0]))


class Choice:
    """scalar whose value depends on the path taken before a join: [(condition, value)]"""
    tracked = False

    def __init__(self, alts):
        self.alts = alts

    def attr(self, eng, p, name):
        raise Unsupported("attribute of a value that depends on the branch taken before a join")

    def call_method(self, eng, p, name, args, kw, node):
        raise Unsupported("method of a value that depends on the branch taken before a join")

    def truth(self, eng, p):
        raise Unsupported("truth of a value that depends on the branch taken before a join")


def _scalar_marker(v):
    return isinstance(v, (Opaque, NoneV)) or (isinstance(v, Custom) and isinstance(v.h, Choice))


def merge_val(x, y, cx):
    """value of a variable after the join: exact for ints / bools / optional ints (if-then-else on the path condition of the first path)"""
    if same_value(x, y):
        return x
    if isinstance(x, PyI) and isinstance(y, PyI):
        return PyI(z3.If(cx, x.z, y.z))
    if isinstance(x, PyB) and isinstance(y, PyB):
        return PyB(z3.If(cx, x.z, y.z))
    if isinstance(x, (NoneV, Opt, PyI, PyB)) and isinstance(y, (NoneV, Opt, PyI, PyB)) and (isinstance(x, (NoneV, Opt)) or isinstance(y, (NoneV, Opt))):
        vx, vy = (x.val if isinstance(x, Opt) else None if isinstance(x, NoneV) else x), (y.val if isinstance(y, Opt) else None if isinstance(y, NoneV) else y)
        nx = x.isnone if isinstance(x, Opt) else z3.BoolVal(isinstance(x, NoneV))
        ny = y.isnone if isinstance(y, Opt) else z3.BoolVal(isinstance(y, NoneV))
        if vx is None or vy is None:
            v = vx if vx is not None else vy
            return Opt(z3.simplify(z3.If(cx, nx, ny)), v)
        if same_value(vx, vy):
            return Opt(z3.simplify(z3.If(cx, nx, ny)), vx)
        if isinstance(vx, PyI) and isinstance(vy, PyI):
            return Opt(z3.simplify(z3.If(cx, nx, ny)), PyI(z3.If(cx, vx.z, vy.z)))
        if isinstance(vx, PyB) and isinstance(vy, PyB):
            return Opt(z3.simplify(z3.If(cx, nx, ny)), PyB(z3.If(cx, vx.z, vy.z)))
        return None
    if isinstance(x, NoneV) and isinstance(y, Custom):
        return Opt(cx, y)
    if isinstance(y, NoneV) and isinstance(x, Custom):
        return Opt(z3.Not(cx), x)
    if _scalar_marker(x) and _scalar_marker(y):
        ax = x.h.alts if isinstance(x, Custom) else [(z3.BoolVal(True), x)]
        ay = y.h.alts if isinstance(y, Custom) else [(z3.BoolVal(True), y)]
        return Custom(Choice([(z3.And(cx, c), v) for c, v in ax] + [(z3.And(z3.Not(cx), c), v) for c, v in ay]))
    if isinstance(x, Tup) and isinstance(y, Tup) and len(x.items) == len(y.items) and x.is_list == y.is_list:
        items = [merge_val(u, v, cx) for u, v in zip(x.items, y.items)]
        return None if any(i is None for i in items) else Tup(items, x.is_list)
    return None


def merge2(a, b, extra=None):
    """-> merged path or None.  extra = (va, vb): a value carried next to each path (return value of an inlined call)"""
    if a.ctl is not None or b.ctl is not None or len(a.stack) != len(b.stack) or len(a.axioms) != len(b.axioms):
        return None
    if ghost_sig(a) != ghost_sig(b):
        return None
    for (ea, _), (eb, _) in zip(a.stack, b.stack):
        if set(ea) != set(eb) or not all(same_value(ea[k], eb[k]) for k in ea):
            return None
    idb, ida = set(c.get_id() for c in b.pc), set(c.get_id() for c in a.pc)
    common = [c for c in a.pc if c.get_id() in idb]
    ra, rb = [c for c in a.pc if c.get_id() not in idb], [c for c in b.pc if c.get_id() not in ida]
    ca = z3.And(*ra) if ra else z3.BoolVal(True)
    cb = z3.And(*rb) if rb else z3.BoolVal(True)
    env = {}
    for v in set(a.env) | set(b.env):
        x, y = a.env.get(v), b.env.get(v)
        if x is None or y is None:
            continue                     # bound on one side only: unbound after the join (a later read is flagged as a global)
        m = merge_val(x, y, ca)
        if m is None:
            return None
        env[v] = m
    ev = None
    if extra is not None:
        ev = merge_val(extra[0], extra[1], ca)
        if ev is None:
            return None
    recs = {}
    for key in set(k for k in list(a.ghost) + list(b.ghost) if _is_recset(k)):
        dflt = _RECS[key[1]].fields.get(key[2], NONE)
        mv = merge_val(a.ghost.get(key, dflt), b.ghost.get(key, dflt), ca)
        if mv is None:
            return None
        recs[key] = mv
    m = a.fork()
    m.ghost.update(recs)
    m.pc = common + [z3.simplify(z3.Or(ca, cb))]
    m.env = env
    m.opq = {k: v for k, v in a.opq.items() if k in b.opq and (b.opq[k] is v or (z3.is_expr(v) and z3.is_expr(b.opq[k]) and v.eq(b.opq[k]))
                                                              or (not z3.is_expr(v) and not z3.is_expr(b.opq[k]) and same_value(v, b.opq[k])))}
    m.ghost = {k: v for k, v in m.ghost.items() if not (isinstance(k, str) and k.startswith("locals:"))}
    return m, ev


def merge_paths(paths):
    reps = []
    for q in paths:
        for k, r in enumerate(reps):
            m = merge2(r, q)
            if m is not None:
                reps[k] = m[0]
                break
        else:
            reps.append(q)
    return reps


def merge_results(pairs):
    """[(path, value)] of an inlined call"""
    reps = []
    for q, v in pairs:
        for k, (r, rv) in enumerate(reps):
            m = merge2(r, q, (rv, v)) if r.ctl is None and q.ctl is None else None
            if m is not None:
                reps[k] = m
                break
        else:
            reps.append((q, v))
    return reps


class AnyMask:
    """element-wise comparison whose content is not modelled (dic2 != dic)"""
    tracked = False

    def call_method(self, eng, p, name, args, kw, node):
        if name in ("any", "all"):
            return [(p, PyB(fbool("arrays_differ")))]
        raise Unsupported("comparison result." + name)


# ---- handlers shared by the runs -------------------------------------------------------------------------------------------------
NP_ITEM = {"uint8": 1, "int8": 1, "bool_": 1, "bool": 1, "int16": 2, "uint16": 2, "int32": 4, "uint32": 4, "int64": 8, "uint64": 8,
           "float32": 4, "float64": 8}


def dtype_item(eng, p, node, val):
    """element size of the dtype argument of np.empty / np.zeros / np.frombuffer: from the evaluated value (np.<name>, '<name>',
    assign.dtype) or - for the literal forms - from the source text of the argument"""
    if isinstance(val, Opaque) and isinstance(val.tag, tuple) and len(val.tag) == 2 and val.tag[0] == "global:np" and val.tag[1] in NP_ITEM:
        return z3.IntVal(NP_ITEM[val.tag[1]])
    if isinstance(val, Str) and val.s in NP_ITEM:
        return z3.IntVal(NP_ITEM[val.s])
    if isinstance(val, Custom) and isinstance(val.h, DTypeObj):
        return val.h.root.item
    if isinstance(val, Opaque) and val.tag == "global:bool":
        return z3.IntVal(1)
    # 'int%i' % bit_width
    if isinstance(node, ast.BinOp) and isinstance(node.op, ast.Mod) and isinstance(node.left, ast.Constant) and node.left.value == "int%i":
        bw = eng.as_int(eng.ev1(node.right, p), p)
        return bw / 8
    raise Unsupported("dtype " + (ast.unparse(node) if node is not None else "?"))


def base_handlers(S, hooks=None):
    hooks = hooks or {}

    def h_empty(eng, p, args, kw, node):
        n = eng.as_int(args[0], p)
        dnode = next((k.value for k in node.keywords if k.arg == "dtype"), node.args[1] if len(node.args) > 1 else None)
        dval = kw.get("dtype") or (args[1] if len(args) > 1 else None)
        fname = ast.unparse(node.func)
        item = dtype_item(eng, p, dnode, dval)
        eng.oblige(p, f"{eng.cur_func}.allocation_size_nonnegative@L{node.lineno}", "safety", n >= 0, node)
        root = Root(f"{fname}@L{node.lineno}", n, item)
        if fname == "np.zeros":
            set_content(p, root, ("zeros",))
        emit(p, kind="alloc", root=root, line=node.lineno)
        return [(p, Custom(Arr(root)))]

    def h_numpyio(eng, p, args, kw, node):
        a = unopt(args[0])
        if isinstance(a, Custom) and isinstance(a.h, Bts):
            return [(p, Custom(IOBuf(a.h, a.h.n, name=f"NumpyIO@L{node.lineno}")))]
        if isinstance(a, Custom) and isinstance(a.h, Arr):
            return [(p, Custom(IOBuf(None, a.h.nbytes(), arr=a.h, name=f"NumpyIO(out)@L{node.lineno}")))]
        raise Unsupported("NumpyIO over " + type(getattr(a, "h", a)).__name__)

    def h_width(eng, p, args, kw, node):
        x = eng.as_int(args[0], p)
        p.pc += width_facts(x)
        return [(p, PyI(WIDTH(x)))]

    def h_hybrid(eng, p, args, kw, node):
        names = ["io_obj", "width", "length", "o", "itemsize"]
        a = dict(zip(names, args))
        a.update(kw)
        io, o = unopt(a["io_obj"]), unopt(a["o"])
        if not (isinstance(io, Custom) and isinstance(io.h, IOBuf) and io.h.arr is None and isinstance(o, Custom)
                and isinstance(o.h, IOBuf) and o.h.arr is not None):
            raise Unsupported("read_rle_bit_packed_hybrid argument shapes")
        io, o = io.h, o.h
        width, length = eng.as_int(a["width"], p), eng.as_int(a["length"], p)
        item = eng.as_int(a["itemsize"], p) if "itemsize" in a else z3.IntVal(4)
        pos, reg = io.pos(p), io.base.region
        outs = []
        # (a) length == 0: the 4-byte length prefix is read
        q = p.fork(length == 0)
        if eng.feasible(q):
            L = LEN32(reg.rid, io.abs(q))
            q.pc += [L >= 0]
            emit(q, kind="hybrid", io=io, region=reg, prefix_at=io.abs(q), start=z3.simplify(io.abs(q) + 4), nbytes=L, width=width, out=o.arr,
                 cap=o.arr.n, itemsize=item, length_arg=length, line=node.lineno, func=eng.cur_func)
            io.set(q, pos + 4 + L)
            o.set(q, o.nbytes)
            set_content(q, o.arr.root, ("hybrid", len(q.ghost["ev"]) - 1))
            outs.append((q, NONE))
        # (b) a byte length is given
        q = p.fork(length != 0)
        if eng.feasible(q):
            c = fint("bytes_consumed_by_runs")
            q.pc += [c >= 0, c <= zmax(length, 0)]
            emit(q, kind="hybrid", io=io, region=reg, prefix_at=None, start=io.abs(q), nbytes=length, width=width, out=o.arr, cap=o.arr.n,
                 itemsize=item, length_arg=length, line=node.lineno, func=eng.cur_func)
            io.set(q, pos + c)
            o.set(q, o.nbytes)
            set_content(q, o.arr.root, ("hybrid", len(q.ghost["ev"]) - 1))
            if "hybrid" in hooks:
                hooks["hybrid"](eng, q, q.ghost["ev"][-1])
            outs.append((q, NONE))
        return outs

    def h_delta(eng, p, args, kw, node):
        io, o = unopt(args[0]), unopt(args[1])
        if not (isinstance(io, Custom) and isinstance(io.h, IOBuf) and isinstance(o, Custom) and isinstance(o.h, IOBuf) and o.h.arr is not None):
            raise Unsupported("delta_binary_unpack argument shapes")
        io, o = io.h, o.h
        lv = kw.get("longval", args[2] if len(args) > 2 else PyB(False))
        emit(p, kind="delta", io=io, region=io.base.region, start=io.abs(p), out=o.arr, cap=o.arr.n, longval=eng.truth(lv, p),
             line=node.lineno)
        c = fint("bytes_consumed_by_delta")
        p.pc += [c >= 0]
        io.set(p, io.pos(p) + c)
        set_content(p, o.arr.root, ("delta", len(p.ghost["ev"]) - 1))
        return [(p, NONE)]

    def h_varint(eng, p, args, kw, node):
        io = unopt(args[0])
        if not (isinstance(io, Custom) and isinstance(io.h, IOBuf)):
            raise Unsupported("read_unsigned_var_int argument")
        io = io.h
        v, ln = UVAR(io.base.region.rid, io.abs(p)), UVARLEN(io.base.region.rid, io.abs(p))
        p.pc += [v >= 0, ln >= 1, ln <= 5]
        emit(p, kind="varint", io=io, pos=io.abs(p), value=v, line=node.lineno)
        io.set(p, io.pos(p) + ln)
        return [(p, PyI(v))]

    def h_frombuffer(eng, p, args, kw, node):
        b = unopt(args[0])
        dnode = next((k.value for k in node.keywords if k.arg == "dtype"), node.args[1] if len(node.args) > 1 else None)
        if isinstance(b, Custom) and isinstance(b.h, Bts):
            if dnode is not None and ast.unparse(dnode) in ("'uint8'", '"uint8"', "np.uint8"):
                return [(p, b)]
            # a typed view of the bytes (dictionary-index fast path): item size unknown here
            dval = kw.get("dtype") or (args[1] if len(args) > 1 else None)
            item = dtype_item(eng, p, dnode, dval)
            p.pc += [item >= 1]
            root = Root(f"np.frombuffer@L{node.lineno}", fint("frombuffer_len"), item)
            p.pc += [root.n >= 0, root.n * item <= b.h.n, (root.n + 1) * item > b.h.n]
            set_content(p, root, ("raw", b.h))
            emit(p, kind="frombuffer", root=root, bts=b.h, line=node.lineno)
            return [(p, Custom(Arr(root)))]
        raise Unsupported("np.frombuffer over " + type(getattr(b, "h", b)).__name__)

    def h_decompress(eng, p, args, kw, node):
        b = unopt(args[0])
        if not (isinstance(b, Custom) and isinstance(b.h, Bts)):
            raise Unsupported("decompress_data over " + type(getattr(b, "h", b)).__name__)
        size = eng.as_int(args[1], p)
        c = args[2] if len(args) > 2 else kw.get("algorithm", Str("gzip"))
        if isinstance(c, Str):
            code = z3.IntVal(CODEC[c.s.upper()]) if c.s.upper() in CODEC else None
            if code is None:
                raise Unsupported("codec name " + c.s)
        else:
            code = eng.as_int(c, p)
        n = z3.simplify(z3.If(code == 0, b.h.n, size))
        reg = Region(f"decompressed@L{node.lineno}", n, prov=("decomp", b.h, code, size))
        emit(p, kind="decompress", src=b.h, codec=code, size=size, region=reg, line=node.lineno)
        return [(p, Custom(Bts(reg, z3.IntVal(0), n)))]

    def h_read_plain(eng, p, args, kw, node):
        names = ["raw_bytes", "type_", "count", "width", "utf", "stat"]
        a = dict(zip(names, args))
        a.update(kw)
        b = unopt(a["raw_bytes"])
        if not (isinstance(b, Custom) and isinstance(b.h, Bts)):
            raise Unsupported("read_plain over " + type(getattr(b, "h", b)).__name__)
        cnt = eng.as_int(a["count"], p)
        root = Root(f"read_plain@L{node.lineno}", cnt, fint("plain_itemsize"))
        emit(p, kind="plain", bts=b.h, count=cnt, ptype=eng.as_int(a["type_"], p), out=root, line=node.lineno, func=eng.cur_func)
        set_content(p, root, ("plain", len(p.ghost["ev"]) - 1))
        return [(p, Custom(Arr(root)))]

    def h_unpack_byte_array(eng, p, args, kw, node):
        b = unopt(args[0])
        if not (isinstance(b, Custom) and isinstance(b.h, Bts)):
            raise Unsupported("unpack_byte_array over " + type(getattr(b, "h", b)).__name__)
        cnt = eng.as_int(args[1], p)
        root = Root(f"unpack_byte_array@L{node.lineno}", cnt, fint("object_itemsize"))
        emit(p, kind="plain", bts=b.h, count=cnt, ptype=z3.IntVal(TY["BYTE_ARRAY"]), out=root, line=node.lineno, func=eng.cur_func)
        set_content(p, root, ("plain", len(p.ghost["ev"]) - 1))
        return [(p, Custom(Arr(root)))]

    def h_convert(eng, p, args, kw, node):
        x = unopt(args[0])
        if isinstance(x, Custom) and isinstance(x.h, (Arr, DictVal, Lookup, Conv)):
            if isinstance(x.h, Arr) and x.h.root.name == "assign":
                emit(p, kind="convert_inplace", tgt=x.h, line=node.lineno)
                return [(p, args[0])]
            if isinstance(x.h, DictVal):
                return [(p, Custom(DictVal(x.h.page, x.h.n, converted=True, raw=x.h)))]
            return [(p, Custom(Conv(x)))]
        raise Unsupported("convert of " + type(getattr(x, "h", x)).__name__)

    def h_int(eng, p, args, kw, node):
        return [(p, PyI(eng.as_int(args[0], p)))]

    def h_getattr(eng, p, args, kw, node):
        o, nm = args[0], args[1]
        if not isinstance(nm, Str):
            raise Unsupported("getattr with a computed name")
        if isinstance(o, NoneV):
            return [(p, args[2])] if len(args) > 2 else [(raise_path(p, "AttributeError", node), NONE)]
        if isinstance(o, Custom) and hasattr(o.h, "getattr_default") and len(args) > 2:
            return [(p, o.h.getattr_default(eng, p, nm.s, args[2]))]
        return [(p, eng.getattr(o, nm.s, p, node))]

    def h_hasattr(eng, p, args, kw, node):
        o, nm = args[0], args[1]
        if isinstance(o, Custom) and hasattr(o.h, "hasattr"):
            return [(p, PyB(o.h.hasattr(eng, p, nm.s)))]
        if isinstance(o, Custom) and isinstance(o.h, Rec):
            return [(p, PyB(nm.s in o.h.fields))]
        if isinstance(o, NoneV):
            return [(p, PyB(False))]
        return [(p, PyB(fbool("hasattr_" + nm.s)))]

    def h_min(eng, p, args, kw, node):
        if len(args) == 1 and isinstance(args[0], Tup) and len(args[0].items) == 2:
            a, b = (eng.as_int(x, p) for x in args[0].items)
            return [(p, PyI(zmin(a, b)))]
        if len(args) == 2:
            a, b = (eng.as_int(x, p) for x in args)
            return [(p, PyI(zmin(a, b)))]
        raise Unsupported("min shape")

    def h_len(eng, p, args, kw, node):
        from vc.symexec import BUILTINS
        v = args[0]
        if isinstance(v, Opt):
            eng.oblige(p, f"{eng.cur_func}.no_len_of_None@L{node.lineno}", "safety", z3.Not(v.isnone), node)
            v = v.val
        return BUILTINS["len"](eng, p, [v], kw, node)

    def h_not_equal(eng, p, args, kw, node):
        a = unopt(args[0])
        out = unopt(kw.get("out"))
        if not (isinstance(a, Custom) and isinstance(a.h, Arr) and isinstance(out, Custom) and isinstance(out.h, Arr)
                and a.h.root is out.h.root):
            raise Unsupported("np.not_equal shape")
        if not (a.h.view == "bytes" and a.h.role == out.h.role):
            raise Unsupported("np.not_equal shape")
        m = CmpMask(out.h._like(view="elem"), "!=", eng.as_int(args[1], p))
        p.ghost[("asmask", out.h.root.id, out.h.role)] = m
        emit(p, kind="not_equal_inplace", arr=out.h, val=m.val, line=node.lineno)
        return [(p, Custom(m))]

    return {"np.empty": h_empty, "np.zeros": h_empty, "encoding.NumpyIO": h_numpyio, "encoding.width_from_max_int": h_width,
            "encoding.read_rle_bit_packed_hybrid": h_hybrid, "encoding.delta_binary_unpack": h_delta,
            "encoding.read_unsigned_var_int": h_varint, "np.frombuffer": h_frombuffer, "decompress_data": h_decompress,
            "read_plain": h_read_plain, "unpack_byte_array": h_unpack_byte_array, "convert": h_convert, "int": h_int,
            "getattr": h_getattr, "hasattr": h_hasattr, "min": h_min, "np.not_equal": h_not_equal, "len": h_len}


# ---- discharge -----------------------------------------------------------------------------------------------------------------
def short_model(m):
    if m is None:
        return None
    d = {}
    for dcl in m.decls():
        nm = dcl.name()
        if dcl.arity() == 0 and not nm.startswith(("opq", "isinst", "streq", "truth", "in!", "isnone", "len!", "hasattr", "any", "k!")):
            d[nm] = str(m[dcl])
    return dict(sorted(d.items())[:48])


OUTSIDE = "[outside the regions of the recorded findings]"


def discharge(res, eng, timeout, rename=None):
    """consecutive obligations with the same hypotheses share one solver.  A REFUTED obligation whose path carries a `region` (the
    union of the input regions of the findings recorded for this function) is posed a second time with the region excluded, under
    the name + OUTSIDE: on the unchanged tree that one is PROVED, i.e. every counter-model lies inside a recorded finding."""
    from vc import backends
    cur_key, sol = None, None
    for ob in eng.oblig:
        t = time.time()
        name = rename(ob.name) if rename else ob.name
        if z3.is_true(ob.goal):
            res.add(name, PROVED, None, 0.0, "simplify", ob.note or ob.kind)
            continue
        key = tuple(c.get_id() for c in ob.pc) + tuple(c.get_id() for c in ob.axioms)
        if key != cur_key:
            sol = z3.Solver()
            sol.set("timeout", backends.scaled_timeout(timeout))
            sol.add(*ob.pc)
            sol.add(*ob.axioms)
            cur_key = key
        sol.push()
        sol.add(z3.Not(ob.goal))
        r = sol.check()
        m = sol.model() if r == z3.sat else None
        region = getattr(ob, "region", None)
        r2 = m2 = None
        t2 = time.time()
        if r == z3.sat and region is not None:
            sol.add(z3.Not(region))
            r2 = sol.check()
            m2 = sol.model() if r2 == z3.sat else None
        sol.pop()
        if r == z3.unsat:
            res.add(name, PROVED, None, time.time() - t, "z3", ob.note or ob.kind)
        elif r == z3.sat:
            res.add(name, REFUTED, short_model(m), t2 - t, "z3", ob.note or ob.kind)
            if region is not None:
                st2 = PROVED if r2 == z3.unsat else REFUTED if r2 == z3.sat else UNKNOWN
                res.add(name + OUTSIDE, st2, short_model(m2), time.time() - t2, "z3", ob.note or ob.kind)
        else:
            st, be, secs, m = backends.discharge(ob, timeout)
            res.add(name, st, short_model(m), secs, be, ob.note or ob.kind)
    eng.oblig = []


# ---- page headers -----------------------------------------------------------------------------------------------------------------
class PageSym:
    """the header fields of one page as z3 terms; mk(name) makes the term (a constant for a single page, F(k) for page k of a chunk)"""

    def __init__(self, mk):
        self.type, self.cps, self.ups, self.hl = mk("type"), mk("compressed_page_size"), mk("uncompressed_page_size"), mk("header_length")
        self.nv, self.enc = mk("data_page_header.num_values"), mk("data_page_header.encoding")
        self.dle, self.rle = mk("data_page_header.definition_level_encoding"), mk("data_page_header.repetition_level_encoding")
        self.nv2, self.nn2, self.nr2 = (mk("data_page_header_v2." + x) for x in ("num_values", "num_nulls", "num_rows"))
        self.enc2 = mk("data_page_header_v2.encoding")
        self.dl, self.rl = mk("data_page_header_v2.definition_levels_byte_length"), mk("data_page_header_v2.repetition_levels_byte_length")
        self.isc_none, self.isc = mk("data_page_header_v2.is_compressed_is_None", B), mk("data_page_header_v2.is_compressed", B)
        self.dnv, self.denc = mk("dictionary_page_header.num_values"), mk("dictionary_page_header.encoding")
        self.daph = Rec("DataPageHeader", {"num_values": PyI(self.nv), "encoding": PyI(self.enc), "definition_level_encoding": PyI(self.dle),
                                           "repetition_level_encoding": PyI(self.rle), "statistics": Opaque("daph.statistics")})
        self.daph2 = Rec("DataPageHeaderV2", {"num_values": PyI(self.nv2), "num_nulls": PyI(self.nn2), "num_rows": PyI(self.nr2),
                                              "encoding": PyI(self.enc2), "definition_levels_byte_length": PyI(self.dl),
                                              "repetition_levels_byte_length": PyI(self.rl),
                                              "is_compressed": Opt(self.isc_none, PyB(self.isc)), "statistics": Opaque("daph2.statistics")})
        self.dph = Rec("DictionaryPageHeader", {"num_values": PyI(self.dnv), "encoding": PyI(self.denc)})
        self.ph = Rec("PageHeader", {"type": PyI(self.type), "compressed_page_size": PyI(self.cps), "uncompressed_page_size": PyI(self.ups),
                                     "data_page_header": Opt(self.type != PT["DATA_PAGE"], Custom(self.daph)),
                                     "data_page_header_v2": Opt(self.type != PT["DATA_PAGE_V2"], Custom(self.daph2)),
                                     "dictionary_page_header": Opt(self.type != PT["DICTIONARY_PAGE"], Custom(self.dph))})
        self.pre = [self.hl >= 1, self.cps >= 0, self.ups >= 0, self.type >= 0, self.type <= 3,
                    self.nv >= 1, self.nv2 >= 1, self.nn2 >= 0, self.nn2 <= self.nv2, self.dl >= 0, self.rl >= 0, self.dnv >= 0,
                    self.enc >= 0, self.enc <= 9, self.enc2 >= 0, self.enc2 <= 9, self.denc >= 0, self.denc <= 9,
                    z3.Or(self.dle == ENC["RLE"], self.dle == ENC["BIT_PACKED"]), z3.Or(self.rle == ENC["RLE"], self.rle == ENC["BIT_PACKED"])]


def const_page(prefix="ph."):
    return PageSym(lambda name, sort=I: z3.Const(prefix + name, sort))


def in_set(x, vals):
    return z3.Or(*[x == v for v in vals])


def page_bytes_obligations(eng, q, fn, f, entry, page, S, body_needed=True):
    """_read_page: the page body is the compressed_page_size bytes at the cursor, decompressed with the chunk's codec to
    uncompressed_page_size bytes; -> the body region (or None)"""
    reads = [e for e in events(q, "read") if e["io"] is f]
    decs = events(q, "decompress")
    ok_read = len(reads) == 1
    eng.pose(q, fn + ".page_bytes.read_at_cursor_exactly_compressed_page_size",
             z3.And(reads[0]["pos"] == entry, reads[0]["asked"] == page.cps, reads[0]["got"] == page.cps, f.pos(q) == entry + page.cps)
             if ok_read else z3.BoolVal(False),
             "one read of compressed_page_size bytes at the cursor; the cursor ends at the next page header")
    ok_dec = ok_read and len(decs) == 1 and decs[0]["src"] is reads[0]["bts"]
    eng.pose(q, fn + ".page_bytes.decompressed_with_chunk_codec_to_uncompressed_page_size",
             z3.And(decs[0]["codec"] == S.codec, decs[0]["size"] == page.ups) if ok_dec else z3.BoolVal(False),
             "the bytes read are decompressed once, with ColumnMetaData.codec, to uncompressed_page_size bytes")
    return decs[0]["region"] if ok_dec else None


def pose_schema_element(eng, q, fn):
    """the schema element used for width / converted type / encoding decisions is the one AT the chunk's path_in_schema in the schema
    tree (SchemaHelper.schema_element(path): the tree walk, contracts c03_schematree), never a lookup keyed by the leaf name alone"""
    ls = events(q, "schema_lookup")
    eng.pose(q, fn + ".schema_element_is_the_one_at_the_chunks_path", z3.BoolVal(all(e["how"] == "path" and e["own"] for e in ls)),
             "every schema element this function looks up is helper.schema_element(cmd.path_in_schema); leaf names are not unique (every "
             "3-level LIST has a leaf `element`), a lookup by leaf name returns another column's element"
             + ("" if all(e["how"] == "path" and e["own"] for e in ls) else " [looked up by: %s]" % ", ".join(
                 "%s at L%d" % (e["how"] if e["how"] != "path" else "another path", e["line"]) for e in ls if not (e["how"] == "path" and e["own"]))))


def run_paths(eng, name, p, args, kw=None):
    outs = eng.run(name, p, args, kw or {})
    rets = [q for q in outs if q.ctl[0] == "ret"]
    raises = [q for q in outs if q.ctl[0] == "raise"]
    return rets, raises


def raise_line(q):
    for kind, ln in reversed(q.trace):
        if kind == "raise":
            return ln
    return 0


# ---- read_dictionary_page -----------------------------------------------------------------------------------------------------------
def run_dictionary_page(ctx, funcs, timeout):
    res = Results()
    fn = "read_dictionary_page"
    S = Schema()
    page = const_page()
    chunk = Region("column chunk", z3.Int("chunk_len"))
    f = IOBuf(Bts(chunk, z3.IntVal(0), chunk.n), chunk.n, name="infile")
    entry = z3.Int("cursor_at_entry")
    eng = PEngine(funcs=funcs, handlers=base_handlers(S), inline=("_read_page",), opaque_calls=True)
    p = Path()
    p.pc += S.pre + page.pre + [page.type == PT["DICTIONARY_PAGE"], page.cps >= 1, page.ups >= 1, z3.Implies(S.codec == 0, page.cps == page.ups),
                                entry >= 0, entry + page.cps <= chunk.n]
    f.set(p, entry)
    st, _, _ = solve(list(p.pc), timeout)
    if st == REFUTED:
        ctx.vacuity["requires_sat"] += 1
    else:
        ctx.engine_error(fn + ": precondition unsatisfiable")
    try:
        rets, raises = run_paths(eng, fn, p, [Custom(f), Custom(S.helper), Custom(page.ph), Custom(S.cmd)], {"utf": PyB(z3.Bool("utf"))})
    except Unsupported as ex:
        res.add(fn + ".out_of_reach", UNKNOWN, None, 0.0, "engine", str(ex))
        return res
    eng.default_region = z3.Not(in_set(page.denc, (ENC["PLAIN"], ENC["PLAIN_DICTIONARY"])))
    for q in rets:
        pose_schema_element(eng, q, fn)
        body = page_bytes_obligations(eng, q, fn, f, entry, page, S)
        pl = events(q, "plain")
        ok = body is not None and len(pl) == 1
        eng.pose(q, fn + ".count_is_header_num_values", pl[0]["count"] == page.dnv if ok else z3.BoolVal(False),
                 "the number of values decoded from a dictionary page is dictionary_page_header.num_values")
        eng.pose(q, fn + ".decodes_whole_page_as_plain",
                 z3.And(z3.BoolVal(pl[0]["bts"].region is body), pl[0]["bts"].a == 0, pl[0]["bts"].n == body.n, pl[0]["ptype"] == S.ptype)
                 if ok else z3.BoolVal(False), "PLAIN decode of the column's physical type from the first byte of the uncompressed page")
        r = unopt(q.ctl[1])
        ok_r = ok and isinstance(r, Custom) and isinstance(r.h, Arr) and r.h.root is pl[0]["out"]
        eng.pose(q, fn + ".returns_the_decoded_values", z3.And(r.h.off == 0, r.h.n == page.dnv) if ok_r else z3.BoolVal(False),
                 "returns exactly the num_values decoded entries")
        eng.pose(q, fn + ".non_plain_dictionary_page_raises", in_set(page.denc, (ENC["PLAIN"], ENC["PLAIN_DICTIONARY"])),
                 "a dictionary page whose header declares another encoding than PLAIN (legacy: PLAIN_DICTIONARY) is refused, not decoded as PLAIN")
    for q in raises:
        eng.pose(q, f"{fn}.supported_page_is_not_refused@L{raise_line(q)}",
                 z3.Not(in_set(page.denc, (ENC["PLAIN"], ENC["PLAIN_DICTIONARY"]))), "a valid PLAIN dictionary page is decoded, not refused")
    if not rets:
        ctx.engine_error(fn + ": no returning path")
    ctx.vacuity["covers"] += len(rets)
    for q in rets[:1]:
        pl = events(q, "plain")
        if pl:
            stt, _, _ = solve(list(q.pc) + [pl[0]["count"] != page.dnv + 1], timeout)
            if stt == REFUTED:
                ctx.vacuity["must_fail_sat"] += 1
    discharge(res, eng, timeout)
    res.stats = {"paths_ret": len(rets), "paths_raise": len(raises)}
    return res


# ---- read_data_page (v1) ------------------------------------------------------------------------------------------------------------
def v1_handlers(S):
    h = base_handlers(S)

    def h_skip(eng, p, args, kw, node):
        io = unopt(args[0])
        if not (isinstance(io, Custom) and isinstance(io.h, IOBuf)):
            raise Unsupported("skip_definition_bytes argument")
        io = io.h
        L = LEN32(io.base.region.rid, io.abs(p))
        p.pc.append(L >= 0)
        emit(p, kind="skipdef", io=io, at=io.abs(p), num=eng.as_int(args[1], p), line=node.lineno)
        io.set(p, io.pos(p) + 4 + L)
        return [(p, NONE)]
    h["skip_definition_bytes"] = h_skip
    return h


def run_data_page_v1(ctx, funcs, timeout):
    res = Results()
    fn = "read_data_page"
    S = Schema()
    page = const_page()
    chunk = Region("column chunk", z3.Int("chunk_len"))
    f = IOBuf(Bts(chunk, z3.IntVal(0), chunk.n), chunk.n, name="infile")
    entry = z3.Int("cursor_at_entry")
    skip, selfmade = z3.Bool("skip_nulls"), z3.Bool("selfmade")
    loop = next(k for k, n in enumerate(sorted([n for n in ast.walk(funcs["read_data"].tree) if isinstance(n, (ast.For, ast.While))],
                                               key=lambda n: (n.lineno, n.col_offset))) if isinstance(n, ast.While))
    eng = PEngine(funcs=funcs, handlers=v1_handlers(S), inline=("_read_page", "read_rep", "read_def", "read_data"), opaque_calls=True,
                  loops={("read_data", loop): LoopSpec("unroll", 1)})
    p = Path()
    NV, E = page.nv, page.enc
    p.pc += S.pre + page.pre + [page.type == PT["DATA_PAGE"], page.cps >= 1, page.ups >= 1, z3.Implies(S.codec == 0, page.cps == page.ups),
                                entry >= 0, entry + page.cps <= chunk.n,
                                z3.Implies(skip, z3.And(selfmade, S.null_count == 0)),
                                z3.Implies(E == ENC["RLE"], S.ptype == TY["BOOLEAN"]),
                                z3.Implies(E == ENC["DELTA_BINARY_PACKED"], z3.Or(S.ptype == TY["INT32"], S.ptype == TY["INT64"]))]
    p.pc += width_facts(S.max_def) + width_facts(S.max_rep)
    f.set(p, entry)
    # input region of the open finding recorded for read_data_page: BIT_PACKED levels decoded as RLE.  (RLE booleans whose length prefix
    # was not skipped and dictionary-encoded BOOLEAN pages whose width byte was not consumed are repaired in /repo: c8ef5ea, efe7e45 -
    # their obligations are plain obligations again)
    # (BIT_PACKED levels decoded as RLE: repaired in the working tree of /repo as well - read_def / read_rep hand the declared level
    # encoding to read_data, which raises for anything but RLE; no open region is left for this function)
    eng.default_region = None
    st, _, _ = solve(list(p.pc), timeout)
    if st == REFUTED:
        ctx.vacuity["requires_sat"] += 1
    else:
        ctx.engine_error(fn + ": precondition unsatisfiable")
    try:
        rets, raises = run_paths(eng, fn, p, [Custom(f), Custom(S.helper), Custom(page.ph), Custom(S.cmd), PyB(skip)], {"selfmade": PyB(selfmade)})
    except Unsupported as ex:
        res.add(fn + ".out_of_reach", UNKNOWN, None, 0.0, "engine", str(ex))
        return res
    supported = in_set(E, SUPPORTED)
    n_must_fail = 0
    for q in rets:
        pose_schema_element(eng, q, fn)
        body = page_bytes_obligations(eng, q, fn, f, entry, page, S)
        eng.pose(q, fn + ".unsupported_encoding_raises", supported,
                 "a page whose value encoding is outside PLAIN / PLAIN_DICTIONARY / RLE_DICTIONARY / RLE / DELTA_BINARY_PACKED reaches a raise")
        if body is None:
            continue
        bid = body.rid
        # ---- the layout the FORMAT prescribes for this body
        has_rep, has_def = S.max_rep > 0, S.max_def > 0
        r_end = z3.If(has_rep, 4 + LEN32(bid, 0), 0)
        d_end = z3.If(has_def, r_end + 4 + LEN32(bid, r_end), r_end)
        valid = [LEN32(bid, 0) >= 0, LEN32(bid, r_end) >= 0, d_end <= body.n, body.n == z3.If(S.codec == 0, page.cps, page.ups)]
        q = q.fork()
        q.pc += valid
        lev = [e for e in events(q, "hybrid") if e["prefix_at"] is not None and e["region"] is body and e["func"] == "read_data"]
        skips = [e for e in events(q, "skipdef") if e["io"].base.region is body]
        reads_def = z3.And(z3.Not(S.required), z3.Not(skip))
        eng.pose(q, fn + ".levels.blocks_decoded_are_the_blocks_present",
                 z3.IntVal(len(lev)) == z3.If(has_rep, 1, 0) + z3.If(reads_def, 1, 0),
                 "one RLE level block is decoded for repetition levels iff max_rep > 0, one for definition levels iff the column is "
                 "not required (unless the block is skipped for a selfmade chunk without nulls)")
        rep_ev = def_ev = None
        if len(lev) == 2:
            rep_ev, def_ev = lev
        elif len(lev) == 1:
            # which one it is follows from the path condition
            if not eng.feasible(q, z3.Not(has_rep)):
                rep_ev = lev[0]
            else:
                def_ev = lev[0]

        def conform(e, at, mx):
            return z3.And(e["prefix_at"] == at, e["width"] == WIDTH(mx), e["cap"] == NV, e["out"].root.n == NV, e["out"].off == 0)
        if rep_ev is not None:
            eng.pose(q, fn + ".rep_levels.first_in_page_with_length_prefix", z3.And(has_rep, rep_ev["prefix_at"] == 0),
                     "repetition levels: 4-byte length + runs at offset 0 of the page body")
            eng.pose(q, fn + ".levels.width_is_width_from_max_level", rep_ev["width"] == WIDTH(S.max_rep))
            eng.pose(q, fn + ".levels.count_is_num_values", z3.And(rep_ev["cap"] == NV, rep_ev["out"].root.n == NV, rep_ev["out"].off == 0))
            eng.pose(q, fn + ".levels.declared_encoding_is_the_one_decoded", page.rle == ENC["RLE"],
                     "levels are decoded as RLE hybrid only if the header declares RLE (deprecated BIT_PACKED must be refused or decoded as such)")
        if def_ev is not None:
            eng.pose(q, fn + ".def_levels.after_rep_levels_with_length_prefix", z3.And(reads_def, def_ev["prefix_at"] == r_end),
                     "definition levels: 4-byte length + runs directly after the repetition level block (offset 0 for a flat column)")
            eng.pose(q, fn + ".levels.width_is_width_from_max_level", def_ev["width"] == WIDTH(S.max_def))
            eng.pose(q, fn + ".levels.count_is_num_values", z3.And(def_ev["cap"] == NV, def_ev["out"].root.n == NV, def_ev["out"].off == 0))
            eng.pose(q, fn + ".levels.declared_encoding_is_the_one_decoded", page.dle == ENC["RLE"],
                     "levels are decoded as RLE hybrid only if the header declares RLE (deprecated BIT_PACKED must be refused or decoded as such)")
        eng.pose(q, fn + ".def_levels.skipped_block_only_when_no_nulls",
                 z3.And(z3.BoolVal(len(skips) <= 1), z3.And(skip, z3.Not(S.required), skips[0]["at"] == r_end, skips[0]["num"] == NV)
                        if skips else z3.BoolVal(True)),
                 "the definition block is skipped unread only for a selfmade chunk whose statistics say null_count == 0, at its own offset")
        # ---- number of nulls
        loc = q.ghost.get("locals:" + fn, {})
        nn_code = loc.get("num_nulls")
        if def_ev is not None:
            cnt = CNT(def_ev["out"].root.aid, S.max_def)
            q.pc += [cnt >= 0, cnt <= NV]
            nn_spec = z3.If(z3.Or(S.required, skip), 0, NV - cnt)
        else:
            nn_spec = z3.IntVal(0)
        eng.pose(q, fn + ".num_nulls_is_num_values_minus_defined",
                 eng.as_int(nn_code, q) == nn_spec if isinstance(nn_code, (PyI, PyB)) else z3.BoolVal(False),
                 "num_nulls == num_values - count(definition level == max_definition_level) of THIS page's level array (0 for a required column)")
        nval = NV - nn_spec
        # a valid values section is not cut short: index runs follow the width byte, boolean runs follow their length prefix
        q.pc += [z3.Implies(z3.And(in_set(E, DICT_ENCS), nval >= 1, BYTE(bid, d_end) >= 1), d_end + 1 < body.n),
                 z3.Implies(z3.And(E == ENC["RLE"], nval >= 1), d_end + 4 < body.n), z3.Implies(nval >= 1, d_end < body.n)]
        # ---- values
        io_body = [e for e in q.ghost.get("ev", []) if e["kind"] in ("read", "read_byte", "hybrid", "delta", "varint", "seek") and
                   e.get("io") is not None and e["io"].base is not None and e["io"].base.region is body and e not in lev]
        first = io_body[0] if io_body else None

        def ev_pos(e):
            return {"read": lambda: e["pos"], "read_byte": lambda: e["pos"], "hybrid": lambda: e["prefix_at"] if e["prefix_at"] is not None
                    else e["start"], "delta": lambda: e["start"], "varint": lambda: e["pos"], "seek": lambda: e["frm"]}[e["kind"]]()
        some = nval >= 1          # a page of nulls only may have an empty values section: nothing is decoded from it
        eng.pose(q, fn + ".values.start_after_levels", z3.Implies(some, ev_pos(first) == d_end) if first is not None else z3.BoolVal(False),
                 "the first byte given to the value decoder is the one after the level blocks (rep block, then def block)")
        ret = q.ctl[1]
        items = ret.items if isinstance(ret, Tup) and len(ret.items) == 3 else None
        vals = unopt(items[2]) if items else None
        varr = vals.h if isinstance(vals, Custom) and isinstance(vals.h, Arr) else None
        src = content(q, varr.root) if varr is not None else None
        is_dict, is_rle, is_plain, is_delta = in_set(E, DICT_ENCS), E == ENC["RLE"], E == ENC["PLAIN"], E == ENC["DELTA_BINARY_PACKED"]
        plains = [e for e in events(q, "plain")]
        hyb = [e for e in io_body if e["kind"] == "hybrid"]
        rb = [e for e in io_body if e["kind"] == "read_byte"]
        dl = [e for e in io_body if e["kind"] == "delta"]
        vi = [e for e in io_body if e["kind"] == "varint"]
        count_goal = None
        if plains:
            e = plains[0]
            eng.pose(q, fn + ".values.plain.decodes_from_value_start_to_page_end",
                     z3.Implies(some, z3.And(is_plain, z3.BoolVal(e["bts"].region is body), e["bts"].a == d_end, e["bts"].n == body.n - d_end,
                                             e["ptype"] == S.ptype)),
                     "PLAIN values: the bytes from the end of the levels to the end of the page, decoded as the column's physical type")
            count_goal = z3.And(e["count"] == nval, z3.BoolVal(src == ("plain", e["seq"])))
        elif dl:
            e = dl[0]
            eng.pose(q, fn + ".values.delta.output_width_matches_type",
                     z3.And(is_delta, e["longval"] == (S.ptype == TY["INT64"]), e["out"].root.item == z3.If(S.ptype == TY["INT64"], 8, 4),
                            z3.BoolVal(e["out"].view == "bytes")),
                     "DELTA_BINARY_PACKED: 8-byte stores into an int64 array iff the column is INT64, else 4-byte stores into an int32 array")
            count_goal = z3.And(e["cap"] == nval, e["out"].off == 0, z3.BoolVal(src == ("delta", e["seq"])))
        elif vi:
            # dictionary-index fast path of selfmade files (one bit-packed run of whole bytes): framing is C01's lemma
            eng.pose(q, fn + ".values.dictionary.width_byte_consumed",
                     z3.Implies(some, z3.And(selfmade, z3.BoolVal(len(rb) == 1), *([rb[0]["pos"] == d_end, vi[0]["pos"] == d_end + 1] if rb else []))),
                     "dictionary indices: one byte (the index bit width) is consumed before the runs")
            count_goal = None
        elif hyb:
            e = hyb[0]
            wb = z3.And(z3.BoolVal(len(rb) == 1), *([rb[0]["pos"] == d_end, e["width"] == rb[0]["value"], e["start"] == d_end + 1] if rb else []))
            note = "dictionary indices: the byte after the levels is the index bit width, the runs start one byte later and are decoded with it"
            eng.pose(q, fn + ".values.dictionary.width_byte_consumed", z3.Implies(z3.And(some, is_dict), wb), note)
            eng.pose(q, fn + ".values.dictionary.runs_extend_to_page_end", z3.Implies(z3.And(some, is_dict), e["start"] + e["nbytes"] == body.n),
                     "dictionary indices: the runs take the rest of the page (no length prefix)")
            eng.pose(q, fn + ".values.rle_boolean.runs_start_after_length_prefix",
                     z3.Implies(z3.And(some, is_rle), z3.And(e["width"] == 1, z3.Or(e["prefix_at"] == d_end if e["prefix_at"] is not None
                                                                                   else z3.BoolVal(False), e["start"] == d_end + 4))),
                     "RLE booleans: 4-byte length, then the runs (bit width 1)")
            count_goal = z3.And(e["cap"] == nval, e["out"].off == 0, z3.BoolVal(src == ("hybrid", e["seq"])))
        elif src == ("zeros",):
            eng.pose(q, fn + ".values.dictionary.width_byte_consumed",
                     z3.Implies(z3.And(some, is_dict), z3.And(z3.BoolVal(len(rb) == 1), *([rb[0]["pos"] == d_end, rb[0]["value"] == 0] if rb else []))),
                     "index bit width 0: every index is 0, no run is decoded")
            count_goal = varr.root.n == nval
        if count_goal is not None:
            eng.pose(q, fn + ".values.count_is_num_values_minus_num_nulls", count_goal,
                     "the value decoder is asked for num_values - num_nulls values and the array returned is the one it filled")
            eng.pose(q, fn + ".values.returned_length_is_num_values_minus_num_nulls",
                     z3.And(varr.n == nval, varr.off == 0) if varr is not None else z3.BoolVal(False), "len(values) == num_values - num_nulls")
        elif vi:
            pass
        else:
            eng.pose(q, fn + ".values.count_is_num_values_minus_num_nulls", z3.BoolVal(False), "no value decoder call was found on this path")
        # ---- what is returned
        if items is None:
            eng.pose(q, fn + ".returns.triple", z3.BoolVal(False))
            continue
        def none_or_array(v, ev, if_none, if_array):
            """v: NONE | array | Opt(isnone, array) -> goal"""
            isn = v.isnone if isinstance(v, Opt) else z3.BoolVal(isinstance(v, NoneV))
            u = unopt(v)
            if isinstance(u, NoneV):
                return if_none
            if isinstance(u, Custom) and isinstance(u.h, Arr) and ev is not None and u.h.root is ev["out"].root:
                return z3.If(isn, if_none, z3.And(if_array, u.h.off == 0, u.h.n == NV))
            return z3.BoolVal(False)
        eng.pose(q, fn + ".returns.definition_levels_None_iff_no_nulls", none_or_array(items[0], def_ev, nn_spec == 0, nn_spec > 0),
                 "definition levels are returned (all num_values of them, of this page) iff the page has a null")
        g = none_or_array(items[1], rep_ev, z3.Not(has_rep), has_rep)
        eng.pose(q, fn + ".returns.repetition_levels_None_iff_max_rep_0", g)
        if n_must_fail == 0 and plains:
            stt, _, _ = solve(list(q.pc) + [plains[0]["count"] != nval + 1], timeout)
            if stt == REFUTED:
                n_must_fail += 1
                ctx.vacuity["must_fail_sat"] += 1
    for q in raises:
        why = [e for e in events(q, "numpy_raise")]
        eng.pose(q, f"{fn}.supported_page_is_not_refused@L{raise_line(q)}",
                 z3.Not(z3.And(supported, page.dle == ENC["RLE"], page.rle == ENC["RLE"])),
                 "a valid page with a supported encoding is decoded, not refused" + (": " + why[0]["why"] if why else ""))
    if not rets:
        ctx.engine_error(fn + ": no returning path")
    ctx.vacuity["covers"] += len(rets)
    discharge(res, eng, timeout)
    res.stats = {"paths_ret": len(rets), "paths_raise": len(raises), "feas": eng.n_feas}
    return res


# ---- read_col ---------------------------------------------------------------------------------------------------------------------
class Chunk:
    """the page sequence of one column chunk as the FORMAT defines it (see module docstring)"""

    def __init__(self, mode):
        self.mode = mode                                   # 'values' | 'categorical'
        self.S = Schema(flat=True)
        self.K = z3.Int("pages_in_chunk")
        self.OFF, self.VS = z3.Function("page_offset", I, I), z3.Function("values_before_page", I, I)
        self.fn = {}
        self.mode = mode
        self.len_assign = z3.Int("len_assign")
        self.assign = Root("assign", self.len_assign, z3.Int("assign.itemsize"), kind=z3.Int("assign.dtype.kind"), masked=z3.Bool("assign_is_masked_array"))
        self.selfmade = z3.Bool("selfmade")
        self.iinfo_max = z3.Int("iinfo(assign.dtype).max")
        self.region = Region("column chunk", self.S.tcs)
        self.io = None
        self.loops, self.body_paths, self.entries = 0, [], []
        self.pre = self.S.pre + [self.K >= 0, self.OFF(0) == 0, self.VS(0) == 0, self.VS(self.K) == self.S.num_values, self.S.num_values >= 0,
                                 self.len_assign >= self.S.num_values, self.S.tcs >= 0, self.S.dpo >= 4,
                                 z3.Implies(z3.Not(self.S.dict_none), z3.And(self.S.dict_off >= 0, z3.Implies(self.S.dict_off > 0,
                                                                                                             self.S.dict_off < self.S.dpo))),
                                 self.assign.item >= 1, self.iinfo_max >= 0]
        if mode == "categorical":               # category codes: a plain integer array
            self.pre += [in_set(self.assign.kind, [ord("i"), ord("u")]), z3.Not(self.assign.masked)]

    def page(self, k):
        def mk(name, sort=I):
            key = (name, sort)
            if key not in self.fn:
                self.fn[key] = z3.Function("page." + name, I, sort)
            return self.fn[key](k)
        return PageSym(mk)

    def nvp(self, pg):
        return z3.If(pg.type == PT["DATA_PAGE"], pg.nv, z3.If(pg.type == PT["DATA_PAGE_V2"], pg.nv2, 0))

    def page_facts(self, k):
        """instances at page k of the chunk's defining equations + validity of a chunk (ASSUMED[0])"""
        pg = self.page(k)
        p0 = self.page(z3.IntVal(0))
        enc_k = z3.If(pg.type == PT["DATA_PAGE"], pg.enc, pg.enc2)
        is_data = z3.Or(pg.type == PT["DATA_PAGE"], pg.type == PT["DATA_PAGE_V2"])
        return pg, pg.pre + [
            self.OFF(k + 1) == self.OFF(k) + pg.hl + pg.cps, self.VS(k + 1) == self.VS(k) + self.nvp(pg),
            z3.Implies(pg.type == PT["DICTIONARY_PAGE"], k == 0),
            z3.Implies(z3.And(is_data, in_set(enc_k, DICT_ENCS)), z3.And(self.K >= 1, p0.type == PT["DICTIONARY_PAGE"])),
            z3.Implies(pg.type != PT["DATA_PAGE_V2"], pg.cps >= 1), p0.dnv >= 0,
            z3.Implies(pg.type == PT["DATA_PAGE_V2"], z3.And(pg.rl == 0, pg.rl + pg.dl <= pg.cps, z3.Implies(self.S.required, pg.nn2 == 0)))]

    def mono(self, a, b):
        return z3.Implies(z3.And(0 <= a, a <= b, b <= self.K), self.VS(a) <= self.VS(b))


class FileObj:
    tracked = True

    def __init__(self, C):
        self.C = C

    def call_method(self, eng, p, name, args, kw, node):
        if name == "seek" and len(args) == 1:
            emit(p, kind="fseek", off=eng.as_int(args[0], p), line=node.lineno)
            return [(p, NONE)]
        if name == "read" and len(args) == 1:
            n = eng.as_int(args[0], p)
            emit(p, kind="fread", n=n, line=node.lineno)
            return [(p, Custom(Bts(self.C.region, z3.IntVal(0), n)))]
        raise Unsupported("file." + name)


class StatsObj:
    tracked = False

    def __init__(self, S):
        self.S = S
        self.none = z3.Bool("cmd.statistics.null_count_is_absent")

    def getattr_default(self, eng, p, name, default):
        if name == "null_count":
            return Opt(self.none, PyI(self.S.null_count))
        raise Unsupported("getattr(statistics, %r)" % name)

    def attr(self, eng, p, name):
        if name == "null_count":
            return Opt(self.none, PyI(self.S.null_count))
        raise Unsupported("statistics." + name)


class CatDef:
    """the '-catdef' entry of the output (a pandas Categorical dtype holder)"""
    tracked = False

    def __init__(self):
        # the category definition is SHARED by all row groups of a read: at entry of read_col its labels are either the placeholder
        # RangeIndex of the pre-allocation or whatever an earlier row group installed - arbitrary
        self.prior_placeholder = z3.Bool("catdef_labels_are_the_placeholder_at_entry")

    def hasattr(self, eng, p, name):
        return z3.BoolVal(name == "_set_categories")

    def attr(self, eng, p, name):
        if name == "categories":
            return Custom(Labels(self, p.ghost.get("cats_from", z3.IntVal(-1))))
        raise Unsupported("catdef." + name)

    def getattr_default(self, eng, p, name, default):
        if name == "_multiindex":
            return PyB(False)              # ordinary categorical column (multi-index category definitions: out of scope)
        raise Unsupported("getattr(catdef, %r)" % name)

    def call_method(self, eng, p, name, args, kw, node):
        if name == "_set_categories":
            a = unopt(args[0])
            src = a.h.of if isinstance(a, Custom) and isinstance(a.h, IndexOf) else None
            emit(p, kind="set_categories", src=src, line=node.lineno)
            p.ghost["cats_from"] = src.page if isinstance(src, DictVal) else z3.IntVal(-2)
            return [(p, NONE)]
        raise Unsupported("catdef." + name)


class Labels:
    """catdef.categories as seen at one moment: `set_from` = page whose dictionary was installed in THIS call (-1: none yet, the labels
    are the prior ones)"""
    tracked = False

    def __init__(self, catdef, set_from):
        self.catdef, self.set_from = catdef, set_from

    def isinstance(self, eng, p, tn):
        if "RangeIndex" in tn:
            return z3.And(self.set_from == -1, self.catdef.prior_placeholder)
        raise Unsupported("isinstance(catdef.categories, " + tn + ")")

    def len(self, eng, p):
        n = fint("len_labels")
        p.pc.append(n >= 0)
        return PyI(n)


class IndexOf:
    tracked = False

    def __init__(self, of):
        self.of = of


def loop_ordinal(func, want=ast.While):
    loops = sorted([n for n in ast.walk(func.tree) if isinstance(n, (ast.For, ast.While))], key=lambda n: (n.lineno, n.col_offset))
    return next(k for k, n in enumerate(loops) if isinstance(n, want))


def marker_ok(src, kind, cat):
    if isinstance(src, Custom) and isinstance(src.h, Choice):
        return z3.Or(*[z3.And(c, marker_ok(v, kind, cat)) for c, v in src.h.alts])
    ints, flt, tm = in_set(kind, [ord(c) for c in "iub"]), kind == ord("f"), in_set(kind, [ord(c) for c in "Mm"])
    if cat:
        return z3.BoolVal(isinstance(src, PyI) and z3.is_true(z3.simplify(src.z == -1)))
    if isinstance(src, Opaque) and src.tag == ("global:pd", "NA"):
        return ints
    if isinstance(src, Opaque) and src.tag == ("global:np", "nan"):
        return flt
    if isinstance(src, Opaque) and isinstance(src.tag, tuple) and src.tag[:1] == ("NaT",):
        return tm
    if isinstance(src, NoneV):
        return z3.Not(z3.Or(ints, flt, tm))
    return z3.BoolVal(False)


def run_read_col(ctx, funcs, timeout, mode, any_sizes=False, mask=False):
    """mask: C13 - the caller's boolean row mask of the row group is handed over as row_filter (numpy array with one entry per row).
    Spec: page k owns the window W(k) = [VS(k), VS(k) + n_k) of the mask; the rows kept are the rows of the page at the True
    positions of W(k), in order; they go to the output window [SEL(k), SEL(k) + count(W(k))) with SEL(k) = count(mask[0 : VS(k)]).
    any_sizes: the run that asks what happens when the pages declare MORE values than ColumnMetaData.num_values / the rows of the row
    group: the assumption `the data pages sum to num_values` (and with it `pages stay inside the output`) is dropped and one obligation is
    posed on every path that gets through the body: nothing was truncated silently"""
    res = Results()
    fn, tag = "read_col", f"read_col[{mode}{', pages of any size' if any_sizes else ''}{', row_filter mask' if mask else ''}]"
    C = Chunk(mode)
    M = MaskArr(C.S.num_values) if mask else None
    if mask:
        L = C.S.num_values
        C.pre = [c for c in C.pre if not c.eq(C.len_assign >= C.S.num_values)] + [C.len_assign == PC(0, L), PC(0, L) >= 0, PC(0, L) <= L, PC(0, 0) == 0]

    def out_before(k):
        """output rows before page k: all rows of the earlier pages, or - with a mask - the selected ones"""
        return PC(0, C.VS(k)) if mask else C.VS(k)
    if any_sizes:
        C.pre = [c for c in C.pre if not c.eq(C.VS(C.K) == C.S.num_values)]
        # (the monotonicity lemma itself stays: it does not depend on the dropped assumption)
    S = C.S
    cat = mode == "categorical"
    S.cmd.fields["statistics"] = Custom(StatsObj(S))
    h = base_handlers(S)

    def cur(p):
        return p.ghost.get("cur_page")

    def h_from_buffer(eng, p, args, kw, node):
        io = unopt(args[0])
        if not (isinstance(io, Custom) and io.h is C.io and isinstance(args[1], Str) and args[1].s == "PageHeader") or cur(p) is None:
            raise Unsupported("ThriftObject.from_buffer shape")
        k, pg = cur(p)
        eng.oblige(p, fn + ".page.header_parsed_at_page_start", "post",
                   z3.And(C.io.pos(p) == C.OFF(k), z3.BoolVal(not events(p, "header"))), node,
                   "one page header is parsed per iteration, at the offset where page k starts")
        emit(p, kind="header", at=C.io.pos(p), line=node.lineno)
        C.io.set(p, C.io.pos(p) + pg.hl)
        return [(p, Custom(pg.ph))]

    def own_page_args(p, io, ph, cmd):
        k, pg = cur(p)
        return z3.BoolVal(isinstance(io, Custom) and io.h is C.io and isinstance(ph, Custom) and ph.h is pg.ph and isinstance(cmd, Custom)
                          and cmd.h is S.cmd)

    def h_read_dictionary_page(eng, p, args, kw, node):
        k, pg = cur(p)
        eng.oblige(p, fn + ".dictionary_page.consumed_as_dictionary", "post",
                   z3.And(own_page_args(p, args[0], args[2], args[3]), pg.type == PT["DICTIONARY_PAGE"], C.io.pos(p) == C.OFF(k) + pg.hl), node,
                   "read_dictionary_page gets the chunk cursor right after this page's header, this page's header and the column's metadata")
        C.io.set(p, C.io.pos(p) + pg.cps)            # contract: read_dictionary_page.page_bytes.read_at_cursor_exactly_compressed_page_size
        d = DictVal(k, pg.dnv)                        # contract: read_dictionary_page.returns_the_decoded_values
        emit(p, kind="dict_read", dic=d, line=node.lineno)
        return [(p, Custom(d))]

    def h_read_data_page(eng, p, args, kw, node):
        k, pg = cur(p)
        outs = []
        bad = p.fork(pg.type != PT["DATA_PAGE"])
        if eng.feasible(bad):
            emit(bad, kind="numpy_raise", why="page header without data_page_header (INDEX_PAGE)", line=node.lineno)
            outs.append((raise_path(bad, "AttributeError", node), NONE))
        p.pc.append(pg.type == PT["DATA_PAGE"])
        if not eng.feasible(p):
            return outs
        skip = eng.truth(args[4], p) if len(args) > 4 else eng.truth(kw.get("skip_nulls", PyB(False)), p)
        sm = kw.get("selfmade", args[5] if len(args) > 5 else PyB(False))
        eng.oblige(p, fn + ".data_page.callsite.page_cursor_header_metadata", "post",
                   z3.And(own_page_args(p, args[0], args[2], args[3]), C.io.pos(p) == C.OFF(k) + pg.hl,
                          z3.BoolVal(isinstance(args[1], Custom) and args[1].h is S.helper)), node,
                   "read_data_page gets the chunk cursor right after this page's header, this page's header and the column's metadata")
        eng.oblige(p, fn + ".data_page.callsite.skip_nulls_only_for_selfmade_chunk_without_nulls", "post",
                   z3.Implies(skip, z3.And(C.selfmade, S.null_count == 0, z3.Not(S.cmd.fields["statistics"].h.none))), node,
                   "definition levels may be skipped unread only when the file is selfmade and the chunk statistics say null_count == 0")
        eng.oblige(p, fn + ".data_page.callsite.selfmade_passed_on", "post", eng.truth(sm, p) == C.selfmade, node)
        C.io.set(p, C.io.pos(p) + pg.cps)            # contract: read_data_page.page_bytes.read_at_cursor_exactly_compressed_page_size
        nn = fint("nulls_of_page")
        lev = Root("definition_levels", pg.nv, z3.IntVal(1))
        vals = Root("values_of_page", z3.simplify(pg.nv - nn), fint("values.itemsize"))
        p.pc += [nn >= 0, nn <= pg.nv, z3.Implies(z3.Or(S.required, skip), nn == 0), CNT(lev.aid, S.max_def) == pg.nv - nn]
        set_content(p, vals, ("page_values", k))
        if mask:
            # v1 page under a row mask: both recorded defects are repaired in /repo (e953da1) - nothing may hide behind a region here
            p.ghost["region"] = None
        emit(p, kind="page_v1", k=k, nn=nn, lev=lev, vals=vals, skip=skip, line=node.lineno)
        # contract: read_data_page.returns.* / values.returned_length_is_num_values_minus_num_nulls
        return outs + [(p, Tup([Opt(nn == 0, Custom(Arr(lev))), NONE, Custom(Arr(vals))]))]

    def h_read_data_page_v2(eng, p, args, kw, node):
        k, pg = cur(p)
        names = ["infile", "schema_helper", "se", "data_header2", "cmd", "dic", "assign", "num", "use_cat", "file_offset", "ph", "idx",
                 "selfmade", "row_filter"]
        a = dict(zip(names, args))
        a.update(kw)
        outs = []
        bad = p.fork(pg.type != PT["DATA_PAGE_V2"])
        if eng.feasible(bad):
            raise Unsupported("read_data_page_v2 reached with another page type")
        p.pc.append(pg.type == PT["DATA_PAGE_V2"])
        pre = fn + ".data_page_v2.callsite."
        eng.oblige(p, pre + "page_cursor_header_metadata", "post",
                   z3.And(own_page_args(p, a["infile"], a["ph"], a["cmd"]), C.io.pos(p) == C.OFF(k) + pg.hl,
                          z3.BoolVal(isinstance(unopt(a["data_header2"]), Custom) and unopt(a["data_header2"]).h is pg.daph2),
                          z3.BoolVal(isinstance(a["schema_helper"], Custom) and a["schema_helper"].h is S.helper),
                          z3.BoolVal(isinstance(a["se"], Custom) and a["se"].h is S.se)), node,
                   "read_data_page_v2 gets the chunk cursor right after this page's header, this page's two headers, the column's schema element and metadata")
        eng.oblige(p, pre + "num_is_rows_so_far", "post", eng.as_int(a["num"], p) == out_before(k), node,
                   "the row offset handed to the v2 reader is the number of (selected) rows of the data pages before this one")
        asg = unopt(a["assign"])
        eng.oblige(p, pre + "output_is_whole_column", "post",
                   z3.BoolVal(isinstance(asg, Custom) and isinstance(asg.h, Arr) and asg.h.root is C.assign and asg.h.whole), node,
                   "the v2 reader gets the whole output array (it slices [num : num + num_values] itself)")
        dv = a["dic"]
        isn = dv.isnone if isinstance(dv, Opt) else z3.BoolVal(isinstance(dv, NoneV))
        d = unopt(dv)
        eng.oblige(p, pre + "dictionary_is_chunk_dictionary", "post",
                   z3.Implies(in_set(pg.enc2, DICT_ENCS), z3.And(z3.Not(isn), d.h.page == 0, z3.BoolVal(d.h.converted))
                              if isinstance(d, Custom) and isinstance(d.h, DictVal) else z3.BoolVal(False)), node,
                   "a dictionary-encoded v2 page is dereferenced through the chunk's (converted) dictionary page")
        eng.oblige(p, pre + "categorical_read_only_for_dictionary_pages", "post", z3.Implies(z3.BoolVal(cat), in_set(pg.enc2, DICT_ENCS)), node,
                   "precondition of read_data_page_v2 under use_cat (it treats use_cat as 'decode into place'): the page is dictionary-"
                   "encoded - a PLAIN / RLE / DELTA v2 page of a categorical read is refused before the call")
        eng.oblige(p, pre + "flags_passed_on", "post",
                   z3.And(eng.truth(a["use_cat"], p) == z3.BoolVal(cat), eng.truth(a.get("selfmade", PyB(False)), p) == C.selfmade,
                          z3.BoolVal(isinstance(a.get("row_filter", NONE), NoneV) if not mask else
                                     (isinstance(a.get("row_filter"), Custom) and a["row_filter"].h is M))), node)
        if mask:
            eng.oblige(p, pre + "page_window_of_the_mask_is_identified", "post", z3.And(C.VS(k) == 0, pg.nv2 == M.L), node,
                       "the v2 reader is handed the WHOLE row mask and no offset into it: it can only select the right rows when the "
                       "page is the whole row group")
        size = pg.cps - pg.rl - pg.dl
        # contract: read_data_page_v2.page_consumed_exactly (with NumpyIO.read(0) = rest of the buffer when the values section is empty)
        pos = C.io.pos(p)
        for cond, newpos, empty in ((size >= 1, pos + pg.cps, False), (size < 1, C.io.nbytes, True)):
            q = p.fork(cond)
            if eng.feasible(q):
                C.io.set(q, newpos)
                emit(q, kind="page_v2", k=k, num=eng.as_int(a["num"], q), empty_values=empty, line=node.lineno)
                outs.append((q, PyI(pg.nv2)))              # contract: read_data_page_v2.returns_num_values
        return outs

    def h_pd_index(eng, p, args, kw, node):
        a = unopt(args[0])
        return [(p, Custom(IndexOf(a.h if isinstance(a, Custom) else a)))]

    def h_iinfo(eng, p, args, kw, node):
        return [(p, Custom(Rec("iinfo", {"max": PyI(C.iinfo_max)})))]

    def h_listcomp(eng, p, e):
        return [(p, Opaque(("listcomp", e.lineno)))]

    h.update({"ThriftObject.from_buffer": h_from_buffer, "read_dictionary_page": h_read_dictionary_page, "read_data_page": h_read_data_page,
              "read_data_page_v2": h_read_data_page_v2, "pd.Index": h_pd_index, "np.iinfo": h_iinfo, "listcomp": h_listcomp})

    def invariant(eng, p, k):
        env = p.env
        num, pos = eng.as_int(env["num"], p), C.io.pos(p)
        dic = env["dic"]
        isn = dic.isnone if isinstance(dic, Opt) else z3.BoolVal(isinstance(dic, NoneV))
        d = unopt(dic)
        p0 = C.page(z3.IntVal(0))
        has_dict = z3.And(k >= 1, p0.type == PT["DICTIONARY_PAGE"])
        is_dic0 = z3.And(d.h.page == 0, z3.BoolVal(d.h.converted), d.h.n == p0.dnv) if isinstance(d, Custom) and isinstance(d.h, DictVal) \
            else z3.BoolVal(False)
        inv = [("cursor is at the start of page k: infile.tell() == OFF(k)", pos == C.OFF(k)),
               ("num == number of values of the data pages before page k", num == C.VS(k)) if not mask else
               ("num (output cursor) == number of selected rows before page k: count(mask[0 : VS(k)])", num == PC(0, C.VS(k))),
               ("0 <= k <= number of pages", z3.And(0 <= k, k <= C.K)),
               ("dic is None iff no dictionary page was read, else it is the converted dictionary of page 0",
                z3.And(isn == z3.Not(has_dict), z3.Implies(z3.Not(isn), is_dic0)))]
        if cat:
            inv.append(("categories are the chunk's dictionary iff it was read, never anything else",
                        p.ghost.get("cats_from", z3.IntVal(-1)) == z3.If(has_dict, 0, -1)))
        if mask:
            inv.append(("index_off (mask cursor) == rows of the data pages before page k: VS(k)", eng.as_int(env["index_off"], p) == C.VS(k)))
        return inv

    def page_loop(eng, st, p):
        C.loops += 1
        io = p.env.get("infile")
        if not (isinstance(io, Custom) and isinstance(io.h, IOBuf)):
            raise Unsupported("infile is not a NumpyIO over the chunk bytes at the page loop")
        if C.io is not None and C.io is not io.h:
            raise Unsupported("the prologue paths reach the page loop with different chunk buffers")
        C.io = io.h
        C.entries.append(p.fork())
        for name, g in invariant(eng, p, z3.IntVal(0)):
            eng.oblige(p, f"{fn}.page_loop.invariant_on_entry[{name}]", "inv", g, st)
        assigned = sorted({n.id for s_ in st.body for n in ast.walk(s_) if isinstance(n, ast.Name) and isinstance(n.ctx, ast.Store)})
        C.havoced = assigned

        def havoc(q):
            k = fint("k")
            for v in assigned:
                old = q.env.get(v)
                if v == "dic":
                    q.env[v] = Opt(fbool("havoc_dic_is_None"), Custom(DictVal(fint("havoc_dic_page"), fint("havoc_dic_len"), converted=True)))
                elif isinstance(old, PyI):
                    q.env[v] = PyI(fint("havoc_" + v))
                elif isinstance(old, PyB):
                    q.env[v] = PyB(fbool("havoc_" + v))
                elif old is not None:
                    raise Unsupported(f"loop-carried variable {v} of type {type(old).__name__}")
            ri = q.env.get("row_idx")
            if isinstance(ri, Tup):
                q.env["row_idx"] = Tup([PyI(fint("havoc_row_idx")) for _ in ri.items], True)
            C.io.set(q, fint("havoc_cursor"))
            q.ghost["ev"] = []
            q.ghost["cats_from"] = fint("havoc_categories_from")
            q.pc += [g for _, g in invariant(eng, q, k)]
            return k
        outs = []
        # exit state
        e = p.fork()
        k = havoc(e)
        for e2, c in eng.cond(st.test, e):
            e2.pc += [z3.Not(c), C.mono(k, C.K), C.mono(z3.IntVal(0), k)]
            e2.ghost["exit_k"] = k
            e2.ghost["region"] = S.num_values != C.len_assign      # finding: the chunk holds fewer values than the row group has rows
            if mask:
                e2.pc += pc_facts(C.VS(k), M.L, M.L) + pc_facts(z3.IntVal(0), C.VS(k), M.L)
                e2.ghost["region"] = z3.BoolVal(False)
            if eng.feasible(e2):
                outs.append(e2)
        # one arbitrary page
        b = p.fork()
        k = havoc(b)
        for b2, c in eng.cond(st.test, b):
            pg, facts = C.page_facts(k)
            b2.pc += [c] + facts + [C.mono(k + 1, C.K), C.mono(k, C.K), C.mono(z3.IntVal(0), k)]
            b2.ghost["cur_page"] = (k, pg)
            if mask:
                lo_, hi_ = C.VS(k), C.VS(k + 1)
                b2.pc += pc_facts(lo_, hi_, M.L) + pc_facts(hi_, M.L, M.L) + pc_facts(z3.IntVal(0), lo_, M.L) + pc_facts(z3.IntVal(0), hi_, M.L)
            # input region of the finding recorded for read_col: v2 page with an empty values section (the cut's contract: cursor at the
            # end of the chunk).  (A categorical read of a chunk with a page that is not dictionary-encoded is refused since af3a4f3.)
            b2.ghost["region"] = z3.And(pg.type == PT["DATA_PAGE_V2"], pg.cps - pg.rl - pg.dl < 1)
            if mask:        # + finding: any DATA_PAGE_V2 page under a row mask (the v2 reader is not told where the page lies in the mask)
                b2.ghost["region"] = z3.Or(b2.ghost["region"], pg.type == PT["DATA_PAGE_V2"])
            if not eng.feasible(b2):
                continue
            for r in eng.block(st.body, [b2]):
                if r.ctl == "break":
                    raise Unsupported("break in the page loop")
                if r.ctl in (None, "continue"):
                    r.ctl = None
                    after_body(eng, r, st, k, pg)
                else:
                    r.ghost["in_page"] = (k, pg)
                    outs.append(r)
        return outs

    def after_body(eng, r, st, k, pg):
        C.body_paths.append(r)
        if any_sizes:
            stores = [e for e in r.ghost.get("ev", []) if e["kind"] == "store" and e["tgt"].root is C.assign]
            if events(r, "page_v1"):
                eng.oblige(r, fn + ".data_page.page_beyond_the_output_is_refused_not_truncated", "post",
                           z3.And(z3.BoolVal(bool(stores)), *[z3.And(e["tgt"].n == pg.nv, e["tgt"].hi_raw <= C.len_assign) for e in stores]), st,
                           "a page that does not fit into what is left of the output (pages declaring more values than the row group has "
                           "rows) never gets through the loop body: numpy's length checks raise; nothing is written truncated")
            return
        evs = r.ghost.get("ev", [])
        kinds = [e["kind"] for e in evs]
        # row-mask run: the obligations are posed per kind of the arbitrary page (case split on ph.type), so that a repaired branch can
        # never hide behind the finding recorded for another one
        split = ("[v1 page]" if "page_v1" in kinds else "[v2 page]" if "page_v2" in kinds else "[dictionary page]" if "dict_read" in kinds
                 else "[other page]") if mask else ""
        for name, g in invariant(eng, r, k + 1):
            eng.oblige(r, f"{fn}.page_loop.invariant_preserved[{name}]{split}", "inv", g, st)
        stores = [e for e in evs if e["kind"] == "store" and e["tgt"].root is C.assign]
        p0 = C.page(z3.IntVal(0))
        if "dict_read" in kinds:
            d = next(e for e in evs if e["kind"] == "dict_read")["dic"]
            dic = unopt(r.env.get("dic"))
            eng.oblige(r, fn + ".dictionary_page.converted_once_and_kept", "post",
                       z3.BoolVal(isinstance(dic, Custom) and isinstance(dic.h, DictVal) and dic.h.converted and dic.h.raw is d
                                  and not isinstance(r.env.get("dic"), Opt)), st,
                       "after a dictionary page `dic` is convert(<the values of that page>), converted exactly once")
            eng.oblige(r, fn + ".dictionary_page.writes_no_rows", "post", z3.BoolVal(not stores), st)
            if cat:
                sc = [e for e in evs if e["kind"] == "set_categories"]
                eng.oblige(r, fn + ".dictionary_page.categories_installed_from_it", "post",
                           z3.BoolVal(len(sc) == 1 and isinstance(sc[0]["src"], DictVal) and sc[0]["src"].raw is d), st,
                           "categorical read: the categories are installed once, from this (converted) dictionary")
                eng.oblige(r, fn + ".categorical_labels_are_this_chunks_dictionary", "post",
                           z3.And(r.ghost.get("cats_from", z3.IntVal(-1)) == k,
                                  z3.BoolVal(bool(sc) and isinstance(sc[-1]["src"], DictVal) and sc[-1]["src"].raw is d)), st,
                           "on EVERY path that processed a dictionary page the labels of the output categorical are Index(<that page's "
                           "dictionary>) - whatever labels the shared category definition carried before (placeholder or an earlier row "
                           "group's): a guard on the prior state leaves a path with stale labels")
                eng.oblige(r, fn + ".dictionary_page.labels_fit_the_code_dtype", "post", C.iinfo_max >= d.n, st,
                           "past the dictionary block the number of labels fits the dtype of the codes array (else RuntimeError)")
        if "page_v1" in kinds and mask:
            after_body_mask(eng, r, st, k, pg, evs, stores)
        elif "page_v1" in kinds:
            e1 = next(e for e in evs if e["kind"] == "page_v1")
            nn, lev, vals = e1["nn"], e1["lev"], e1["vals"]
            lo, hi = C.VS(k), C.VS(k) + pg.nv
            is_dict = in_set(pg.enc, DICT_ENCS)
            win = z3.And(*[z3.And(e["tgt"].lo_raw == lo, e["tgt"].hi_raw == hi, e["tgt"].off == lo, e["tgt"].n == pg.nv) for e in stores]) \
                if stores else z3.BoolVal(False)
            only = (lambda g_: z3.Implies(is_dict, g_)) if cat else (lambda g_: g_)
            eng.oblige(r, fn + ".data_page.rows_are_next_window", "post", only(win), st,
                       "every store of a data page goes to assign[num : num + num_values] with num = values of the pages before it "
                       "(no gap, no overlap, order kept, inside the array)")
            vstores = [e for e in stores if e["srclen"] is not None and e["tgt"].role == "data"]
            nstores = [e for e in stores if e not in vstores]

            def is_lev_mask(sel, op):
                return sel[0] == "mask" and sel[1].arr.root is lev and sel[1].op == op and z3.is_true(z3.simplify(sel[1].val == S.max_def)) \
                    and z3.is_true(z3.simplify(z3.And(sel[1].arr.off == 0, sel[1].arr.n == lev.n)))
            if len(vstores) == 1:
                v = vstores[0]
                sel_ok = z3.If(nn == 0, z3.BoolVal(v["sel"] == ("all",)), z3.BoolVal(is_lev_mask(v["sel"], "==")))
                g = z3.And(sel_ok, v["srclen"] == pg.nv - nn, z3.BoolVal(v["tgt"].view == "elem"))
            else:
                g = z3.BoolVal(False)
            eng.oblige(r, fn + ".data_page.defined_positions_get_values_in_order", "post", only(g), st,
                       "exactly one store of values per page: into the positions whose definition level is the maximum (all positions when "
                       "the page has no null), as many values as there are such positions")
            mask_store = any(e["tgt"].role == "mask" and e["sel"] == ("all",) and isinstance(unopt(e["src"]), Custom)
                             and isinstance(unopt(e["src"]).h, CmpMask) and is_lev_mask(("mask", unopt(e["src"]).h), "!=") for e in nstores)
            nan_store = [e for e in nstores if e["tgt"].role == "data" and is_lev_mask(e["sel"], "!=")]
            g = z3.Implies(nn > 0, z3.If(C.assign.masked, z3.BoolVal(mask_store),
                                         z3.Or(z3.And(C.assign.kind == ord("O"), z3.BoolVal(not cat)),
                                               z3.And(z3.BoolVal(len(nan_store) == 1), *[marker_ok(e["src"], C.assign.kind, cat) for e in nan_store]))))
            eng.oblige(r, fn + ".data_page.null_positions_get_null", "post", only(g), st,
                       "positions whose definition level is below the maximum get the null of the output's kind (mask bit / NaN / NaT / "
                       "pd.NA / None; -1 for category codes)")
            src = unopt(vstores[0]["src"]) if len(vstores) == 1 else None
            sh = src.h if isinstance(src, Custom) else None
            page_vals = lambda a: isinstance(a, Arr) and a.root is vals and z3.is_true(z3.simplify(z3.And(a.off == 0, a.n == vals.n)))
            if not cat:
                through = isinstance(sh, Lookup) and isinstance(sh.table, DictVal) and page_vals(sh.idx)
                direct = isinstance(sh, Conv) and isinstance(unopt(sh.x), Custom) and page_vals(unopt(sh.x).h)
                eng.oblige(r, fn + ".data_page.dictionary_indices_dereferenced_through_chunk_dictionary", "post",
                           z3.Implies(is_dict, z3.And(sh.table.page == 0, z3.BoolVal(sh.table.converted), sh.table.n == p0.dnv)
                                      if through else z3.BoolVal(False)), st,
                           "a dictionary-encoded page stores dic[indices of this page] with dic = the chunk's converted dictionary (page 0)")
                eng.oblige(r, fn + ".data_page.plain_page_not_routed_through_dictionary", "post",
                           z3.Implies(z3.Not(is_dict), z3.BoolVal(direct)), st,
                           "a page that is not dictionary-encoded (dictionary fallback) stores convert(values of this page), not dic[...]")
            else:
                eng.oblige(r, fn + ".plain_page_in_categorical_read_is_refused", "post", is_dict, st,
                           "categorical read (ordinary category definition, not the multi-index one): a v1 data page that is not "
                           "dictionary-encoded never gets through the loop body - the read raises (dictionary fallback cannot be "
                           "expressed as codes of the chunk's dictionary)")
                eng.oblige(r, fn + ".categorical.codes_only_from_dictionary_encoded_pages", "post",
                           z3.And(is_dict, z3.BoolVal(page_vals(sh))), st,
                           "categorical read: what is stored as category codes are the dictionary indices of a dictionary-encoded page; "
                           "a plain (fallback) page is refused or re-coded, its raw values are never stored as codes")
        if "page_v2" in kinds:
            eng.oblige(r, fn + ".data_page_v2.rows_written_only_by_the_v2_reader", "post", z3.BoolVal(not stores), st)

    def after_body_mask(eng, r, st, k, pg, evs, stores):
        e1 = next(e for e in evs if e["kind"] == "page_v1")
        nn, lev, vals = e1["nn"], e1["lev"], e1["vals"]
        lo, hi = C.VS(k), C.VS(k) + pg.nv
        pw, out_lo = PC(lo, hi), PC(0, lo)
        p0 = C.page(z3.IntVal(0))
        is_dict = in_set(pg.enc, DICT_ENCS)
        mw = [e["win"] for e in evs if e["kind"] == "mask_window"]
        eng.oblige(r, fn + ".mask.window_is_the_rows_of_the_page[v1 page]", "post",
                   z3.And(z3.BoolVal(bool(mw)), *[z3.And(w.a_raw == lo, w.b_raw == hi) for w in mw]), st,
                   "every slice of the row mask taken for page k is row_filter[VS(k) : VS(k) + num_values]: the rows of exactly this page")
        if not stores:
            eng.oblige(r, fn + ".mask.page_skipped_only_if_no_row_selected[v1 page]", "post", pw == 0, st,
                       "a page is passed over without writing only when its window of the mask has no True entry")
            return
        eng.oblige(r, fn + ".data_page.filtered_rows_are_next_output_window[v1 page]", "post",
                   z3.And(*[z3.And(e["tgt"].lo_raw == out_lo, e["tgt"].hi_raw == out_lo + pw, e["tgt"].off == out_lo, e["tgt"].n == pw)
                            for e in stores]), st,
                   "the kept rows of page k go to assign[SEL(k) : SEL(k) + count(window)], SEL(k) = selected rows before the page: no gap, "
                   "no overlap, order kept in the FILTERED output")

        def filt(root):
            c = content(r, root)
            return c if isinstance(c, tuple) and c[0] == "filtered" else None

        def win_ok(w):
            return z3.And(w.a == lo, w.b == hi)
        vstores = [e for e in stores if e["srclen"] is not None and e["tgt"].role == "data"]
        nstores = [e for e in stores if e not in vstores]
        flev = next((e["out"] for e in evs if e["kind"] == "filtered" and e["src"].root is lev and e["cmp"] is None), None)

        def is_flev_mask(sel, op):
            return flev is not None and sel[0] == "mask" and sel[1].arr.root is flev and sel[1].op == op \
                and z3.is_true(z3.simplify(sel[1].val == S.max_def)) and z3.is_true(z3.simplify(z3.And(sel[1].arr.off == 0, sel[1].arr.n == flev.n)))
        g = z3.BoolVal(False)
        inner = None
        if len(vstores) == 1:
            v = vstores[0]
            sh = unopt(v["src"]).h if isinstance(unopt(v["src"]), Custom) else None
            inner = sh.idx if isinstance(sh, Lookup) else (unopt(sh.x).h if isinstance(sh, Conv) and isinstance(unopt(sh.x), Custom) else sh)
            c = filt(inner.root) if isinstance(inner, Arr) else None
            if c is not None and c[1].root is vals and z3.is_true(z3.simplify(z3.And(c[1].off == 0, c[1].n == vals.n, inner.off == 0, inner.n == inner.root.n))):
                by_def = c[3] is not None and c[3].arr.root is lev and c[3].op == "==" and z3.is_true(z3.simplify(c[3].val == S.max_def))
                g = z3.And(win_ok(c[2]),
                           z3.If(nn == 0, z3.BoolVal(c[3] is None and v["sel"] == ("all",)),
                                 z3.BoolVal(by_def and is_flev_mask(v["sel"], "=="))),
                           z3.BoolVal(flev is None) if c[3] is None else (win_ok(filt(flev)[2]) if flev is not None else z3.BoolVal(False)))
        eng.oblige(r, fn + ".data_page.kept_values_are_the_selected_values_of_the_page_in_order[v1 page]", "post", g, st,
                   "exactly one store of values: the page's values at the selected (and defined) positions of ITS mask window, in order, into "
                   "the defined positions of the kept rows")
        mask_store = any(e["tgt"].role == "mask" and e["sel"] == ("all",) and isinstance(unopt(e["src"]), Custom)
                         and isinstance(unopt(e["src"]).h, CmpMask) and is_flev_mask(("mask", unopt(e["src"]).h), "!=") for e in nstores)
        nan_store = [e for e in nstores if e["tgt"].role == "data" and is_flev_mask(e["sel"], "!=")]
        eng.oblige(r, fn + ".data_page.null_positions_get_null", "post",
                   z3.Implies(nn > 0, z3.If(C.assign.masked, z3.BoolVal(mask_store),
                                            z3.Or(C.assign.kind == ord("O"),
                                                  z3.And(z3.BoolVal(len(nan_store) == 1), *[marker_ok(e["src"], C.assign.kind, cat) for e in nan_store])))), st,
                   "kept rows whose definition level is below the maximum get the null of the output's kind")
        if len(vstores) == 1 and not cat:
            through = isinstance(sh, Lookup) and isinstance(sh.table, DictVal)
            eng.oblige(r, fn + ".data_page.dictionary_indices_dereferenced_through_chunk_dictionary", "post",
                       z3.Implies(is_dict, z3.And(sh.table.page == 0, z3.BoolVal(sh.table.converted), sh.table.n == p0.dnv) if through else z3.BoolVal(False)), st)
            eng.oblige(r, fn + ".data_page.plain_page_not_routed_through_dictionary", "post",
                       z3.Implies(z3.Not(is_dict), z3.BoolVal(isinstance(sh, Conv))), st)

    ord_ = loop_ordinal(funcs[fn])
    eng = PEngine(funcs=funcs, handlers=h, opaque_calls=True, loops={(fn, ord_): LoopSpec("hook", inv=page_loop)})
    p = Path()
    p.pc += C.pre
    st0, _, _ = solve(list(p.pc), timeout)
    if st0 == REFUTED:
        ctx.vacuity["requires_sat"] += 1
    else:
        ctx.engine_error(tag + ": precondition unsatisfiable")
    column = Rec("ColumnChunk", {"meta_data": Custom(S.cmd)})
    kw = {"use_cat": PyB(cat), "selfmade": PyB(C.selfmade), "assign": Custom(Arr(C.assign)),
          "catdef": Custom(CatDef()) if cat else NONE, "row_filter": Custom(M) if mask else NONE}
    # lemma: VS is monotone (induction over the page index; used instantiated)
    a_, b_ = z3.Int("a"), z3.Int("b")
    pgb, factsb = C.page_facts(b_)
    for nm, hyp, goal in (("base", [], C.VS(a_) <= C.VS(a_)),
                          ("step", factsb + [0 <= a_, a_ <= b_, C.VS(a_) <= C.VS(b_)], C.VS(a_) <= C.VS(b_ + 1))):
        stt, m, secs = solve(hyp + [z3.Not(goal)], timeout)
        res.add(f"{tag}.prefix_sum.monotone.{nm}", stt, short_model(m), secs, "z3", "VS(a) <= VS(b) for a <= b: data pages hold >= 0 values")
    try:
        outs = eng.run(fn, p, [Custom(column), Custom(S.helper), Custom(FileObj(C))], kw)
    except Unsupported as ex:
        res.add(tag + ".out_of_reach", UNKNOWN, None, 0.0, "engine", str(ex))
        return res
    if C.loops < 1:
        res.add(tag + ".out_of_reach", UNKNOWN, None, 0.0, "engine", "the page loop (while num < rows) was not reached")
        return res
    # ---- chunk bytes (prologue)
    for q0 in C.entries:
        pose_schema_element(eng, q0, fn)
        fs, fr = events(q0, "fseek"), events(q0, "fread")
        start = z3.If(z3.And(z3.Not(S.dict_none), S.dict_off > 0), S.dict_off, S.dpo)
        ok = len(fs) == 1 and len(fr) == 1 and fs[0]["seq"] < fr[0]["seq"]
        eng.pose(q0, fn + ".chunk.bytes_are_first_page_offset_plus_total_compressed_size",
                 z3.And(fs[0]["off"] == start, fr[0]["n"] == S.tcs, C.io.nbytes == S.tcs, z3.BoolVal(C.io.base.region is C.region), C.io.base.a == 0)
                 if ok else z3.BoolVal(False),
                 "the chunk is the total_compressed_size bytes starting at the dictionary page offset if there is one, else at data_page_offset")
    # ---- exits
    n_exit = 0
    if any_sizes:
        eng.oblig = [ob for ob in eng.oblig if ob.name.endswith("page_beyond_the_output_is_refused_not_truncated")]
        outs_checked = []
    else:
        outs_checked = outs
    n_exit = sum(1 for q in outs if q.ctl[0] == "ret" and "exit_k" in q.ghost) if any_sizes else 0
    for q in outs_checked:
        if q.ctl[0] == "ret" and "exit_k" in q.ghost:
            n_exit += 1
            num = eng.as_int(q.ghost["locals:" + fn]["num"], q)
            if mask:
                eng.pose(q, fn + ".exit.all_selected_rows_written_no_overrun", z3.And(num == PC(0, M.L), num == C.len_assign),
                         "the loop ends with num == number of True entries of the whole mask == length of the filtered output: every selected "
                         "row was written, the mask is used up")
                continue
            eng.pose(q, fn + ".exit.all_values_placed_no_overrun", num == S.num_values,
                     "the loop ends with num == ColumnMetaData.num_values: the pages tile exactly the chunk's values")
            eng.pose(q, fn + ".exit.every_output_row_written", num == C.len_assign,
                     "at the end every row of the output array has been written (the chunk holds as many values as the row group has rows) "
                     "- otherwise the call must raise")
        elif q.ctl[0] == "ret":
            eng.pose(q, f"{fn}.returns_only_after_the_page_loop@return-L{ret_line(q)}", z3.BoolVal(False))
        else:
            kpg = q.ghost.get("in_page")
            if kpg is None:
                eng.pose(q, f"{fn}.supported_chunk_is_not_refused@L{raise_line(q)}", z3.BoolVal(False), "raise outside the page loop")
                continue
            k, pg = kpg
            p0 = C.page(z3.IntVal(0))
            unsupported = z3.Or(pg.type == PT["INDEX_PAGE"],
                                z3.And(z3.BoolVal(cat), pg.type == PT["DICTIONARY_PAGE"], C.iinfo_max < pg.dnv),
                                z3.And(z3.BoolVal(cat), z3.Or(z3.Not(z3.And(C.K >= 1, p0.type == PT["DICTIONARY_PAGE"])),
                                                              z3.And(pg.type == PT["DATA_PAGE"], z3.Not(in_set(pg.enc, DICT_ENCS))),
                                                              z3.And(pg.type == PT["DATA_PAGE_V2"], z3.Not(in_set(pg.enc2, DICT_ENCS))))))
            why = events(q, "numpy_raise")
            eng.pose(q, f"{fn}.supported_chunk_is_not_refused@L{raise_line(q)}", unsupported,
                     "a raise inside the page loop happens only for an INDEX page or - categorical read - for a chunk that is not "
                     "dictionary-encoded throughout" + (": " + why[0]["why"] if why else ""))
    if not n_exit or not C.body_paths:
        ctx.engine_error(f"{tag}: no loop exit / no body path")
    ctx.vacuity["covers"] += n_exit + len(C.body_paths)
    for q in [q for q in outs if q.ctl[0] == "ret" and "exit_k" in q.ghost][:1]:
        stt, _, _ = solve(list(q.pc) + [eng.as_int(q.ghost["locals:" + fn]["num"], q) != S.num_values + 1], timeout)
        if stt == REFUTED:
            ctx.vacuity["must_fail_sat"] += 1
    discharge(res, eng, timeout, rename=lambda n: n.replace(fn + ".", tag + ".", 1) if n.startswith(fn + ".") else tag + "." + n)
    res.stats = {"loop_entries": C.loops, "paths_body": len(C.body_paths), "paths_out": len(outs), "feas": eng.n_feas}
    return res


# ---- read_data_page_v2 ------------------------------------------------------------------------------------------------------------
def run_data_page_v2(ctx, funcs, timeout):
    res = Results()
    fn = "read_data_page_v2"
    S = Schema(flat=True)
    page = const_page()
    chunk = Region("column chunk", z3.Int("chunk_len"))
    f = IOBuf(Bts(chunk, z3.IntVal(0), chunk.n), chunk.n, name="infile")
    entry = z3.Int("cursor_at_entry")
    N = z3.Int("len_assign")
    assign = Root("assign", N, z3.Int("assign.itemsize"), kind=z3.Int("assign.dtype.kind"), masked=z3.Bool("assign_is_masked_array"))
    num, use_cat, selfmade = z3.Int("num"), z3.Bool("use_cat"), z3.Bool("selfmade")
    dic_none, dic = z3.Bool("dic_is_None"), DictVal(z3.IntVal(0), z3.Int("len_dic"), converted=True)
    NV, NN, DL, RL, E = page.nv2, page.nn2, page.dl, page.rl, page.enc2
    ISC = z3.Or(page.isc_none, page.isc)
    eff_codec = z3.If(ISC, S.codec, 0)
    size = page.cps - RL - DL
    cinpl = z3.Bool("converts_inplace(se)")

    def on_hybrid(eng, q, ev):
        out = ev["out"]
        base = ev["io"].base
        conform = z3.And(z3.BoolVal(ev["region"] is chunk), ev["start"] == entry + RL, base.n == DL, ev["width"] == WIDTH(S.max_def),
                         out.root.n == NV, out.off == 0, out.n == NV)
        # valid page: the header's num_nulls is the number of definition levels below the maximum
        q.pc.append(z3.Implies(conform, CNT(out.cid(), S.max_def) == NV - NN))
    h = base_handlers(S, hooks={"hybrid": on_hybrid})

    def h_decom_into(eng, p, args, kw, node):
        fnv, src, dst = args[0], unopt(args[1]), unopt(args[2])
        if not (isinstance(src, Custom) and isinstance(src.h, Bts) and isinstance(dst, Custom) and isinstance(dst.h, Arr)):
            raise Unsupported("decom_into[...] argument shapes")
        emit(p, kind="decomp_into", src=src.h, out=dst.h, codec_is_cmd="cmd.codec" in str(fnv.tag), line=node.lineno)
        set_content(p, dst.h.root, ("decomp_into", len(p.ghost["ev"]) - 1))
        return [(p, NONE)]

    def h_converts_inplace(eng, p, args, kw, node):
        return [(p, PyB(cinpl))]
    h.update({"decom_into()": h_decom_into, "converts_inplace": h_converts_inplace})
    eng = PEngine(funcs=funcs, handlers=h, opaque_calls=True)
    p = Path()
    p.pc += S.pre + page.pre + width_facts(S.max_def) + [
        page.type == PT["DATA_PAGE_V2"], entry >= 0, entry + page.cps <= chunk.n, RL == 0, RL + DL <= page.cps, page.ups >= RL + DL,
        z3.Implies(eff_codec == 0, page.ups == page.cps), num >= 0, num + NV <= N, assign.item >= 1,
        z3.Implies(NN > 0, S.max_def >= 1), z3.Implies(S.required, NN == 0), z3.Implies(NN > 0, DL >= 1),
        z3.Implies(E == ENC["RLE"], S.ptype == TY["BOOLEAN"]),
        z3.Implies(E == ENC["DELTA_BINARY_PACKED"], z3.Or(S.ptype == TY["INT32"], S.ptype == TY["INT64"])),
        z3.Implies(in_set(E, DICT_ENCS), z3.Not(dic_none)), dic.n >= 0,
        z3.Implies(z3.And(NN > 0, z3.Not(assign.masked), z3.Not(use_cat)), z3.Not(in_set(assign.kind, [ord(c) for c in "iub"]))),
        z3.Implies(use_cat, z3.And(in_set(assign.kind, [ord("i"), ord("u")]), z3.Not(assign.masked))),
        # call-site precondition (the only caller is read_col; proved there: data_page_v2.callsite.categorical_read_only_for_dictionary_pages,
        # c3e23bf): under use_cat the page is dictionary-encoded.  read_data_page_v2 itself does not check it.
        z3.Implies(use_cat, in_set(E, DICT_ENCS)),
        # a page that holds a non-null value has a non-empty values section (RLE booleans: length prefix + runs)
        z3.Implies(NV - NN >= 1, z3.And(size >= 1, page.ups - DL - RL >= 1)),
        z3.Implies(z3.And(NV - NN >= 1, E == ENC["RLE"]), page.ups - DL - RL >= 5)]
    is_dict_, is_rle_, is_delta_ = in_set(E, DICT_ENCS), E == ENC["RLE"], E == ENC["DELTA_BINARY_PACKED"]
    # input regions of the findings recorded for read_data_page_v2 (contracts/findings.jsonl: C03-P-v2-*, C03-P-categorical-*)
    R = {"empty_values": size < 1,
         "nullable_multipage": z3.And(assign.masked, NN > 0, z3.Or(N != NV, num != 0)),
         "scratch_with_nulls": z3.And(NN > 0, z3.Or(is_rle_, z3.And(is_dict_, use_cat))),
         "delta_nulls": z3.And(is_delta_, NN > 0),
         "delta_64bit": z3.And(is_delta_, z3.Or(S.ptype == TY["INT64"], assign.item != 4)),
         "categorical_dict_foreign": z3.And(is_dict_, use_cat)}
    eng.default_region = z3.Or(*R.values())
    f.set(p, entry)
    st, _, _ = solve(list(p.pc), timeout)
    if st == REFUTED:
        ctx.vacuity["requires_sat"] += 1
    else:
        ctx.engine_error(fn + ": precondition unsatisfiable")
    args = [Custom(f), Custom(S.helper), Custom(S.se), Custom(page.daph2), Custom(S.cmd), Opt(dic_none, Custom(dic)), Custom(Arr(assign)),
            PyI(num), PyB(use_cat), PyI(z3.Int("file_offset")), Custom(page.ph), Tup([PyI(z3.Int("row_idx"))], True)]
    try:
        rets, raises = run_paths(eng, fn, p, args, {"selfmade": PyB(selfmade), "row_filter": NONE})
    except Unsupported as ex:
        res.add(fn + ".out_of_reach", UNKNOWN, None, 0.0, "engine", str(ex))
        return res
    supported = in_set(E, SUPPORTED)
    is_dict, is_rle, is_plain, is_delta = in_set(E, DICT_ENCS), E == ENC["RLE"], E == ENC["PLAIN"], E == ENC["DELTA_BINARY_PACKED"]
    F = z3.BoolVal(False)
    def framing(q):
        """selfmade fast path (C01 framing lemma): the bytes after the run header are the non-null codes, itemsize bytes each"""
        ob_ = unopt(q.ghost.get("locals:" + fn, {}).get("outbytes"))
        if isinstance(ob_, Custom) and isinstance(ob_.h, Bts):
            q.pc.append(ob_.h.n == (NV - NN) * assign.item)
            return True
        return False
    for q in rets:
        evs = q.ghost.get("ev", [])
        q = q.fork()
        if framing(q):
            q.ghost["region"] = z3.Or(*[v for k_, v in R.items() if k_ != "categorical_dict_foreign"])
        eng.pose(q, fn + ".unsupported_encoding_raises", supported,
                 "a v2 page whose value encoding is outside PLAIN / dictionary / RLE / DELTA_BINARY_PACKED reaches a raise")
        pose_schema_element(eng, q, fn)
        eng.pose(q, fn + ".rows.categorical_codes_only_from_dictionary_encoded_pages", z3.Implies(use_cat, is_dict),
                 "categorical read: only the indices of a dictionary-encoded page are stored as category codes [holds by the call-site "
                 "precondition use_cat => dictionary-encoded, which read_col establishes before the call; the function does not check it]")
        r = q.ctl[1]
        eng.pose(q, fn + ".returns_num_values", eng.as_int(r, q) == NV if isinstance(r, (PyI, Opt)) else F,
                 "the caller advances its row offset by what is returned: the page's num_values")
        loc = q.ghost.get("locals:" + fn, {})
        idx = loc.get("idx")
        eng.pose(q, fn + ".idx.row_index_untouched_for_flat_column",
                 z3.BoolVal(isinstance(idx, Tup) and len(idx.items) == 1 and isinstance(idx.items[0], PyI) and idx.items[0].z.eq(z3.Int("row_idx"))),
                 "idx[0] (the row cursor of repeated columns) is advanced only for max_repetition_level > 0")
        nv_code = loc.get("n_values")
        eng.pose(q, fn + ".values.count_is_num_values_minus_num_nulls", eng.as_int(nv_code, q) == NV - NN if isinstance(nv_code, PyI) else F,
                 "the number of values to decode is num_values - num_nulls of the header")
        # ---- reads on the chunk cursor
        reads = [e for e in evs if e["kind"] == "read" and e["io"] is f]
        lev = [e for e in evs if e["kind"] == "hybrid" and e["region"] is chunk]
        vread = reads[-1] if reads else None
        eng.pose(q, fn + ".levels.def_decoded_iff_page_has_nulls",
                 z3.And(z3.BoolVal(len(lev) <= 1), (NN > 0) == z3.BoolVal(len(lev) == 1)),
                 "definition levels are decoded iff the header says the page has nulls (then exactly once)")
        if lev:
            e = lev[0]
            b = e["io"].base
            eng.pose(q, fn + ".levels.def_read_from_uncompressed_prefix",
                     z3.And(b.a == entry + RL, b.n == DL, e["start"] == b.a, z3.BoolVal(e["prefix_at"] is None)),
                     "definition levels are the definition_levels_byte_length bytes after the repetition levels, taken as stored (not "
                     "decompressed, no length prefix)")
            eng.pose(q, fn + ".levels.def_width_is_width_from_max_level", e["width"] == WIDTH(S.max_def))
            eng.pose(q, fn + ".levels.def_output_holds_num_values_entries", z3.And(e["out"].root.n == NV, e["out"].off == 0, e["out"].n == NV),
                     "the definition levels of a page are decoded into an array of exactly this page's num_values entries")
        ok_v = vread is not None
        eng.pose(q, fn + ".values.start_at_sum_of_level_lengths", vread["pos"] == entry + RL + DL if ok_v else F,
                 "the values section starts repetition_levels_byte_length + definition_levels_byte_length bytes after the page header")
        eng.pose(q, fn + ".values.length_is_compressed_size_minus_levels", vread["asked"] == size if ok_v else F,
                 "the values section is compressed_page_size minus the two level lengths bytes long")
        eng.pose(q, fn + ".page_consumed_exactly", f.pos(q) == entry + page.cps,
                 "on return the chunk cursor is at the next page header: header end + compressed_page_size")
        if not ok_v:
            continue
        V = vread["bts"]
        decs = [e for e in evs if e["kind"] == "decompress"]
        dinto = [e for e in evs if e["kind"] == "decomp_into"]
        raw_store = [e for e in evs if e["kind"] == "store" and isinstance(unopt(e["src"]), Custom) and unopt(e["src"]).h is V]
        if len(decs) == 1 and decs[0]["src"] is V and not dinto and not raw_store:
            g = decs[0]["codec"] == eff_codec
            g2 = decs[0]["size"] == page.ups - DL - RL
            vreg, voff = decs[0]["region"], z3.IntVal(0)
        elif len(dinto) == 1 and dinto[0]["src"] is V and not decs and not raw_store:
            g = z3.And(ISC, z3.BoolVal(dinto[0]["codec_is_cmd"]))
            g2 = z3.BoolVal(True)
            vreg, voff = None, None
        elif len(raw_store) == 1 and not decs and not dinto:
            g = eff_codec == 0
            g2 = z3.BoolVal(True)
            vreg, voff = None, None
        else:
            g, g2, vreg, voff = F, F, None, None
        eng.pose(q, fn + ".values.decompressed_iff_is_compressed_with_chunk_codec", g,
                 "only the values section is decompressed, with ColumnMetaData.codec, iff is_compressed (absent = true); else it is used as stored")
        eng.pose(q, fn + ".values.uncompressed_size_is_page_size_minus_levels", g2,
                 "the values section decompresses to uncompressed_page_size minus the two level lengths")
        if vreg is not None:
            q.pc.append(z3.Implies(z3.And(is_dict, NV - NN >= 1, BYTE(vreg.rid, 0) >= 1), vreg.n >= 2))

        # ---- decoder calls on the values section
        def on_values(e):
            return vreg is not None and e.get("io") is not None and e["io"].base is not None and e["io"].base.region is vreg
        rb = [e for e in evs if e["kind"] == "read_byte" and on_values(e)]
        vi = [e for e in evs if e["kind"] == "varint" and on_values(e)]
        hy = [e for e in evs if e["kind"] == "hybrid" and on_values(e)]
        dl_ = [e for e in evs if e["kind"] == "delta" and on_values(e)]
        pl = [e for e in evs if e["kind"] == "plain"]
        sk = [e for e in evs if e["kind"] == "seek" and on_values(e)]
        some = NV - NN >= 1
        for e in pl:
            eng.pose(q, fn + ".values.plain.decodes_value_section_as_physical_type",
                     z3.And(is_plain, z3.BoolVal(vreg is not None and e["bts"].region is vreg), e["bts"].a == 0, e["count"] == NV - NN, e["ptype"] == S.ptype),
                     "PLAIN: num_values - num_nulls values of the column's physical type from the first byte of the (decompressed) values section")
        fast = [e for e in evs if e["kind"] == "store" and isinstance(unopt(e["src"]), Custom) and isinstance(unopt(e["src"]).h, Bts)
                and unopt(e["src"]).h.region is vreg]
        for e in hy:
            wb = z3.And(z3.BoolVal(len(rb) == 1 and not vi), *([rb[0]["pos"] == 0, e["width"] == rb[0]["value"], e["start"] == 1] if rb else []))
            note = "dictionary indices: first byte = index bit width, the runs start at the second byte and are decoded with that width"
            eng.pose(q, fn + ".values.dictionary.width_byte_consumed_then_runs", z3.Implies(z3.And(some, is_dict), wb), note)
            eng.pose(q, fn + ".values.rle_boolean.length_prefix_skipped",
                     z3.Implies(z3.And(some, is_rle), z3.And(e["width"] == 1, e["start"] == 4, z3.BoolVal(len(sk) == 1 and not rb))),
                     "RLE booleans: the runs start after the 4-byte length prefix, bit width 1")
            capg = z3.And(e["out"].n == NV - NN, e["cap"] == NV - NN)
            eng.pose(q, fn + ".values.hybrid_output_holds_non_null_values", capg,
                     "the index / boolean runs are decoded into exactly num_values - num_nulls entries")
        if fast and not hy:
            eng.pose(q, fn + ".values.dictionary.width_byte_consumed_then_runs",
                     z3.Implies(z3.And(some, is_dict), z3.And(selfmade, z3.BoolVal(len(rb) == 1 and len(vi) == 1), *([rb[0]["pos"] == 0] if rb else []))),
                     "selfmade fast path: width byte, one bit-packed run header, then whole-byte indices (framing: C01)")
        for e in dl_:
            eng.pose(q, fn + ".values.delta.starts_at_value_section", z3.And(is_delta, e["start"] == 0, e["cap"] == NV - NN, e["out"].n == NV - NN))
            g = z3.And(e["longval"] == (S.ptype == TY["INT64"]), e["out"].root.item == z3.If(S.ptype == TY["INT64"], 8, 4),
                       z3.BoolVal(e["out"].view == "bytes"))
            note = "DELTA_BINARY_PACKED: 8-byte stores into 8-byte items iff the column is INT64, else 4-byte stores into 4-byte items"
            eng.pose(q, fn + ".values.delta.output_width_matches_type", g, note)
        # ---- rows
        writes = []
        for e in evs:
            if e["kind"] == "store" and e["tgt"].root is assign:
                writes.append(dict(tgt=e["tgt"], sel=e["sel"], src=e["src"], srclen=e["srclen"], ev=e))
            elif e["kind"] in ("hybrid", "delta", "decomp_into") and e["out"].root is assign and e not in lev:
                writes.append(dict(tgt=e["out"], sel=("all",), src=("decoded", e), srclen=e["out"].n, ev=e))
        conv = [e for e in evs if e["kind"] == "convert_inplace"]
        wins = [w["tgt"] for w in writes] + [e["tgt"] for e in conv]
        eng.pose(q, fn + ".rows.window_is_num_to_num_plus_num_values",
                 z3.And(*[z3.And(t.lo_raw == num, t.hi_raw == num + NV, t.off == num, t.n == NV) for t in wins]) if wins else F,
                 "every write of the page goes to assign[num : num + num_values]")
        vw = [w for w in writes if w["srclen"] is not None and w["tgt"].role == "data"]
        nw = [w for w in writes if w not in vw]
        levarr = lev[0]["out"] if lev else None

        def is_lev_mask(sel, op):
            return levarr is not None and sel[0] == "mask" and sel[1].arr.root is levarr.root and sel[1].arr.role == levarr.role \
                and sel[1].op == op and z3.is_true(z3.simplify(sel[1].val == S.max_def))
        if len(vw) == 1:
            w = vw[0]
            g = z3.And(z3.If(NN == 0, z3.BoolVal(w["sel"] == ("all",)), z3.BoolVal(is_lev_mask(w["sel"], "=="))),
                       z3.Or(w["srclen"] == NV - NN, z3.BoolVal(w["tgt"].view == "bytes")))
        else:
            g = F
        eng.pose(q, fn + ".rows.defined_positions_get_values_in_order", g,
                 "exactly one write of values: to the positions whose definition level is the maximum (all when the page has no null), "
                 "num_values - num_nulls of them [value writes at L%s]" % ",".join(str(w["ev"]["line"]) for w in vw))
        ne = [e for e in evs if e["kind"] == "not_equal_inplace"]
        mask_ok = levarr is not None and len(ne) == 1 and ne[0]["arr"].root is levarr.root and ne[0]["arr"].role == levarr.role \
            and z3.is_true(z3.simplify(ne[0]["val"] == S.max_def))
        nan_w = [w for w in nw if w["tgt"].role == "data" and is_lev_mask(w["sel"], "!=")]
        marker = z3.And(*[z3.If(use_cat, z3.BoolVal(isinstance(w["src"], PyI) and z3.is_true(z3.simplify(w["src"].z == -1))),
                                z3.BoolVal(isinstance(w["src"], NoneV))) for w in nan_w])
        eng.pose(q, fn + ".rows.null_positions_get_null",
                 z3.Implies(NN > 0, z3.If(assign.masked, z3.BoolVal(mask_ok and levarr is not None and levarr.role == "mask"),
                                          z3.Or(z3.And(assign.kind == ord("O"), z3.Not(use_cat)), z3.And(z3.BoolVal(len(nan_w) == 1), marker)))),
                 "positions whose definition level is below the maximum get a null (mask bit of a nullable array / None -> NaN, NaT, None; "
                 "-1 for category codes)")
        src = unopt(vw[0]["src"]) if len(vw) == 1 and not isinstance(vw[0]["src"], tuple) else None
        sh = src.h if isinstance(src, Custom) else None
        through = isinstance(sh, Lookup) and sh.table is dic and len(hy) == 1 and isinstance(sh.idx, Arr) and sh.idx.root is hy[0]["out"].root
        eng.pose(q, fn + ".rows.dictionary_dereferenced_unless_categorical",
                 z3.And(z3.Implies(z3.And(is_dict, z3.Not(use_cat)), z3.BoolVal(through)),
                        z3.Implies(z3.Not(z3.And(is_dict, z3.Not(use_cat))), z3.BoolVal(not isinstance(sh, Lookup)))),
                 "dictionary-encoded page: dic[indices decoded from this page] is stored (indices themselves in a categorical read); any "
                 "other encoding is never routed through the dictionary")
    for q in raises:
        why = events(q, "numpy_raise")
        q = q.fork()
        if framing(q):
            q.ghost["region"] = z3.Or(*[v for k_, v in R.items() if k_ != "categorical_dict_foreign"])
        if why and why[0].get("view") == "bytes" and why[0]["tgt"].root is assign:
            # fixed-width PLAIN values stored as they are, read into an output whose element size matches (`see`): n * itemsize bytes
            q.pc.append(z3.Implies(z3.And(is_plain, eff_codec == 0, z3.Not(use_cat)), why[0]["srclen"] == why[0]["cnt"]))
        eng.pose(q, f"{fn}.supported_page_is_not_refused@L{raise_line(q)}:{q.ctl[1]}",
                 z3.Or(z3.Not(supported), z3.And(use_cat, z3.Not(is_dict))),
                 "a valid page with a supported encoding is decoded, not refused (a categorical read may refuse a page that is not "
                 "dictionary-encoded)" + (": " + why[0]["why"] if why else ""))
    if not rets:
        ctx.engine_error(fn + ": no returning path")
    ctx.vacuity["covers"] += len(rets)
    for q in rets[:1]:
        stt, _, _ = solve(list(q.pc) + [eng.as_int(q.ctl[1], q) != NV + 1], timeout)
        if stt == REFUTED:
            ctx.vacuity["must_fail_sat"] += 1

    def rename(nm):
        if nm.startswith(fn + ".assert@L"):
            return fn + ".supported_page_is_not_refused@assert-" + nm.split("@")[1]
        return nm
    discharge(res, eng, timeout, rename=rename)
    res.stats = {"paths_ret": len(rets), "paths_raise": len(raises), "feas": eng.n_feas}
    return res


def check(ctx, timeout, parts=("dictionary_page", "data_page_v1", "data_page_v2", "read_col")):
    funcs, tree, src = parse_module("fastparquet/core.py")
    for fn in ("read_col", "read_data_page", "read_data_page_v2", "read_dictionary_page", "read_def", "read_rep", "read_data", "_read_page"):
        ctx.function("core." + fn, funcs[fn].sha, funcs[fn].report)
    out = []
    runs = {"dictionary_page": run_dictionary_page, "data_page_v1": run_data_page_v1, "data_page_v2": run_data_page_v2,
            "read_col": lambda c, f, t: [run_read_col(c, f, t, "values"), run_read_col(c, f, t, "categorical"),
                                         run_read_col(c, f, t, "values", any_sizes=True)],
            "read_col_mask": lambda c, f, t: [run_read_col(c, f, t, "values", mask=True)],
            "read_col_cat": lambda c, f, t: [run_read_col(c, f, t, "categorical")],
            "read_col_values": lambda c, f, t: [run_read_col(c, f, t, "values")]}
    for part in parts:
        if part not in runs:
            continue
        try:
            r = runs[part](ctx, funcs, timeout)
            out += r if isinstance(r, list) else [r]
        except Unsupported as ex:
            r = Results()
            r.add(f"{part}.out_of_reach", UNKNOWN, None, 0.0, "engine", str(ex))
            out.append(r)
    return out
