"""C06 - file-object ownership / frame of the read entry points of fastparquet/api.py (+ core.read_row_group .. read_col)
and the counts of DERIVED handles, executed symbolically from the real source.

Model (I/O effect trace, cf. contracts/c07_parts.py).  A file object is a proof-script value `FileObj(fid, origin)`:
origin "caller" = the call under contract did NOT obtain it itself (the file-like `fn` given to ParquetFile(...), what
`self.open` hands back on a file-like handle - `lambda *a, **k: fn`, the `infile=` argument), origin "opened" = the call got
it from `self.open(<path>)` on a path-like handle.  Its ghost state is (closed, position_established); at the entry of every
call the caller's object is open and its position is ARBITRARY (that is the precondition that makes compositions sound:
nothing may be assumed about what an earlier read left behind).  Every method the code invokes on a file object is an
element of the trace and the invariant is checked AT that element (so it holds wherever a later call fails):

  reads.callers_file_object_not_closed[<entry>,<mode>]   no life-ending method (close / __exit__ / use as a context manager /
        detach / __del__) is invoked on an object the call did not itself obtain from self.open(<path>); with file-like
        input (self.open returns the caller's object) the caller's object is still open on every returning / raising path
  reads.only_position_changes[<entry>,<mode>]    on the caller's object only seek / tell / read* and pure queries are
        invoked and no attribute is stored: the only state a read changes on it is the position
  reads.seek_before_read[<entry>,<mode>]         every read / tell / relative seek on a file object is preceded IN THE SAME
        CALL (and, inside a loop over row groups / columns, in the SAME ITERATION - the flag is dropped at the start of the
        arbitrary iteration and after every callee that reads) by an absolute seek (whence 0 or 2) on that object, or the
        object was freshly opened by this call: no read depends on the position a previous read left behind
  reads.no_use_after_close[..] / reads.file_left_open_for_next_iteration[..]   nothing is invoked on an object after its
        close; a file opened BEFORE a loop is still open at the end of the arbitrary iteration (loop invariant `open`)
  reads.opens_for_reading_only[..]               self.open is only ever called with mode 'rb' / 'r' (or none)
  reads.handle_open_and_fn_unchanged[..]         no read rebinds self.open / self.fn
  reads.delegates_to_shared_open[..] / reads.reads_the_object_it_was_given[read_row_group_file,..]   iter_row_groups / head /
        count(row_filter=True) / the row_filter=True pass of to_pandas read through to_pandas of this handle or of self[...] only;
        read_row_group_file hands core.read_row_group `infile` when given, else what self.open(fn, mode='rb') returned
  handles.open_returns_callers_object[__init__]  after ParquetFile(<file-like>): self.open(anything) IS the object given, self.fn
        is None, and evaluating it has no effect on the file
  handles.file_object_only_reachable_through_open[__init__]   no attribute of the new handle (or of its footer) holds the object
  handles.derived_shares_open_and_fn[int|slice] / handles.derived_carries_exactly_selected_row_groups[int|slice]
        pf[item]: new.open is self.open, new.fn is self.fn (identity), new.row_groups == list(self.row_groups[item]),
        and so is new.fmd.row_groups
  handles.derived_inherits_parent_answers[int|slice].<key>   one obligation per key of the handle's PRIMARY state (read from the
        source: keys of __getstate__'s dict + top-level `self.X =` of __init__: pandas_nulls, _base_dtype, tz, _columns_dtype ...):
        pf[item].<key> IS the parent's value (identity / equal immutable) - a dropped or re-derived one is named;
        .footer_fields_other_than_row_groups: the new footer is the parent's shallow copy with only row_groups assigned (schema,
        created_by, key_value_metadata -> selfmade, _kvm, pandas_metadata, categories are the parent's)
  handles.derived_state_has_no_row_group_dependent_cache[int|slice].<attr>   for every lazily filled attribute that depends on the
        row groups (found by a data + control taint analysis of class ParquetFile: stored from `.row_groups` / `f(self)` / under a loop
        or test over them; minus the declared state and what _set_attrs re-derives - today _statistics and _categories): pf[item]
        does not hold the PARENT's value (absent, None, or recomputed on the new handle), whatever dict was handed to __setstate__
        (explicit keys, dict(self.__dict__), self.__dict__.copy(), {**self.__dict__, ...} are modelled)
  handles.derived_state_frame[int|slice]       every explicit key handed to __setstate__ is declared state, the copied footer,
        re-derived by _set_attrs, or the parent's own value of that attribute
  handles.derived_statistics_describe_own_row_groups[int|slice]   the real `statistics` property run on the handle __getitem__ built,
        with the parent's cache possibly filled, returns statistics(<new handle>) on every path
  statistics.cache_is_only_set_from_own_row_groups (ast) / statistics.property_returns_cache_or_own_statistics
  statistics.cache_dropped_when_row_groups_change[<method>]   a method that calls self._set_attrs() on an existing
        handle (remove_row_groups, write_row_groups) resets the cache - itself or through a self-method it calls (the reset lives in
        _set_attrs since /repo 890afcf; found by following the calls in the real source, nothing hard-coded)
  handles.state_roundtrip_keeps_dtype_answers.<key>   the same per key for __setstate__(__getstate__()) (copy / pickle)
  handles.dtype_table_not_rederived_when_inherited   the real _dtypes with _base_dtype set assigns neither _base_dtype nor tz
  handles.state_roundtrip_shares_open_fn_footer  object.__new__(ParquetFile).__setstate__(pf.__getstate__()) (what copy.copy and
        pickle do) has the parent's open, fn and footer (hence its row groups, by set_attrs.row_groups_follow_footer)
  count.derived_handle_counts_own_row_groups[int|slice].count / .info_rows / .info_row_groups / .len
        on the handle ACTUALLY produced by __getitem__ (same path): count() (no filters) == info['rows'] == sum of num_rows over
        the SELECTED row groups (not the parent's footer total), info['row_groups'] == len(handle) == number selected
  count.equals_rows_preallocated_by_to_pandas[root|int|slice]   count() == the size to_pandas hands to pre_allocate on that handle
  frame.helpers_do_no_file_io                    (ast) every ParquetFile method / property used opaquely in these runs never
        mentions self.open / open_with / a with-statement / close / seek
Entry points (modes file-like | path; each contract is used as a CUT by its callers, so a change is reported where it is made):
  __init__[file-like; default open_with | fs given] with _parse_header inline;
  to_pandas (filters / row_filter symbolic: plain, filtered, row_filter=True with its recursive pass, custom mask - one run),
      read_row_group_file and the recursive to_pandas as cuts;
  read_row_group_file[infile given | None] (assign symbolic: both the to_pandas and the direct use, recursion as a cut),
      core.read_row_group as a cut;
  core.read_row_group with read_row_group_arrays and read_col inline (the only place where bytes are read): loops over columns /
      remaining names / partition columns run for an arbitrary member; the page loop of read_col is skipped after checking that no
      file object, handle or open function is reachable from its locals (`infile` is re-bound to the NumpyIO of the bytes read);
  iter_row_groups, head, count(row_filter=True), _read_partitions: read only through <derived handle>.to_pandas (cut).
except-handlers are additionally entered from the state at the start of their try body (an exception out of an opaque call).
A source shape the script does not model gives `<run>.out_of_reach` = unknown (never a violation).
"""
import ast
import itertools

import z3

from vc import backends
from vc.front_py import parse_module
from vc.symexec import Path, Custom, Opaque, Str, PyB, PyI, NONE, NoneV, Unsupported, Tup, Opt, BUILTINS, _target_names
from vlib.common import PROVED, REFUTED, UNKNOWN
from .util import Results, solve
from .c06_partial import (Eng6, PF, FMD, RG, RGList, SliceObj, DictLit, Recorder, ProofScriptError, S, NR, s_step, s_mono,
                          pose, stored_names, mutated_names, _fresh_like, _same_selection, ret_tag, h_sum as h_sum6, h_len)

_ids = itertools.count(1000)

ASSUMED = [
    "preconditions: at the entry of every call the caller's file object is open and its position is arbitrary; a handle built from a "
    "file-like object has open == (lambda *a, **k: fn) and fn None (posed: handles.open_returns_callers_object[__init__]); a "
    "path-like handle's self.open(path, mode) returns a NEW open file object positioned at 0 that only this call references",
    "a file object is truthy (io.IOBase defines neither __bool__ nor __len__); seek(x) / seek(x, 0) / seek(x, 2) set the position "
    "independently of the previous one, seek(x, 1) / read / readinto / tell depend on it; close, __exit__, detach, __del__ end its life",
    "derived handles used as a cut in iter_row_groups / head / count(row_filter=True): self[i] / self[:h] has the parent's open and fn "
    "(posed: handles.derived_shares_open_and_fn); <handle>.to_pandas / the recursive read_row_group_file call obey the reads.* "
    "contract posed on those entry points themselves (leave the caller's object open, position arbitrary)",
    "copy.copy(pf) and pickle build the new handle as object.__new__(ParquetFile).__setstate__(pf.__getstate__()) "
    "(object.__reduce_ex__, protocol >= 2); a file-like handle cannot be pickled (its open is a lambda) - copy only",
    "filter_row_groups, check_column_names, paths_to_cats, _pre_allocate, from_buffer, struct.unpack, encoding.NumpyIO and the page "
    "decoders called in read_col's page loop never receive the file object (checked: a tracked object flowing into an unknown "
    "call is `out_of_reach`); the page loop of read_col runs with no file object / handle reachable from its locals (checked)",
    "fsspec.filesystem('file') returns a filesystem object (not None); ParquetFile(<file-like>) with a caller-supplied open_with "
    "that has no __self__ (get_fs path) is not covered",
    "exceptions raised inside opaque calls are not modelled (engine): the frame is shown on normal and explicitly raising paths",
    "num_rows of every row group is an int >= 0; filter_row_groups(pf, None/[]) returns pf.row_groups (C05)",
]

LIFE_ENDING = ("close", "__exit__", "__del__", "detach")
POSITION_READS = ("read", "readinto", "read1", "readline", "readlines", "peek", "tell", "readall")
QUERIES = ("seekable", "readable", "writable", "isatty", "fileno", "__enter__")
MINE = ("reads.", "handles.", "count.", "frame.")

DETAIL = {
    "reads.callers_file_object_not_closed": "no close / __exit__ / context-manager use / detach on a file object the call did not obtain "
                                            "itself from self.open(<path>); the caller's object is open on every finished path",
    "reads.only_position_changes": "only seek / tell / read* / pure queries are invoked on the caller's object and no attribute is stored",
    "reads.seek_before_read": "every read / tell / relative seek is preceded in the same call and loop iteration by an absolute seek on "
                              "that object (or the object was opened by this call): no read depends on a position left behind",
    "reads.no_use_after_close": "no method is invoked on a file object after its close",
    "reads.file_left_open_for_next_iteration": "a file opened before a loop is still open at the end of the arbitrary iteration",
    "reads.opens_for_reading_only": "self.open is called with mode 'rb' / 'r' or none",
}


# =================================================================================================
# file objects on the effect trace
# =================================================================================================
def new_file(p, fid, origin, est):
    p.ghost["files"].append((fid, origin))
    p.ghost["fstate"][(fid, "closed")] = False
    p.ghost["fstate"][(fid, "est")] = est


def drop_positions(p, only=None):
    """the position of every (given) file object becomes arbitrary again"""
    for fid, _ in p.ghost["files"]:
        if only is None or fid in only:
            p.ghost["fstate"][(fid, "est")] = False


def _event(eng, p, name, fid, node, origin=None):
    ev = (name, fid, getattr(node, "lineno", 0) if node is not None else 0)
    p.ghost["io"].append(ev)
    eng.io_log.append(ev + (origin,))


def _viol(eng, p, name, node, note):
    eng.oblige(p, f"{name}[{eng.entry_tag}]", "post", z3.BoolVal(False), node, note=note)


class FileObj:
    tracked = True

    def __init__(self, fid, origin):
        self.fid, self.origin = fid, origin

    def truth(self, eng, p):
        return z3.BoolVal(True)

    def is_none(self, eng, p):
        return z3.BoolVal(False)

    def isinstance(self, eng, p, tn):
        return z3.BoolVal(False)          # not a tuple / list / str / bytes

    def attr(self, eng, p, name):
        if name == "closed":
            return PyB(bool(p.ghost["fstate"][(self.fid, "closed")]))
        return Opaque(("file", self.fid, name))

    def setattr(self, eng, p, name, v):
        _event(eng, p, "setattr:" + name, self.fid, None, self.origin)
        if self.origin == "caller":
            _viol(eng, p, "reads.only_position_changes", None, f"attribute {name!r} is stored on the caller's file object")

    def life_ends(self, eng, p, how, node):
        st = p.ghost["fstate"]
        _event(eng, p, how, self.fid, node, self.origin)
        if self.origin == "caller":
            _viol(eng, p, "reads.callers_file_object_not_closed", node,
                  f"{how} on a file object this call did not open (L{getattr(node, 'lineno', 0)}): every later read through this or a derived handle fails")
        st[(self.fid, "closed")] = True

    def call_method(self, eng, p, name, args, kw, node):
        st = p.ghost["fstate"]
        ln = getattr(node, "lineno", 0)
        if st[(self.fid, "closed")]:
            _viol(eng, p, "reads.no_use_after_close", node, f".{name}() at L{ln} on a closed file object")
        if name in LIFE_ENDING:
            self.life_ends(eng, p, name, node)
            return [(p, NONE)]
        _event(eng, p, name, self.fid, node, self.origin)
        if name == "seek":
            wh = args[1] if len(args) > 1 else kw.get("whence")
            absolute = wh is None
            if isinstance(wh, (PyI, PyB)):
                w = z3.simplify(eng.as_int(wh))
                absolute = z3.is_int_value(w) and w.as_long() in (0, 2)
            elif wh is not None and node is not None:
                src = [a for a in node.args[1:2]] + [k.value for k in node.keywords if k.arg == "whence"]
                absolute = bool(src) and ast.unparse(src[0]).split(".")[-1] in ("SEEK_SET", "SEEK_END")
            if absolute:
                st[(self.fid, "est")] = True
            elif not st[(self.fid, "est")]:
                _viol(eng, p, "reads.seek_before_read", node, f"relative seek at L{ln} from a position this call did not establish")
            return [(p, PyI(eng.fresh_int("pos")))]
        if name in POSITION_READS:
            if not st[(self.fid, "est")]:
                _viol(eng, p, "reads.seek_before_read", node,
                      f".{name}() at L{ln} at whatever position an earlier read left: no absolute seek on this object since the "
                      "call (or this loop iteration / the last callee that reads) began")
            if name == "tell":
                return [(p, PyI(eng.fresh_int("pos")))]
            return [(p, Opaque(("filedata", self.fid, next(eng.counter))))]
        if name in QUERIES:
            return [(p, Custom(self) if name == "__enter__" else Opaque(("filequery", name, next(eng.counter))))]
        if self.origin == "caller":
            _viol(eng, p, "reads.only_position_changes", node, f".{name}() at L{ln} on the caller's file object")
        return [(p, Opaque(("filecall", name, next(eng.counter))))]


class OpenFn:
    """self.open of the handle under contract"""
    tracked = True

    def __init__(self, mode, f0=None):
        self.mode, self.f0 = mode, f0

    def is_none(self, eng, p):
        return z3.BoolVal(False)

    def truth(self, eng, p):
        return z3.BoolVal(True)

    def call(self, eng, p, args, kw, node):
        md = args[1] if len(args) > 1 else kw.get("mode")
        ok = md is None or (isinstance(md, Str) and md.s in ("rb", "r", "br"))
        eng.oblige(p, f"reads.opens_for_reading_only[{eng.entry_tag}]", "post", z3.BoolVal(bool(ok)), node,
                   note=f"self.open called with mode {getattr(md, 's', md)!r}")
        _event(eng, p, "open:" + self.mode, None, node)
        if self.mode == "file-like":
            return [(p, self.f0)]
        fid = f"O{next(eng.counter)}"
        new_file(p, fid, "opened", True)
        return [(p, Custom(FileObj(fid, "opened")))]


class LambdaFn:
    """a lambda created by the code: evaluated with the (late-bound) locals of the defining function"""
    tracked = True

    def __init__(self, node, func):
        self.node, self.func = node, func

    def is_none(self, eng, p):
        return z3.BoolVal(False)

    def truth(self, eng, p):
        return z3.BoolVal(True)

    def call(self, eng, p, args, kw, node):
        env = p.ghost.get("locals:" + self.func)
        if env is None and eng.cur_func == self.func:
            env = p.env
        if env is None:
            raise ProofScriptError("lambda called outside its defining function before that returned")
        a = self.node.args
        loc = dict(env)
        for i, x in enumerate(a.args):
            if i < len(args):
                loc[x.arg] = args[i]
            elif x.arg in kw:
                loc[x.arg] = kw[x.arg]
            else:
                raise ProofScriptError("lambda argument without value")
        if a.vararg:
            loc[a.vararg.arg] = Tup(list(args[len(a.args):]))
        if a.kwarg:
            loc[a.kwarg.arg] = Opaque("kwargs")
        saved = p.env
        p.env = loc
        try:
            outs = eng.ev(self.node.body, p)
        finally:
            p.env = saved
        for q, _ in outs:
            if q is not p:
                q.env = dict(saved)
        return outs


_SN = {}


def stored_names_c(stmts):
    k = tuple(id(x) for x in stmts)
    if k not in _SN:
        _SN[k] = (stmts, frozenset(stored_names(stmts)), frozenset(mutated_names(stmts)))
    return _SN[k][1]


def mutated_names_c(stmts):
    stored_names_c(stmts)
    return _SN[tuple(id(x) for x in stmts)][2]


def holds_io(v):
    """may a file object be reached through this value?"""
    if isinstance(v, Custom):
        return bool(getattr(v.h, "tracked", False)) or isinstance(v.h, PF)
    if isinstance(v, Tup):
        return any(holds_io(x) for x in v.items)
    if isinstance(v, Opt):
        return holds_io(v.val)
    return False


def opaque_not_none(p, tag):
    p.opq[("isnone", tag)] = z3.BoolVal(False)
    return Opaque(tag)


# =================================================================================================
# abstract collections of this module (loops run through frame_for)
# =================================================================================================
class ColList:
    """rg.columns: an arbitrary number of opaque column chunks"""
    tracked = False

    def __init__(self, key):
        self.key = key

    def n(self, eng, p):
        k = ("ncols", self.key)
        if k not in p.opq:
            p.opq[k] = eng.fresh_int("n_columns")
            p.pc.append(p.opq[k] >= 0)
        return p.opq[k]

    def truth(self, eng, p):
        return self.n(eng, p) > 0

    def is_none(self, eng, p):
        return z3.BoolVal(False)

    def len(self, eng, p):
        return PyI(self.n(eng, p))

    def getitem(self, eng, p, i, node):
        return Opaque(("col", self.key, str(getattr(i, "z", "?"))))

    def for_loop(self, eng, p, st):
        return frame_for(eng, p, st, self.n(eng, p), lambda e, q, k: Opaque(("col", self.key, next(e.counter))))


class HRG(RG):
    def attr(self, eng, p, name):
        if name == "columns":
            return Custom(ColList((str(self.L), str(self.j))))
        return super().attr(eng, p, name)


class HRGList(RGList):
    def item(self, eng, p, k):
        return Custom(HRG(self.L, k))

    def getitem(self, eng, p, i, node):
        if isinstance(i, Custom) and isinstance(i.h, SliceObj):
            key = ("selection", str(self.L), id(i.h))
            if key not in p.opq:
                n2 = eng.fresh_int("n_sliced")
                p.pc += [n2 >= 0, n2 <= z3.If(self.n >= 0, self.n, 0)]
                L2 = z3.IntVal(next(_ids))
                p.pc.append(S(L2, 0) == 0)
                p.opq[key] = Custom(HRGList(L2, n2, origin=("getitem", self.L, i.h)))
            return p.opq[key]
        k = eng.as_int(i, p, node)
        idx = z3.simplify(z3.If(k < 0, self.n + k, k))
        eng.oblige(p, f"{eng.cur_func}.index_in_range@L{node.lineno}", "safety", z3.And(0 <= idx, idx < self.n), node)
        return Custom(HRG(self.L, idx))

    def arbitrary(self, eng, p):
        return Custom(HRG(self.L, eng.fresh_int("rg_j")))

    def enumerate(self, eng, p):
        return Custom(HEnum(self))

    def for_loop(self, eng, p, st):
        return frame_for(eng, p, st, self.n, self.item)

    def call_method(self, eng, p, name, args, kw, node):
        if name == "index" and len(args) == 1:
            a = args[0]
            if isinstance(a, Custom) and isinstance(a.h, RG) and z3.eq(z3.simplify(a.h.L), z3.simplify(self.L)):
                return [(p, PyI(a.h.j))]
            i = eng.fresh_int("index_of")
            p.pc += [0 <= i, i < self.n]
            return [(p, PyI(i))]
        return super().call_method(eng, p, name, args, kw, node)


class HEnum:
    tracked = False

    def __init__(self, base):
        self.base = base

    def for_loop(self, eng, p, st):
        return frame_for(eng, p, st, self.base.n, lambda e, q, k: Tup([PyI(k), self.base.item(e, q, k)]))


class HZip:
    tracked = False

    def __init__(self, rgs, other):
        self.rgs, self.other = rgs, other

    def for_loop(self, eng, p, st):
        return frame_for(eng, p, st, self.rgs.n, lambda e, q, k: Tup([self.rgs.item(e, q, k), self.other(e, q, k)]))


class AnyList:
    """a list built by appends inside an abstract loop: n arbitrary members"""
    tracked = False

    def __init__(self, name, n):
        self.name, self.n = name, n

    def len(self, eng, p):
        return PyI(self.n)

    def item(self, eng, p, k):
        return Opaque((self.name, "item", next(eng.counter)))

    def is_none(self, eng, p):
        return z3.BoolVal(False)


# =================================================================================================
# loops: body once for an arbitrary member; loop-carried state havoc'd; file positions dropped; invariant `open`
# =================================================================================================
def frame_for(eng, p, st, n, item_fn):
    targets = _target_names(st.target)
    assigned = stored_names_c(st.body)
    mutated = mutated_names_c(st.body) - assigned
    pre_files = [fid for fid, _ in p.ghost["files"]]
    tag = eng.entry_tag
    for nm in assigned:
        if holds_io(p.env.get(nm)):
            raise ProofScriptError(f"loop at L{st.lineno} re-assigns {nm!r}, which holds a file object / handle at loop entry")
    out = []

    def havoc(q, in_body, drop):
        for nm in sorted(assigned | targets):
            if nm in q.env:
                q.env[nm] = _fresh_like(eng, q.env[nm], nm)
            elif not in_body:
                q.env[nm] = Opaque(f"{nm}!maybe_bound{next(eng.counter)}")
        for nm in sorted(mutated):
            if nm in q.env:
                q.env[nm] = Custom(Recorder(nm)) if in_body else Custom(AnyList(nm, n))
        if drop:
            drop_positions(q, pre_files)

    n_log0 = len(eng.io_log)
    h = p.fork()
    k = eng.fresh_int("iter_k")
    h.pc += [k >= 0, k < n]
    if eng.feasible(h):
        havoc(h, True, True)
        h.ghost["iter_k"] = k
        for b0 in eng.assign(st.target, item_fn(eng, h, k), h):
            for b in eng.block(st.body, [b0]):
                if b.ctl == "break":
                    b.ctl = None
                    out.append(b)
                elif b.ctl is None or b.ctl == "continue":
                    for fid in pre_files:
                        if b.ghost["fstate"][(fid, "closed")] and not p.ghost["fstate"][(fid, "closed")]:
                            _viol(eng, b, "reads.file_left_open_for_next_iteration", st,
                                  f"the loop body at L{st.lineno} closes a file that was opened before the loop: the next row group / column cannot be read")
                    for nm in assigned:
                        if holds_io(b.env.get(nm)) and nm in p.env:
                            raise ProofScriptError(f"loop at L{st.lineno}: {nm!r} carries a file object between iterations")
                    A0, A1 = p.ghost.get("attrs", {}), b.ghost.get("attrs", {})
                    for key in A0:
                        if holds_io(A0[key]) and A1.get(key) is not A0[key]:
                            raise ProofScriptError(f"loop at L{st.lineno} re-assigns {key[0]}.{key[1]}, through which a file is reached")
                else:
                    out.append(b)
    # ONE exit state for "no iteration" and "all iterations done": everything the body assigns is arbitrary (the entry values are
    # a special case); positions are dropped unless no explored path of the body produced an I/O event at all
    x = p.fork()
    havoc(x, False, len(eng.io_log) > n_log0)
    x.ghost.pop("iter_k", None)
    for nm in targets:
        x.env[nm] = Opaque(f"{nm}!after_loop{next(eng.counter)}")
    out += eng.block(st.orelse, [x]) if st.orelse else [x]
    return out


# =================================================================================================
# engine
# =================================================================================================
class EngH(Eng6):
    def __init__(self, *a, **kw):
        self.entry_tag = kw.pop("entry_tag", "?")
        super().__init__(*a, **kw)
        self.io_log = []          # every event of every explored path (also those that end inside a loop body)
        self._names = {}

    def _consts(self, e):
        k = e.get_id()
        if k not in self._names:
            acc, todo = set(), [e]
            while todo:
                x = todo.pop()
                if z3.is_app(x) and x.decl().kind() == z3.Z3_OP_UNINTERPRETED:
                    acc.add(x.decl().name())
                todo.extend(x.children())
            self._names[k] = (e, frozenset(acc))
        return self._names[k][1]

    def _pc_names(self, p):
        """names of the uninterpreted constants in p.pc (cached on the path, extended incrementally)"""
        n0, acc = p.ghost.get("_pcnames", (0, frozenset()))
        if n0 > len(p.pc):
            n0, acc = 0, frozenset()
        if n0 < len(p.pc):
            new = set()
            for c in p.pc[n0:]:
                new |= self._consts(c)
            acc = acc | new
            p.ghost["_pcnames"] = (len(p.pc), acc)
        return acc

    def feasible(self, p, extra=None):
        """a condition over constants the path condition does not mention (the memoised truth of an opaque value, ...) is
        decided on its own: a fresh boolean literal without any solver call, anything else by a query on the literal alone"""
        lit = extra if extra is not None else (p.pc[-1] if p.pc else None)
        if lit is not None:
            s = z3.simplify(lit)
            if z3.is_false(s):
                return False
            if z3.is_true(s):
                return True
            if extra is not None:
                names = self._pc_names(p)
            else:
                last = p.pc.pop()
                try:
                    names = self._pc_names(p)
                finally:
                    p.pc.append(last)
            mine = self._consts(s)
            if mine and not (mine & names):
                b = s.arg(0) if z3.is_not(s) else s
                if z3.is_const(b) and z3.is_bool(b):
                    return True
                k = ("alone", s.get_id())
                if k not in self._names:
                    sol = z3.Solver()
                    sol.set("timeout", self.feas_timeout)
                    sol.add(s)
                    self._names[k] = (s, sol.check() != z3.unsat)
                return self._names[k][1]
        return super().feasible(p, extra)

    def e_UnaryOp(self, e, p):
        if isinstance(e.op, (ast.USub, ast.Invert, ast.UAdd)):
            out = []
            for q, v in self.ev(e.operand, p):
                if isinstance(v, Opaque):
                    out.append((q, Opaque(("unary", type(e.op).__name__, str(v.tag)[:60]))))
                else:
                    out.append((q, self._unary(e, v, q)))
            return out
        return super().e_UnaryOp(e, p)

    def _unary(self, e, v, q):
        if isinstance(e.op, ast.UAdd):
            return v
        if isinstance(v, (PyI, PyB)):
            z = self.as_int(v)
            return PyI(z3.simplify(-z if isinstance(e.op, ast.USub) else -z - 1), lit=getattr(v, "lit", False))
        raise Unsupported("unary operator on " + type(v).__name__)

    # ---- statements ----
    def s_With(self, st, p):
        qs = [(p, [])]
        for item in st.items:
            nq = []
            for q, fs in qs:
                for r, v in self.ev(item.context_expr, q):
                    fs2 = list(fs)
                    if isinstance(v, Custom) and isinstance(v.h, FileObj):
                        _event(self, r, "__enter__", v.h.fid, st, v.h.origin)
                        fs2.append(v.h)
                    elif isinstance(v, Custom) and getattr(v.h, "tracked", False):
                        raise Unsupported("tracked object used as a context manager")
                    if item.optional_vars is not None:
                        nq += [(r2, fs2) for r2 in self.assign(item.optional_vars, v, r)]
                    else:
                        nq.append((r, fs2))
            qs = nq
        res = []
        for q, fs in qs:
            for r in self.block(st.body, [q]):
                for f in reversed(fs):          # __exit__ runs on every way out of the body
                    f.life_ends(self, r, "with-statement exit (__exit__ closes the file)", st)
                res.append(r)
        return res

    def s_While(self, st, p):
        spec, ordinal = self.loop_spec(st)
        if spec is not None:
            return super().s_While(st, p)
        # a loop the script does not execute: sound to skip when nothing that can reach a file object is in scope
        bad = sorted(nm for nm, v in p.env.items() if holds_io(v))
        if bad:
            raise ProofScriptError(f"while loop at L{st.lineno} of {self.cur_func} with a file object / handle in scope ({', '.join(bad)})")
        p.ghost["skipped_loops"] = p.ghost.get("skipped_loops", []) + [f"{self.cur_func} L{st.lineno}"]
        for nm in sorted(stored_names_c(st.body) | stored_names_c(st.orelse)):
            p.env[nm] = _fresh_like(self, p.env[nm], nm) if nm in p.env else Opaque(f"{nm}!maybe_bound{next(self.counter)}")
        return [p]

    def s_For(self, st, p):
        it = st.iter
        if isinstance(it, ast.Call) and isinstance(it.func, ast.Name) and it.func.id == "range":
            return super().s_For(st, p)
        outs = []
        for q, coll in self.ev(it, p):
            if isinstance(coll, Opt):
                self.oblige(q, f"{self.cur_func}.no_iteration_over_None@L{st.lineno}", "safety", z3.Not(coll.isnone), st)
                coll = coll.val
            if isinstance(coll, Custom) and hasattr(coll.h, "for_loop"):
                outs += coll.h.for_loop(self, q, st)
                continue
            if isinstance(coll, Custom) and isinstance(coll.h, RGList):
                outs += frame_for(self, q, st, coll.h.n, lambda e, r, k, c=coll.h: Custom(HRG(c.L, k)))
                continue
            if isinstance(coll, Opaque) or (isinstance(coll, Custom) and not getattr(coll.h, "tracked", False)
                                            and not hasattr(coll.h, "iterate")):
                n = self.fresh_int("n_items")
                q.pc.append(n >= 0)
                tag = getattr(coll, "tag", type(getattr(coll, "h", None)).__name__)
                outs += frame_for(self, q, st, n, lambda e, r, k, t=tag: Opaque((str(t)[:40], "member", next(e.counter))))
                continue
            items = coll.items if isinstance(coll, Tup) else coll.h.iterate(self, q) if isinstance(coll, Custom) and hasattr(coll.h, "iterate") else None
            if items is None:
                raise Unsupported(f"for over {type(coll).__name__} in {self.cur_func} L{st.lineno}")
            live, done = [q], []
            for item in items:
                nxt = []
                for r in live:
                    for r2 in self.assign(st.target, item, r):
                        for r3 in self.block(st.body, [r2]):
                            if r3.ctl == "break":
                                r3.ctl = None
                                done.append(r3)
                            elif r3.ctl == "continue" or r3.ctl is None:
                                r3.ctl = None
                                nxt.append(r3)
                            else:
                                done.append(r3)
                live = nxt
            for r in live:
                done += self.block(st.orelse, [r]) if st.orelse else [r]
            outs += done
        return outs

    def s_Delete(self, st, p):
        for t in st.targets:
            if isinstance(t, ast.Name):
                if holds_io(p.env.get(t.id)):
                    raise Unsupported("del of a name bound to a file object")      # __del__ may close it
                p.env.pop(t.id, None)
            elif isinstance(t, ast.Subscript):
                o = self.ev1(t.value, p)
                if not isinstance(o, Opaque):
                    raise Unsupported("del of an item of a modelled object")
            else:
                raise Unsupported("del")
        return [p]

    def s_Try(self, st, p):
        """normal flow as the engine does; in addition every handler is entered from the state at the START of the try body
        (positions dropped): an exception raised by an opaque call inside the body is not modelled otherwise"""
        extra = []
        for h in st.handlers:
            q = p.fork()
            drop_positions(q)
            if h.name:
                q.env[h.name] = Opaque(("exception", st.lineno))
            q.ghost["in_handler"] = True
            for r in self.block(h.body, [q]):
                extra.append(r)
        outs = super().s_Try(st, p)
        if st.finalbody and extra:
            res = []
            for q in extra:
                c = q.ctl
                q.ctl = None
                for r in self.block(st.finalbody, [q]):
                    if r.ctl is None:
                        r.ctl = c
                    res.append(r)
            extra = res
        return outs + extra

    # ---- expressions ----
    def e_Slice(self, e, p):
        return [(p, Opaque(("sliceobj", next(self.counter))))]

    def e_Lambda(self, e, p):
        return [(p, Custom(LambdaFn(e, self.cur_func)))]

    def e_DictComp(self, e, p):
        out = []
        for q, v in super().e_DictComp(e, p):
            if isinstance(v, Opaque):
                q.opq[("isnone", v.tag)] = z3.BoolVal(False)
            out.append((q, v))
        return out

    def e_Dict(self, e, p):
        if not e.keys:
            return [(p, opaque_not_none(p, ("dict", next(self.counter))))]
        if any(k is None for k in e.keys) and all(k is None or (isinstance(k, ast.Constant) and isinstance(k.value, str)) for k in e.keys):
            out = []
            for q, vs in self.ev_list(e.values, p):
                sd = None
                for k, v in zip(e.keys, vs):
                    if k is None:
                        if sd is None and isinstance(v, Custom) and isinstance(v.h, (HPFDict, StateDict)):
                            sd = StateDict(v.h.oid) if isinstance(v.h, HPFDict) else StateDict(v.h.base, v.h.over)
                        elif sd is not None and isinstance(v, Custom) and isinstance(v.h, DictLit):
                            sd.over.update(v.h.d)
                        else:
                            raise Unsupported("dict display with ** of an unmodelled mapping")
                    else:
                        if sd is None:
                            raise Unsupported("dict display: keys before the ** mapping")
                        sd.over[k.value] = v
                out.append((q, Custom(sd)))
            return out
        return super().e_Dict(e, p)

    def e_Call(self, e, p):
        fn = e.func
        if isinstance(fn, ast.Name) and isinstance(p.env.get(fn.id), Custom) and hasattr(p.env[fn.id].h, "call"):
            out = []
            for q, (args, kw) in self.ev_args(e, p):
                out += q.env[fn.id].h.call(self, q, args, kw, e)
            return out
        return super().e_Call(e, p)

    def identical(self, a, b, p):
        for x, y in ((a, b), (b, a)):
            if isinstance(x, Opaque) and isinstance(y, (PyB, PyI, Str)):
                key = ("is", x.tag, str(getattr(y, "z", getattr(y, "s", None))))
                if key not in p.opq:
                    p.opq[key] = self.fresh("is_const", z3.BoolSort())
                return p.opq[key]
        if isinstance(a, Opaque) and isinstance(b, Opaque):
            if a.tag == b.tag:
                return z3.BoolVal(True)
            key = ("is",) + tuple(sorted([str(a.tag), str(b.tag)]))
            if key not in p.opq:
                p.opq[key] = self.fresh("is_same", z3.BoolSort())
            return p.opq[key]
        for x, y in ((a, b), (b, a)):
            if isinstance(x, Custom) and isinstance(y, Opaque):
                return z3.BoolVal(False)
        if isinstance(a, Custom) and isinstance(b, Custom) and isinstance(a.h, FileObj) and isinstance(b.h, FileObj):
            return z3.BoolVal(a.h.fid == b.h.fid)
        return super().identical(a, b, p)

    def equal(self, a, b, p, node):
        for x, y in ((a, b), (b, a)):
            if isinstance(x, Custom) and not hasattr(x.h, "eq") and not isinstance(y, (Custom, NoneV, Opt)):
                key = ("eqc", id(x.h), str(getattr(y, "tag", getattr(y, "s", getattr(y, "z", None)))))
                if key not in p.opq:
                    p.opq[key] = self.fresh("eq_obj", z3.BoolSort())
                return p.opq[key]
        return super().equal(a, b, p, node)


class StateDict:
    """dict(pf.__dict__) / pf.__dict__.copy() / {**pf.__dict__, ...}: EVERY attribute of handle `base` (whatever they are) with
    its current value, plus the explicit overrides"""
    tracked = True            # reaches open / a file object: must not flow into unknown calls

    def __init__(self, base, over=None):
        self.base, self.over = base, dict(over or {})

    def is_none(self, eng, p):
        return z3.BoolVal(False)

    def truth(self, eng, p):
        return z3.BoolVal(True)

    def setitem(self, eng, p, i, v, node):
        if not isinstance(i, Str):
            raise Unsupported("state dict with a computed key")
        self.over[i.s] = v          # (the object is created per path: handlers return a fresh one)

    def getitem(self, eng, p, i, node):
        if not isinstance(i, Str):
            raise Unsupported("state dict with a computed key")
        return self.over[i.s] if i.s in self.over else HPF(self.base).attr(eng, p, i.s)

    def call_method(self, eng, p, name, args, kw, node):
        if name == "copy" and not args:
            return [(p, Custom(StateDict(self.base, self.over)))]
        if name == "update" and len(args) == 1 and isinstance(args[0], Custom) and isinstance(args[0].h, DictLit):
            self.over.update(args[0].h.d)
            return [(p, NONE)]
        if name == "pop" and args and isinstance(args[0], Str):
            self.over[args[0].s] = ABSENT
            return [(p, Opaque(("popped", args[0].s)))]
        raise Unsupported("state dict." + name)


ABSENT = Opaque("<<attribute removed from the state>>")


class HPFDict:
    """pf.__dict__"""
    tracked = True

    def __init__(self, oid):
        self.oid = oid

    def call_method(self, eng, p, name, args, kw, node):
        A = p.ghost["attrs"]
        if name == "copy" and not args:
            return [(p, Custom(StateDict(self.oid)))]
        if name == "update" and len(args) == 1 and isinstance(args[0], Custom) and isinstance(args[0].h, DictLit):
            for k, v in args[0].h.d.items():
                A[(self.oid, k)] = v
                p.ghost["writes"].append((self.oid, k))
            return [(p, NONE)]
        if name == "update" and len(args) == 1 and isinstance(args[0], Custom) and isinstance(args[0].h, StateDict):
            sd = args[0].h
            if sd.base != self.oid:
                for (o2, k), v in list(A.items()):
                    if o2 == sd.base and k != "__inherits__":
                        A[(self.oid, k)] = v
                A[(self.oid, "__inherits__")] = A.get((sd.base, "__inherits__"), sd.base) if (sd.base, "__inherits__") in A else sd.base
                p.ghost["writes"].append((self.oid, "<every attribute of " + sd.base + ">"))
            for k, v in sd.over.items():
                A[(self.oid, k)] = v
                p.ghost["writes"].append((self.oid, k))
            return [(p, NONE)]
        raise Unsupported("__dict__." + name)

    def getitem(self, eng, p, i, node):
        if isinstance(i, Str):
            return HPF(self.oid).attr(eng, p, i.s)
        raise Unsupported("__dict__[computed key]")


class HPF(PF):
    """handle whose `open` is modelled; every method used opaquely is recorded (frame.helpers_do_no_file_io)"""

    def attr(self, eng, p, name):
        A = p.ghost["attrs"]
        if name == "__dict__":
            return Custom(HPFDict(self.oid))
        if (self.oid, name) not in A and ("ParquetFile." + name) in eng.funcs:
            p.ghost["opaque_self"] = p.ghost.get("opaque_self", []) + [name]
        if (self.oid, name) not in A and (self.oid, "__inherits__") in A and ("ParquetFile." + name) not in eng.funcs:
            # the whole __dict__ of another handle was copied in: every attribute not assigned since is THAT handle's value
            return HPF(A[(self.oid, "__inherits__")]).attr(eng, p, name)
        return super().attr(eng, p, name)

    def setattr(self, eng, p, name, v):
        if name in ("open", "fn") and self.oid == "pf0" and getattr(eng, "frozen_handle", False):
            # reported at once; the run goes on with the old binding (everything after it is moot once this is refuted)
            eng.oblige(p, f"reads.handle_open_and_fn_unchanged[{eng.entry_tag}]", "post", z3.BoolVal(False), None,
                       note=f"self.{name} is re-assigned by a read: later reads of this handle go somewhere else")
            p.ghost["writes"].append((self.oid, name))
            return
        super().setattr(eng, p, name, v)

    def derived(self, eng, p, rgs, how):
        oid = f"pf{next(_ids)}"
        A = p.ghost["attrs"]
        A[(oid, "row_groups")] = rgs
        for nm in ("open", "fn"):                      # cut: handles.derived_shares_open_and_fn
            A[(oid, nm)] = self.attr(eng, p, nm)
        p.ghost["children"] = p.ghost.get("children", []) + [(oid, self.oid, how)]
        return Custom(HPF(oid))

    def getitem(self, eng, p, i, node):
        rgs = self.attr(eng, p, "row_groups")
        if not (isinstance(rgs, Custom) and isinstance(rgs.h, RGList)):
            raise Unsupported("pick on a handle without abstract row groups")
        one = rgs.h.getitem(eng, p, i, node)
        return self.derived(eng, p, Tup([one], True), ("pick", i))

    def slice(self, eng, p, lo, hi, node):
        rgs = self.attr(eng, p, "row_groups")
        if lo is not None or hi is None or not (isinstance(rgs, Custom) and isinstance(rgs.h, RGList)):
            raise Unsupported("handle slice other than self[:h]")
        n = rgs.h.n
        h = eng.as_int(hi, p, node)
        m = z3.If(h < 0, z3.If(n + h < 0, 0, n + h), z3.If(h > n, n, h))
        return self.derived(eng, p, Custom(HRGList(rgs.h.L, m, origin=("prefix", rgs.h.L, h))), ("prefix", h))

    def call_method(self, eng, p, name, args, kw, node):
        if name == "open":
            v = self.attr(eng, p, "open")
            if isinstance(v, Custom) and hasattr(v.h, "call"):
                return v.h.call(eng, p, args, kw, node)
            raise ProofScriptError("self.open is not a modelled callable")
        m = eng.pf_methods.get(name)
        if m is not None:
            return m(eng, p, self, args, kw, node)
        for a in list(args) + list(kw.values()):
            if holds_io(a):
                raise Unsupported(f"a file object / handle flows into self.{name}")
        p.ghost["opaque_self"] = p.ghost.get("opaque_self", []) + [name]
        return [(p, Opaque(("pfcall", self.oid, name, next(eng.counter))))]


# =================================================================================================
# handlers
# =================================================================================================
def h_sum(eng, p, args, kw, node):
    v = args[0] if args else None
    if isinstance(v, Tup) and all(isinstance(x, (PyI, PyB)) for x in v.items):
        t = z3.IntVal(0)
        for x in v.items:
            t = t + eng.as_int(x)
        return [(p, PyI(z3.simplify(t)))]
    try:
        return h_sum6(eng, p, args, kw, node)
    except Unsupported:
        if holds_io(v):
            raise
        return [(p, PyI(eng.fresh_int("sum")))]


def h_zip(eng, p, args, kw, node):
    if len(args) == 2 and isinstance(args[0], Custom) and isinstance(args[0].h, RGList):
        o = args[1]
        if isinstance(o, Custom) and hasattr(o.h, "item"):
            return [(p, Custom(HZip(_as_h(args[0].h), o.h.item)))]
        if isinstance(o, Opaque) or (isinstance(o, Tup) and not o.items):
            return [(p, Custom(HZip(_as_h(args[0].h), lambda e, q, k: Opaque(("zip2", next(e.counter))))))]
    if len(args) == 2 and isinstance(args[0], Tup) and isinstance(args[1], Custom) and hasattr(args[1].h, "item"):
        return [(p, Tup([Tup([x, args[1].h.item(eng, p, z3.IntVal(i))]) for i, x in enumerate(args[0].items)], True))]
    if len(args) == 2 and isinstance(args[0], Tup) and isinstance(args[1], Tup) and len(args[0].items) == len(args[1].items):
        return [(p, Tup([Tup([x, y]) for x, y in zip(args[0].items, args[1].items)], True))]
    if any(holds_io(a) for a in args):
        raise Unsupported("zip over a file object")
    return [(p, Opaque(("zip", next(eng.counter))))]


def _as_h(rl):
    return rl if isinstance(rl, HRGList) else HRGList(rl.L, rl.n, origin=rl.origin)


def h_list(eng, p, args, kw, node):
    if args and isinstance(args[0], Custom) and isinstance(args[0].h, RGList):
        return [(p, args[0])]
    return BUILTINS["list"](eng, p, args, kw, node)


def h_min(eng, p, args, kw, node):
    if len(args) == 2:
        return BUILTINS["min"](eng, p, args, kw, node)
    if any(holds_io(a) for a in args):
        raise Unsupported("min over a file object")
    return [(p, PyI(eng.fresh_int("min")))]


def h_dict(eng, p, args, kw, node):
    if len(args) == 1 and not kw and isinstance(args[0], Custom) and isinstance(args[0].h, HPFDict):
        return [(p, Custom(StateDict(args[0].h.oid)))]
    if len(args) == 1 and not kw and isinstance(args[0], Custom) and isinstance(args[0].h, StateDict):
        return [(p, Custom(StateDict(args[0].h.base, args[0].h.over)))]
    if len(args) == 1 and not kw and isinstance(args[0], Custom) and isinstance(args[0].h, DictLit):
        return [(p, Custom(DictLit(dict(args[0].h.d))))]
    eng.check_untracked(args, kw, "dict", node)
    return [(p, opaque_not_none(p, ("dict", next(eng.counter))))]


def h_hasattr(eng, p, args, kw, node):
    o, nm = args[0], args[1]
    if isinstance(o, Custom) and isinstance(o.h, PF) and isinstance(nm, Str):
        A = p.ghost["attrs"]
        oid = o.h.oid
        while True:
            if (oid, nm.s) in A:
                return [(p, PyB(A[(oid, nm.s)] is not ABSENT))]
            if (oid, "__inherits__") not in A:
                break
            oid = A[(oid, "__inherits__")]
        if nm.s in getattr(eng, "class_attrs", ()) or ("ParquetFile." + nm.s) in eng.funcs:
            return [(p, PyB(True))]
        if oid in p.ghost.get("new_handles", []):
            return [(p, PyB(False))]             # object.__new__(ParquetFile) has no instance attributes
        key = ("hasattr", oid, nm.s)
        if key not in p.opq:
            p.opq[key] = PyB(eng.fresh("hasattr", z3.BoolSort()))
        return [(p, p.opq[key])]
    if isinstance(o, Custom) and isinstance(o.h, FileObj):
        return [(p, PyB(isinstance(nm, Str) and nm.s in ("read", "seek", "tell", "close", "closed", "readinto")))]
    if isinstance(o, Opaque):
        key = ("hasattr", o.tag, getattr(nm, "s", "?"))
        if key not in p.opq:
            p.opq[key] = PyB(eng.fresh("hasattr", z3.BoolSort()))
        return [(p, p.opq[key])]
    return [(p, PyB(False))]


def h_filter_row_groups(eng, q, args, kw, node):
    pf, fl = args[0], args[1] if len(args) > 1 else kw.get("filters", NONE)
    if not (isinstance(pf, Custom) and isinstance(pf.h, PF)):
        raise Unsupported("filter_row_groups on something that is not a handle")
    own = pf.h.attr(eng, q, "row_groups")
    if isinstance(fl, NoneV) or (isinstance(fl, Tup) and not fl.items):
        return [(q, own)]
    key = ("filtered", pf.h.oid)
    if key not in q.opq:
        n1 = eng.fresh_int("n_filtered_row_groups")
        L1 = z3.IntVal(next(_ids))
        q.pc += [n1 >= 0, S(L1, 0) == 0]
        q.opq[key] = Custom(HRGList(L1, n1, origin=("filtered", pf.h.oid)))
    return [(q, q.opq[key])]


def inline_fn(name):
    def h(eng, p, args, kw, node):
        out = []
        for r in eng.run(name, p, list(args), kw):
            if r.ctl[0] == "ret":
                v = r.ctl[1]
                r.ctl = None
                out.append((r, v))
            else:
                out.append((r, Opaque("raised")))
        return out
    return h


def inline_method(name):
    def m(eng, q, pf, args, kw, node):
        return inline_fn("ParquetFile." + name)(eng, q, [Custom(pf)] + list(args), kw, node)
    return m


def m_read_cut(eng, q, pf, args, kw, node):
    """contract of read_row_group_file (posed on that entry point): seeks absolutely before it reads, on `infile` if given,
    else on what self.open(fn, 'rb') returns; closes nothing it was given; leaves the position arbitrary"""
    names = ("rg", "columns", "categories", "index", "assign", "partition_meta", "row_filter", "infile")
    vals = dict(zip(names, args))
    vals.update(kw)
    inf = vals.get("infile", NONE)
    _event(eng, q, "call:read_row_group_file", getattr(getattr(inf, "h", None), "fid", None), node, "cut")
    for k, v in vals.items():
        if k != "infile" and holds_io(v):
            raise Unsupported(f"a file object flows into read_row_group_file({k}=...)")
    if isinstance(inf, Custom) and isinstance(inf.h, FileObj):
        if q.ghost["fstate"][(inf.h.fid, "closed")]:
            _viol(eng, q, "reads.no_use_after_close", node, "read_row_group_file(infile=<closed file>)")
        drop_positions(q, [inf.h.fid])
    elif isinstance(inf, NoneV):
        op = pf.attr(eng, q, "open")
        if isinstance(op, Custom) and isinstance(op.h, OpenFn) and op.h.mode == "file-like":
            f0 = op.h.f0.h
            if q.ghost["fstate"][(f0.fid, "closed")]:
                _viol(eng, q, "reads.no_use_after_close", node, "read_row_group_file on a handle whose file object is closed")
            drop_positions(q, [f0.fid])
    else:
        raise ProofScriptError("infile= is neither a file object nor None")
    return [(q, Opaque(("frame", next(eng.counter))))]


def h_core_cut(eng, q, args, kw, node):
    """contract of core.read_row_group(file, ...) (posed on that entry point, with read_row_group_arrays and read_col inline):
    every read on `file` follows an absolute seek on it, nothing else is invoked on it, it is not closed; position arbitrary after"""
    f = args[0] if args else kw.get("file")
    for v in list(args[1:]) + [v for k, v in kw.items() if k != "file"]:
        if holds_io(v):
            raise Unsupported("a file object flows into core.read_row_group other than as `file`")
    if not (isinstance(f, Custom) and isinstance(f.h, FileObj)):
        raise ProofScriptError("core.read_row_group is not given a file object")
    _event(eng, q, "call:core.read_row_group", f.h.fid, node, f.h.origin)
    if q.ghost["fstate"][(f.h.fid, "closed")]:
        _viol(eng, q, "reads.no_use_after_close", node, "core.read_row_group(<closed file>)")
    drop_positions(q, [f.h.fid])
    return [(q, NONE)]


def m_to_pandas_cut(eng, q, pf, args, kw, node):
    """contract of to_pandas (posed on that entry point): the caller's object stays open, its position is arbitrary afterwards"""
    for v in list(args) + list(kw.values()):
        if holds_io(v):
            raise Unsupported("a file object flows into to_pandas(...)")
    _event(eng, q, "call:to_pandas", pf.oid, node, "cut")
    op = pf.attr(eng, q, "open")
    shared = isinstance(op, Custom) and op is q.ghost["attrs"].get(("pf0", "open")) and \
        pf.attr(eng, q, "fn") is q.ghost["attrs"].get(("pf0", "fn"))
    eng.oblige(q, f"reads.delegates_to_shared_open[{eng.entry_tag}]", "post", z3.BoolVal(bool(shared)), node,
               note="the data is read by to_pandas of this handle or of self[...], which has this handle's open and fn")
    if not (isinstance(op, Custom) and isinstance(op.h, OpenFn)):
        raise ProofScriptError("to_pandas on a handle without the shared open")
    if op.h.mode == "file-like":
        if q.ghost["fstate"][(op.h.f0.h.fid, "closed")]:
            _viol(eng, q, "reads.no_use_after_close", node, "to_pandas on a handle whose file object is closed")
        drop_positions(q, [op.h.f0.h.fid])
    return [(q, opaque_not_none(q, ("frame", next(eng.counter))))]


HANDLERS = {"sum": h_sum, "len": h_len, "zip": h_zip, "list": h_list, "min": h_min, "hasattr": h_hasattr, "dict": h_dict,
            "filter_row_groups": h_filter_row_groups}


# =================================================================================================
# runs on the effect trace
# =================================================================================================
def start_path(mode, n_name="n_row_groups"):
    N0 = z3.Int(n_name)
    p = Path()
    L0 = z3.IntVal(0)
    p.pc += [N0 >= 0, S(L0, 0) == 0]
    own = Custom(HRGList(L0, N0, origin="own"))
    p.ghost["files"], p.ghost["fstate"], p.ghost["io"], p.ghost["writes"] = [], {}, [], []
    f0 = None
    if mode == "file-like":
        f0 = Custom(FileObj("F0", "caller"))
        new_file(p, "F0", "caller", False)
    p.ghost["attrs"] = {("pf0", "row_groups"): own, ("pf0", "fmd"): Custom(FMD("fmd0", "fmd0")), ("fmd0", "row_groups"): own,
                        ("pf0", "open"): Custom(OpenFn(mode, f0)),
                        ("pf0", "fn"): NONE if mode == "file-like" else Opaque("fn:path of the data / _metadata file")}
    return p, L0, N0, f0


def open_fn_of(p):
    return {k: p.ghost["attrs"][k] for k in (("pf0", "open"), ("pf0", "fn"))}


def pre_ok(ctx, p, label):
    if solve(list(p.pc), 2000)[0] == REFUTED:
        ctx.vacuity["requires_sat"] += 1
    else:
        ctx.engine_error(f"{label}: precondition unsatisfiable")


def mk_engine(funcs, tag, pf_methods=None, handlers=None, frozen=False):
    eng = EngH(funcs=funcs, handlers=dict(HANDLERS, **(handlers or {})), opaque_calls=True, pf_methods=pf_methods or {}, entry_tag=tag)
    eng.frozen_handle = frozen        # read entry points: the handle's open / fn must not be re-bound
    eng.class_attrs = class_level_attrs(SRC["tree"]) if SRC["tree"] is not None else set()
    return eng


def finish_trace(ctx, res, eng, outs, tag, timeout, expect_ops=True, label=None, entry_attrs=None):
    """discharge what the handlers emitted, then the whole-trace statements"""
    emitted = {}
    for ob in eng.oblig:
        if not (ob.name.startswith(MINE) or ob.kind == "unwind"):
            continue
        st, be, secs, m = backends.discharge(ob, timeout)
        emitted.setdefault(ob.name, []).append(st)
        res.add(ob.name, st, {"note": ob.note, "line": ob.lineno, "z3_model": str(m)[:200]} if st == REFUTED else None, secs, be,
                ob.note if st != PROVED else DETAIL.get(ob.name.split("[")[0], ob.note))
    eng.oblig = []
    n_ops = sum(1 for ev in eng.io_log if ev[1] is not None)
    # the caller's objects are open on every finished path
    still = []
    for q in outs:
        for fid, origin in q.ghost["files"]:
            if origin == "caller" and q.ghost["fstate"][(fid, "closed")] and solve(list(q.pc), 2000)[0] == REFUTED:
                still.append((fid, str(q.ctl)[:40]))
    nm = f"reads.callers_file_object_not_closed[{tag}]"
    if still and nm not in emitted:
        res.add(nm, REFUTED, {"closed_at_exit": str(still[:3])}, 0.0, "trace", DETAIL["reads.callers_file_object_not_closed"])
    for base in ("reads.callers_file_object_not_closed", "reads.only_position_changes", "reads.seek_before_read",
                 "reads.no_use_after_close", "reads.file_left_open_for_next_iteration"):
        nm = f"{base}[{tag}]"
        if nm not in emitted and nm not in res.d:
            res.add(nm, PROVED, None, 0.0, "trace",
                    DETAIL[base] + f" - {len(outs)} finished paths, {n_ops} file operations / calls on the trace, none violates it")
    if entry_attrs is not None and f"reads.handle_open_and_fn_unchanged[{tag}]" not in emitted:
        changed = sorted({f"{k[0]}.{k[1]}" for q in outs for k in entry_attrs
                          if q.ghost["attrs"].get(k) is not entry_attrs[k] and solve(list(q.pc), 2000)[0] == REFUTED})
        res.add(f"reads.handle_open_and_fn_unchanged[{tag}]", PROVED if not changed else REFUTED, {"reassigned": changed} if changed else None, 0.0, "trace",
                "a read does not rebind self.open / self.fn: the handle reads the same file through the same function next time")
    sk = sorted({s for q in outs for s in q.ghost.get("skipped_loops", [])})
    if sk:
        res.add(f"reads.page_loop_cannot_reach_a_file[{tag}]", PROVED, None, 0.0, "trace",
                "loops skipped with no file object / handle / open function reachable from the locals: " + ", ".join(sk))
    n_ret = sum(1 for q in outs if q.ctl[0] == "ret")
    if n_ret == 0:
        ctx.engine_error(f"{label or tag}: no returning path")
    if expect_ops:
        if n_ops:
            ctx.vacuity["covers"] += n_ret
        else:
            ctx.engine_error(f"{label or tag}: the trace holds no file operation (vacuous frame)")
    return n_ops


def opaque_self_used(outs):
    return sorted({nm for q in outs for nm in q.ghost.get("opaque_self", [])})


def run_to_pandas(ctx, funcs, timeout, mode, used):
    res = Results()
    tag = f"to_pandas,{mode}"
    p, L0, N0, f0 = start_path(mode)
    eng = mk_engine(funcs, tag, pf_methods={"read_row_group_file": m_read_cut, "to_pandas": m_to_pandas_cut}, frozen=True)
    kwargs = {"columns": NONE, "categories": NONE, "index": NONE, "dtypes": NONE, "filters": Opaque("arg:filters"),
              "row_filter": Opaque("arg:row_filter")}
    pre_ok(ctx, p, tag)
    ea = open_fn_of(p)
    outs = eng.run("ParquetFile.to_pandas", p, [Custom(HPF("pf0"))], kwargs)
    finish_trace(ctx, res, eng, outs, tag, timeout, entry_attrs=ea)
    # must-fail / coverage: in file-like mode the object handed to read_row_group_file IS the caller's
    if mode == "file-like":
        hit = any(ev[0] == "call:read_row_group_file" and ev[1] == "F0" for ev in eng.io_log)
        if hit:
            ctx.vacuity["must_fail_sat"] += 1
        else:
            ctx.engine_error("to_pandas[file-like]: the caller's object never reaches read_row_group_file (model too weak)")
    used |= set(opaque_self_used(outs))
    return res


def run_read_row_group_file(ctx, funcs, timeout, mode, infile_given, used):
    res = Results()
    tag = f"read_row_group_file,{mode},infile={'given' if infile_given else 'None'}"
    p, L0, N0, f0 = start_path(mode)
    inf = NONE
    if infile_given:
        inf = Custom(FileObj("G0", "caller"))
        new_file(p, "G0", "caller", False)
    eng = mk_engine(funcs, tag, pf_methods={"read_row_group_file": m_read_cut, "to_pandas": m_to_pandas_cut},
                    handlers={"core.read_row_group": h_core_cut}, frozen=True)
    j = z3.Int("rg_index")
    p.pc += [0 <= j, j < N0]
    kwargs = {"index": NONE, "assign": Opaque("arg:assign"), "partition_meta": Opaque("arg:partition_meta"),
              "row_filter": Opaque("arg:row_filter"), "infile": inf}
    pre_ok(ctx, p, tag)
    ea = open_fn_of(p)
    outs = eng.run("ParquetFile.read_row_group_file", p, [Custom(HPF("pf0")), Custom(HRG(L0, j)), Opaque("arg:columns"), Opaque("arg:categories")], kwargs)
    n_ops = finish_trace(ctx, res, eng, outs, tag, timeout, entry_attrs=ea)
    want = "G0" if infile_given else ("F0" if mode == "file-like" else None)
    hits = [ev for ev in eng.io_log if ev[0] == "call:core.read_row_group"]
    if hits and all((ev[1] == want) if want else str(ev[1]).startswith("O") for ev in hits):
        ctx.vacuity["must_fail_sat"] += 1       # "the object given is never read" is refuted: the frame is not vacuous
        res.add(f"reads.reads_the_object_it_was_given[{tag}]", PROVED, None, 0.0, "trace",
                "the file handed to core.read_row_group is `infile` when given, else what self.open(fn, mode='rb') returned")
    else:
        res.add(f"reads.reads_the_object_it_was_given[{tag}]", REFUTED if hits else UNKNOWN, {"calls": str(hits[:3]), "expected": want}, 0.0, "trace",
                "the file handed to core.read_row_group is `infile` when given, else what self.open(fn, mode='rb') returned")
    used |= set(opaque_self_used(outs))
    return res


def run_core_read_row_group(ctx, funcs, timeout):
    """core.read_row_group(file, rg, ...) with read_row_group_arrays and read_col inline: the only place where bytes are read"""
    res = Results()
    tag = "core.read_row_group"
    p, L0, N0, f0 = start_path("path")
    f = Custom(FileObj("G0", "caller"))
    new_file(p, "G0", "caller", False)
    eng = mk_engine(funcs, tag, handlers={"read_row_group_arrays": inline_fn("read_row_group_arrays"), "read_col": inline_fn("read_col")})
    j = z3.Int("rg_index")
    p.pc += [0 <= j, j < N0]
    args = [f, Custom(HRG(L0, j)), Opaque("arg:columns"), Opaque("arg:categories"), Opaque("arg:schema_helper"), Opaque("arg:cats")]
    kwargs = {"selfmade": Opaque("arg:selfmade"), "index": Opaque("arg:index"), "assign": opaque_not_none(p, "arg:assign"),
              "scheme": Opaque("arg:scheme"), "partition_meta": Opaque("arg:partition_meta"), "row_filter": Opaque("arg:row_filter")}
    pre_ok(ctx, p, tag)
    outs = eng.run("read_row_group", p, args, kwargs)
    finish_trace(ctx, res, eng, outs, tag, timeout)
    reads = sum(1 for ev in eng.io_log if ev[0] == "read")
    if reads:
        ctx.vacuity["must_fail_sat"] += 1       # "this function never reads" is refuted: the seek obligation is not vacuous
    else:
        ctx.engine_error(f"{tag}: no read on the trace")
    return res


def run_delegating(ctx, funcs, timeout, mode, entry, used):
    """iter_row_groups / head / count(row_filter=True) / _read_partitions: every byte is read through <derived handle>.to_pandas"""
    res = Results()
    tag = f"{entry},{mode}"
    p, L0, N0, f0 = start_path(mode)
    eng = mk_engine(funcs, tag, pf_methods={"read_row_group_file": m_read_cut, "to_pandas": m_to_pandas_cut}, frozen=True)
    me = Custom(HPF("pf0"))
    ea = open_fn_of(p)
    if entry == "iter_row_groups":
        outs = eng.run("ParquetFile.iter_row_groups", p, [me], {"filters": Opaque("arg:filters")})
    elif entry == "head":
        nrows = z3.Int("nrows")
        p.pc.append(nrows >= 0)
        outs = eng.run("ParquetFile.head", p, [me, PyI(nrows)])
    elif entry == "count":
        outs = eng.run("ParquetFile.count", p, [me], {"filters": Opaque("arg:filters"), "row_filter": PyB(True)})
    else:
        outs = eng.run("ParquetFile." + entry, p, [me])
    finish_trace(ctx, res, eng, outs, tag, timeout, expect_ops=False, entry_attrs=ea)
    n = sum(1 for ev in eng.io_log if ev[0] == "call:to_pandas")
    if entry != "_read_partitions":
        if n:
            ctx.vacuity["covers"] += 1
        else:
            res.add(f"reads.delegates_to_shared_open[{tag}]", UNKNOWN, None, 0.0, "trace", "no to_pandas call on the trace: the script does not see how this entry point reads")
    used |= set(opaque_self_used(outs))
    return res


def run_init(ctx, funcs, timeout, variant, used):
    res = Results()
    tag = f"__init__,file-like,{variant}"
    p = Path()
    p.ghost["files"], p.ghost["fstate"], p.ghost["io"], p.ghost["writes"], p.ghost["attrs"] = [], {}, [], [], {}
    fobj = Custom(FileObj("F0", "caller"))
    new_file(p, "F0", "caller", False)
    nfoot = z3.Int("n_footer_row_groups")
    p.pc.append(nfoot >= 0)

    def h_from_buffer(eng, q, args, kw, node):
        if any(holds_io(a) for a in args):
            raise Unsupported("file object given to from_buffer")
        oid = f"fmd{next(_ids)}"
        q.ghost["attrs"][(oid, "row_groups")] = Custom(HRGList(z3.IntVal(0), nfoot, origin="footer"))
        return [(q, Custom(FMD(oid, oid)))]

    def h_fs(eng, q, args, kw, node):
        return [(q, opaque_not_none(q, ("filesystem", next(eng.counter))))]
    eng = mk_engine(funcs, tag, pf_methods={"_parse_header": inline_method("_parse_header")},
                    handlers={"from_buffer": h_from_buffer, "fsspec.filesystem": h_fs})
    kwargs = {"verify": PyB(z3.Bool("verify"))}
    if variant == "fs given":
        kwargs["fs"] = opaque_not_none(p, "arg:fs")
    outs = eng.run("ParquetFile.__init__", p, [Custom(HPF("pf0")), fobj], kwargs)
    eng.oblig = [ob for ob in eng.oblig if ob.kind != "assert"]       # `assert` in _parse_header: checks of the code itself
    finish_trace(ctx, res, eng, outs, tag, timeout)
    n_ret = 0
    for q in outs:
        if q.ctl[0] != "ret":
            continue
        n_ret += 1
        A = q.ghost["attrs"]
        op, fnv = A.get(("pf0", "open")), A.get(("pf0", "fn"))
        nm = f"handles.open_returns_callers_object[{tag}]"
        if not (isinstance(op, Custom) and hasattr(op.h, "call")):
            res.add(nm, UNKNOWN, None, 0.0, "engine",
                    "self.open is bound to something the script cannot evaluate (" + type(getattr(op, 'h', op)).__name__ + "): undecided")
            continue
        n_io = len(q.ghost["io"])
        q2 = q.fork()
        eng.cur_func = "ParquetFile.__init__"
        try:
            got = op.h.call(eng, q2, [Opaque("any path"), Str("rb")], {}, None)
        except (ProofScriptError, Unsupported) as ex:
            res.add(nm, UNKNOWN, None, 0.0, "engine", str(ex))
            continue
        ok = all(isinstance(v, Custom) and isinstance(v.h, FileObj) and v.h.fid == "F0" and len(r.ghost["io"]) == n_io for r, v in got)
        none_fn = isinstance(fnv, NoneV)
        res.add(nm, PROVED if ok and none_fn else REFUTED, None if ok and none_fn else {"open_result": str([type(getattr(v, 'h', v)).__name__ for _, v in got]),
                                                                                     "fn": type(fnv).__name__}, 0.0, "trace",
                "self.open(<anything>, 'rb') evaluates to the very object given to ParquetFile(...), without touching it; self.fn is None")
        kept = sorted(name for (o, name), v in A.items() if name != "open" and holds_io(v))
        res.add(f"handles.file_object_only_reachable_through_open[{tag}]", PROVED if not kept else REFUTED, {"attributes": kept} if kept else None, 0.0, "trace",
                "the handle keeps no other reference to the caller's object (no attribute holds it): every later use goes through self.open")
    eng.oblig = []
    if n_ret:
        ctx.vacuity["covers"] += n_ret
    reads = sum(1 for ev in eng.io_log if ev[0] == "read")
    if reads:
        ctx.vacuity["must_fail_sat"] += 1
    used |= set(opaque_self_used(outs))
    return res


# =================================================================================================
# derived handles: __getitem__, __getstate__ / __setstate__; counts on the handle __getitem__ actually builds
# =================================================================================================
def h_new(eng, q, args, kw, node):
    oid = f"pf{next(_ids)}"
    q.ghost["new_handles"] = q.ghost.get("new_handles", []) + [oid]
    return [(q, Custom(HPF(oid)))]


def h_copy(eng, q, args, kw, node):
    o = args[0]
    if not (isinstance(o, Custom) and isinstance(o.h, FMD)):
        raise Unsupported("copy.copy of something that is not the footer")
    oid = f"fmd{next(_ids)}"
    A = q.ghost["attrs"]
    for (o2, name), v in list(A.items()):
        if o2 == o.h.oid:
            A[(oid, name)] = v
    return [(q, Custom(FMD(oid, o.h.root, copy_of=o.h.oid)))]


# =================================================================================================
# which attributes of a handle depend on its row groups?  (data + control taint over the real source of class ParquetFile)
# =================================================================================================
def _class_node(tree, name="ParquetFile"):
    return next((n for n in tree.body if isinstance(n, ast.ClassDef) and n.name == name), None)


def class_level_attrs(tree):
    c = _class_node(tree)
    out = set()
    for n in (c.body if c is not None else []):
        if isinstance(n, ast.Assign):
            out |= {t.id for t in n.targets if isinstance(t, ast.Name)}
    return out


def rg_dependent_attrs(tree):
    """{attribute: [methods that store it]} for every `self.X = v` whose value (data flow) or whose execution (enclosing loop /
    if: control flow) depends on `<anything>.row_groups`, on a call that is handed the whole handle (`f(self)`), on a property /
    attribute of self that is itself row-group dependent.  Over-approximation; fixpoint over the methods of the class."""
    c = _class_node(tree)
    if c is None:
        return {}
    methods = [n for n in c.body if isinstance(n, ast.FunctionDef)]
    is_prop = {m.name for m in methods if any(isinstance(d, ast.Name) and d.id == "property" for d in m.decorator_list)}
    dep, props = {}, set()

    def run(m):
        T = set()

        def tainted(e):
            for n in ast.walk(e):
                if isinstance(n, ast.Attribute) and n.attr == "row_groups":
                    return True
                if isinstance(n, ast.Attribute) and isinstance(n.value, ast.Name) and n.value.id == "self" and (n.attr in dep or n.attr in props):
                    return True
                if isinstance(n, ast.Call) and any(isinstance(a, ast.Name) and a.id == "self" for a in n.args):
                    return True
                if isinstance(n, ast.Name) and isinstance(n.ctx, ast.Load) and n.id in T:
                    return True
            return False

        def taint_target(t):
            if isinstance(t, ast.Name):
                T.add(t.id)
            elif isinstance(t, (ast.Tuple, ast.List)):
                for x in t.elts:
                    taint_target(x)
            elif isinstance(t, ast.Attribute) and isinstance(t.value, ast.Name) and t.value.id == "self":
                dep.setdefault(t.attr, set()).add(m.name)
            elif isinstance(t, (ast.Subscript, ast.Attribute)):
                b = t.value
                while isinstance(b, (ast.Subscript, ast.Attribute)):
                    b = b.value
                if isinstance(b, ast.Name) and b.id != "self":
                    T.add(b.id)

        def block(stmts, ctl):
            for st in stmts:
                if isinstance(st, ast.Assign):
                    if ctl or tainted(st.value):
                        for t in st.targets:
                            taint_target(t)
                elif isinstance(st, (ast.AugAssign, ast.AnnAssign)):
                    if st.value is not None and (ctl or tainted(st.value)):
                        taint_target(st.target)
                elif isinstance(st, (ast.For, ast.AsyncFor)):
                    t = ctl or tainted(st.iter)
                    if t:
                        taint_target(st.target)
                    block(st.body, t)
                    block(st.orelse, t)
                elif isinstance(st, (ast.If, ast.While)):
                    t = ctl or tainted(st.test)
                    block(st.body, t)
                    block(st.orelse, t)
                elif isinstance(st, (ast.With, ast.AsyncWith)):
                    block(st.body, ctl)
                elif isinstance(st, ast.Try):
                    block(st.body, ctl)
                    for h in st.handlers:
                        block(h.body, ctl)
                    block(st.orelse, ctl)
                    block(st.finalbody, ctl)
                elif isinstance(st, ast.Expr) and isinstance(st.value, ast.Call) and isinstance(st.value.func, ast.Attribute) and \
                        st.value.func.attr in ("append", "extend", "insert", "update", "add", "setdefault", "pop", "remove", "sort", "clear"):
                    if ctl or any(tainted(a) for a in st.value.args):           # x.append(tainted) / x.update(...)
                        taint_target(st.value.func.value if isinstance(st.value.func.value, (ast.Name, ast.Subscript, ast.Attribute)) else st.value.func)
                elif isinstance(st, ast.Return) and st.value is not None and m.name in is_prop:
                    if ctl or tainted(st.value):
                        props.add(m.name)
        for _ in range(3):
            block(m.body, False)
    for _ in range(4):
        n0 = (sum(len(v) for v in dep.values()), len(props))
        for m in methods:
            run(m)
        if (sum(len(v) for v in dep.values()), len(props)) == n0:
            break
    return {k: sorted(v) for k, v in dep.items()}


def set_attrs_closure(funcs):
    """_set_attrs and the self-methods it calls at its top level (the re-derivation pass)"""
    seen = []

    def visit(name):
        f = funcs.get("ParquetFile." + name)
        if f is None or name in seen:
            return
        seen.append(name)
        for st in f.tree.body:
            if isinstance(st, ast.Expr) and isinstance(st.value, ast.Call) and isinstance(st.value.func, ast.Attribute) and \
                    isinstance(st.value.func.value, ast.Name) and st.value.func.value.id == "self":
                visit(st.value.func.attr)
    visit("_set_attrs")
    return seen


def recomputed_by_set_attrs(funcs):
    """attributes assigned unconditionally (top level) by _set_attrs and by the self-methods it calls at its top level"""
    out, seen = set(), set()

    def visit(name):
        f = funcs.get("ParquetFile." + name)
        if f is None or name in seen:
            return
        seen.add(name)
        for st in f.tree.body:
            if isinstance(st, ast.Assign):
                for t in st.targets:
                    for x in (t.elts if isinstance(t, (ast.Tuple, ast.List)) else [t]):
                        if isinstance(x, ast.Attribute) and isinstance(x.value, ast.Name) and x.value.id == "self":
                            out.add(x.attr)
            elif isinstance(st, ast.Expr) and isinstance(st.value, ast.Call) and isinstance(st.value.func, ast.Attribute) and \
                    isinstance(st.value.func.value, ast.Name) and st.value.func.value.id == "self":
                visit(st.value.func.attr)
    visit("_set_attrs")
    return out


def row_group_caches(funcs, tree):
    """row-group dependent attributes that are not part of the handle's declared (dataset-level) state and are FILLED by a method
    outside the re-derivation pass (_set_attrs and what it calls): the lazily filled caches.  Whether _set_attrs ALSO resets one
    of them (as it does for _statistics since /repo 890afcf) does not take it off this list: the obligations look at the value
    the new handle ends up with, after _set_attrs has run."""
    dep = rg_dependent_attrs(tree)
    primary = set(handle_state_keys(funcs)) | {"fmd"}
    rec = recomputed_by_set_attrs(funcs)
    closure = set(set_attrs_closure(funcs))
    caches = {k: [m for m in v if m not in closure] for k, v in dep.items() if k not in primary}
    return {k: v for k, v in caches.items() if v}, dep, rec


SRC = {"tree": None}            # ast of api.py of this run (set by check)


def caches_of(funcs):
    if SRC["tree"] is None:
        return {}
    if SRC.get("caches_for") is not SRC["tree"]:
        SRC["caches"], SRC["caches_for"] = row_group_caches(funcs, SRC["tree"])[0], SRC["tree"]
    return SRC["caches"]


def resolve_attr(A, oid, name):
    """value of an attribute of a handle in the ghost heap (following a copied-in __dict__), None when it was never set"""
    while True:
        if (oid, name) in A:
            return A[(oid, name)]
        if (oid, "__inherits__") not in A:
            return None
        oid = A[(oid, "__inherits__")]


def h_statistics_fn(eng, q, args, kw, node):
    """api.statistics(obj) (under contract in c04_sorted): here only WHOSE row groups it is computed from matters"""
    o = args[0] if args else None
    if isinstance(o, Custom) and isinstance(o.h, PF):
        return [(q, opaque_not_none(q, ("statistics_of", o.h.oid)))]
    eng.check_untracked(args, kw, "statistics", node)
    return [(q, Opaque(("statistics_of_value", next(eng.counter))))]


CACHES = ("_statistics",)      # per-handle caches that must NOT be inherited (the parent's statistics are not the slice's)


def handle_state_keys(funcs):
    """the handle's PRIMARY state, read from the real source: the keys of the dict __getstate__ returns (the library's own
    declaration of what a handle is) + every `self.X = ...` at the top level of __init__ (+ fn, assigned in every branch),
    minus the footer (replaced by the copy carrying the selection) and the caches.  Everything else (schema, cats, file_scheme,
    selfmade, dtypes, categories, _kvm, pandas_metadata ...) is re-derived by _set_attrs from these and the footer."""
    keys = []
    gs = funcs.get("ParquetFile.__getstate__")
    if gs is not None:
        for n in ast.walk(gs.tree):
            if isinstance(n, ast.Return) and isinstance(n.value, ast.Dict):
                keys += [k.value for k in n.value.keys if isinstance(k, ast.Constant) and isinstance(k.value, str)]
    ini = funcs.get("ParquetFile.__init__")
    if ini is not None:
        for st in ini.tree.body:
            if isinstance(st, ast.Assign):
                for t in st.targets:
                    if isinstance(t, ast.Attribute) and isinstance(t.value, ast.Name) and t.value.id == "self":
                        keys.append(t.attr)
    keys.append("fn")
    out = []
    for k in keys:
        if k not in out and k != "fmd" and k not in CACHES:
            out.append(k)
    return out


def same_value(a, b):
    """is b the parent's own value a?  object identity, the same opaque value, or equal immutables"""
    if a is None or b is None:
        return False
    if a is b:
        return True
    if isinstance(a, Opaque) and isinstance(b, Opaque):
        return a.tag == b.tag
    if isinstance(a, NoneV) and isinstance(b, NoneV):
        return True
    if isinstance(a, Str) and isinstance(b, Str):
        return a.s == b.s
    if isinstance(a, (PyI, PyB)) and type(a) is type(b):
        return z3.is_true(z3.simplify(a.z == b.z))
    return False


def describe(v):
    if v is None:
        return "<not set>"
    if isinstance(v, NoneV):
        return "None"
    if isinstance(v, Opaque):
        return "value " + str(v.tag)[:60]
    if isinstance(v, Custom):
        return type(v.h).__name__
    return type(v).__name__


def preset_parent_state(p, funcs):
    """the parent's primary state: arbitrary values; its dtype table is cached (not None) once _set_attrs has run"""
    for nm in handle_state_keys(funcs):
        if ("pf0", nm) not in p.ghost["attrs"]:
            p.ghost["attrs"][("pf0", nm)] = opaque_not_none(p, ("pf0", nm)) if nm == "_base_dtype" else Opaque(("pf0", nm))
    for nm in caches_of(funcs):          # lazily filled caches of the parent: filled or not (unknown) when the slice is taken
        if ("pf0", nm) not in p.ghost["attrs"]:
            p.ghost["attrs"][("pf0", nm)] = Opaque(("pf0", nm))


def m_setstate_recording(eng, q, pf, args, kw, node):
    st = args[0] if args else kw.get("state")
    if isinstance(st, Custom) and isinstance(st.h, DictLit):
        q.ghost["state_dict:" + pf.oid] = dict(st.h.d)
    elif isinstance(st, Custom) and isinstance(st.h, StateDict):
        q.ghost["state_dict:" + pf.oid] = dict(st.h.over)
        q.ghost["state_all_of:" + pf.oid] = st.h.base
    return inline_method("__setstate__")(eng, q, pf, args, kw, node)


def inherits_parent_answers(res, name, funcs, q, oid, parent="pf0", skip=("open", "fn")):
    """one obligation per key of the primary state: the new handle's value IS the parent's"""
    A = q.ghost["attrs"]
    sd = q.ghost.get("state_dict:" + oid)
    for k in handle_state_keys(funcs):
        if k in skip:
            continue
        a, b = A.get((parent, k)), A.get((oid, k))
        ok = same_value(a, b)
        handed = None if sd is None else ("<key missing from the state dict>" if k not in sd else describe(sd[k]))
        res.add(f"{name}.{k}", PROVED if ok else REFUTED,
                None if ok else {"key": k, "parent": describe(a), "new_handle": describe(b), "handed_to___setstate__": handed,
                                 "note": "dropped / re-derived: the derived handle answers (dtypes, nulls, tz, column index dtype) from its own "
                                         "row groups or defaults instead of the parent's state"}, 0.0, "trace",
                f"the new handle's {k} is the parent's own value (identity, or equal immutable): what the parent answers - its cached dtype "
                "table incl. a dtypes= override, pandas_nulls, tz, the column-index dtype - is what the part answers")


def getitem_paths(ctx, funcs, kind, mode="path"):
    """run the real __getitem__ (with __setstate__ / _set_attrs inline); -> eng, [(path, new oid)], want, item facts"""
    p, L0, N0, f0 = start_path(mode)
    B0 = z3.Bool("footer_row_groups_is_None")
    p.pc.append(z3.Implies(B0, N0 == 0))
    p.ghost["attrs"][("fmd0", "row_groups")] = Opt(B0, p.ghost["attrs"][("pf0", "row_groups")])
    if kind == "int":
        it = z3.Int("item")
        p.pc += [-N0 <= it, it < N0]
        item = PyI(it)
        idx = z3.If(it < 0, N0 + it, it)
        want = ("int", L0, idx)
    else:
        so = SliceObj()
        item = Custom(so)
        want = ("slice", L0, so)
    preset_parent_state(p, funcs)
    eng = mk_engine(funcs, f"__getitem__[{kind}]", handlers={"object.__new__": h_new, "copy.copy": h_copy, "statistics": h_statistics_fn},
                    pf_methods={"__setstate__": m_setstate_recording, "_set_attrs": inline_method("_set_attrs"),
                                "count": inline_method("count"), "_read_partitions": lambda e, q, pf, a, k, n: [(q, NONE)],
                                "_dtypes": lambda e, q, pf, a, k, n: [(q, Opaque("dtypes"))]})
    pre_ok(ctx, p, f"__getitem__[{kind}]")
    outs = eng.run("ParquetFile.__getitem__", p, [Custom(HPF("pf0")), item])
    return eng, outs, want, (L0, N0)


def selection_terms(q, want, L0):
    """(number selected, rows selected) as terms"""
    if want[0] == "int":
        q.pc += s_step(L0, want[2])
        return z3.IntVal(1), NR(L0, want[2])
    sel = q.opq.get(("selection", str(L0), id(want[2])))
    if sel is None:
        return None, None
    q.pc += [S(sel.h.L, 0) == 0, s_mono(sel.h.L, z3.IntVal(0), sel.h.n)]
    return sel.h.n, S(sel.h.L, sel.h.n)


def derived_cache_frame(res, eng, funcs, q, oid, tag):
    """whole view of the state a derived handle starts from: which keys were handed to __setstate__, from where; no row-group
    dependent cache of the parent survives into it; its statistics are computed from its OWN row groups"""
    A = q.ghost["attrs"]
    caches = caches_of(funcs)
    sd = q.ghost.get("state_dict:" + oid)
    all_of = q.ghost.get("state_all_of:" + oid)
    how = f"the whole __dict__ of the parent ({all_of}) was handed to __setstate__" if all_of else \
        ("keys handed to __setstate__: " + ", ".join(sorted(sd)) if sd is not None else "state not seen by the script")
    if not caches:
        res.add("handles.derived_state_has_no_row_group_dependent_cache" + tag, UNKNOWN, None, 0.0, "ast",
                "no row-group dependent cache attribute was found in the source of ParquetFile: the analysis does not fit this source")
    for X, where in sorted(caches.items()):
        v, v0 = resolve_attr(A, oid, X), A.get(("pf0", X))
        ok = v is None or v is ABSENT or isinstance(v, NoneV) or not same_value(v0, v)
        res.add(f"handles.derived_state_has_no_row_group_dependent_cache{tag}.{X}", PROVED if ok else REFUTED,
                None if ok else {"attribute": X, "filled_lazily_by": where, "new_handle_holds": "the PARENT's " + describe(v0), "state": how,
                                 "note": "computed from the parent's row groups and neither reset nor re-derived by _set_attrs: the part answers with the whole"},
                0.0, "trace", f"{X} (filled lazily from self.row_groups by {', '.join(where)}) is absent from / None in the state pf[item] ends up with "
                "(not handed over, or reset / recomputed by _set_attrs on the new handle): never the parent's value")
    # every OTHER explicit key: declared state / footer / re-derived anyway / the parent's own value
    if sd is not None:
        primary, rec = set(handle_state_keys(funcs)) | {"fmd"}, recomputed_by_set_attrs(funcs)
        odd = sorted(k for k, v in sd.items() if k not in primary and k not in rec and k not in caches and v is not ABSENT and
                     not same_value(A.get(("pf0", k)), v))
        res.add("handles.derived_state_frame" + tag, PROVED if not odd else REFUTED, {"keys_with_foreign_values": odd, "state": how} if odd else None, 0.0, "trace",
                "every key handed to __setstate__ is declared state (the parent's value: derived_inherits_parent_answers), the copied footer, "
                "re-derived by _set_attrs anyway, or the parent's own value of that attribute; " + how)
    # the property itself, on the handle __getitem__ built, with the parent's cache possibly filled
    if "ParquetFile.statistics" in eng.funcs:
        for r in eng.run("ParquetFile.statistics", _resume(q), [Custom(HPF(oid))]):
            if r.ctl[0] != "ret":
                continue
            v = r.ctl[1]
            own = isinstance(v, Opaque) and v.tag == ("statistics_of", oid)
            if not own and solve(list(r.pc), 2000)[0] != REFUTED:
                continue
            res.add("handles.derived_statistics_describe_own_row_groups" + tag, PROVED if own else REFUTED,
                    None if own else {"pf[item].statistics_returns": describe(v), "state": how,
                                      "z3_model": str(solve(list(r.pc), 2000)[1])[:160]}, 0.0, "trace",
                    "pf[item].statistics is statistics(<the new handle>): min / max / null_count lists of ITS row groups, also when the parent's "
                    "statistics were looked at before the slice was taken")


def _resume(q):
    r = q.fork()
    r.ctl = None
    return r


def run_statistics_cache(ctx, funcs, timeout, in_place):
    """the cache behind the `statistics` property (C04: what users are shown decodes to the chunks' values)"""
    res = Results()
    tree = SRC["tree"]
    c = _class_node(tree)
    # (ast) every store to ._statistics, in any form, is None or statistics(self) on self
    bad, n = [], 0
    for node in ast.walk(tree):
        if isinstance(node, ast.Assign):
            for t in node.targets:
                if isinstance(t, ast.Attribute) and t.attr == "_statistics":
                    n += 1
                    v = node.value
                    own = isinstance(t.value, ast.Name) and t.value.id == "self" and (
                        (isinstance(v, ast.Constant) and v.value is None) or
                        (isinstance(v, ast.Call) and isinstance(v.func, ast.Name) and v.func.id == "statistics" and len(v.args) == 1 and
                         isinstance(v.args[0], ast.Name) and v.args[0].id == "self" and not v.keywords))
                    if not own:
                        bad.append(f"L{node.lineno}: {ast.unparse(node)[:80]}")
        # (a '_statistics' entry of a state dict is not a store by itself: what the receiving handle ends up with after __setstate__ /
        #  _set_attrs is decided by handles.derived_state_has_no_row_group_dependent_cache / derived_statistics_describe_own_row_groups)
        elif isinstance(node, ast.Call) and isinstance(node.func, ast.Name) and node.func.id == "setattr" and len(node.args) == 3 and \
                isinstance(node.args[1], ast.Constant) and node.args[1].value == "_statistics":
            bad.append(f"L{node.lineno}: {ast.unparse(node)[:80]}")
    res.add("statistics.cache_is_only_set_from_own_row_groups", PROVED if n and not bad else REFUTED if bad else UNKNOWN, {"stores": bad} if bad else None, 0.0, "ast",
            f"every assignment to ._statistics in api.py ({n}) is `self._statistics = None` or `self._statistics = statistics(self)`")
    # the property on an arbitrary handle: the cache when filled, else statistics(self), which it stores
    p, L0, N0, f0 = start_path("path")
    preset_parent_state(p, funcs)
    eng = mk_engine(funcs, "statistics", handlers={"statistics": h_statistics_fn})
    n_ret = 0
    for r in eng.run("ParquetFile.statistics", p, [Custom(HPF("pf0"))]):
        if r.ctl[0] != "ret":
            continue
        n_ret += 1
        v = r.ctl[1]
        own = isinstance(v, Opaque) and v.tag == ("statistics_of", "pf0")
        cached = same_value(Opaque(("pf0", "_statistics")), v)
        stored = resolve_attr(r.ghost["attrs"], "pf0", "_statistics")
        ok = (own and same_value(stored, v)) or cached
        res.add("statistics.property_returns_cache_or_own_statistics", PROVED if ok else REFUTED, None if ok else {"returns": describe(v), "cache_after": describe(stored)},
                0.0, "trace", "pf.statistics is the handle's cache when that is filled, else statistics(pf) - which is stored as the cache")
    if n_ret:
        ctx.vacuity["covers"] += n_ret
    else:
        ctx.engine_error("statistics property: no returning path")
    if "_statistics" in caches_of(funcs):
        ctx.vacuity["must_fail_sat"] += 1       # the analysis finds the cache: the frame obligations on derived handles are not vacuous
    else:
        res.add("statistics.cache_found_in_source", UNKNOWN, None, 0.0, "ast", "_statistics is not recognised as a row-group dependent cache in this source")
    if in_place:
        # in-place edits: every method that re-derives the row-group dependent attributes (calls self._set_attrs() on an existing handle)
        # must also drop the cache - itself, or _set_attrs / a self-method it calls
        meths = {m.name: m for m in c.body if isinstance(m, ast.FunctionDef)}

        def resets(name, seen):
            m = meths.get(name)
            if m is None or name in seen:
                return False
            seen.add(name)
            for node in ast.walk(m):
                if isinstance(node, ast.Assign) and isinstance(node.value, ast.Constant) and node.value.value is None and \
                        any(isinstance(t, ast.Attribute) and t.attr == "_statistics" and isinstance(t.value, ast.Name) and t.value.id == "self" for t in node.targets):
                    return True
                if isinstance(node, ast.Call) and isinstance(node.func, ast.Attribute) and isinstance(node.func.value, ast.Name) and \
                        node.func.value.id == "self" and resets(node.func.attr, seen):
                    return True
            return False
        for name, m in meths.items():
            if name in CONSTRUCTORS:
                continue
            calls = any(isinstance(x, ast.Call) and isinstance(x.func, ast.Attribute) and x.func.attr == "_set_attrs" and
                        isinstance(x.func.value, ast.Name) and x.func.value.id == "self" for x in ast.walk(m))
            if calls:
                ok = resets(name, set())
                res.add(f"statistics.cache_dropped_when_row_groups_change[{name}]", PROVED if ok else REFUTED,
                        None if ok else {"method": name, "note": "re-derives row_groups / cats / dtypes through self._set_attrs() on the SAME handle, but neither it nor "
                                                                 "_set_attrs resets self._statistics: pf.statistics read before and after shows the old row groups"}, 0.0, "ast",
                        f"{name} changes the handle's row groups in place (it calls self._set_attrs()): the statistics cache is reset on the way")
    return res


import re as _re
C04_FAMILY = _re.compile(r"^(statistics\.|handles\.derived_state_frame|handles\.derived_state_has_no_row_group_dependent_cache\[\w+\]\._statistics$|"
                         r"handles\.derived_state_has_no_row_group_dependent_cache\[\w+\]$|handles\.derived_statistics_|handles\.derived\[.*out_of_reach)")
CONSTRUCTORS = ("__init__", "_parse_header", "__setstate__", "_set_attrs", "__getitem__")


def run_derived(ctx, funcs, timeout, kind):
    res = Results()
    tag = f"[{kind}]"
    eng, outs, want, (L0, N0) = getitem_paths(ctx, funcs, kind)
    n_ret = 0
    for q in outs:
        if q.ctl[0] != "ret":
            continue
        n_ret += 1
        A = q.ghost["attrs"]
        v = q.ctl[1]
        new = isinstance(v, Custom) and isinstance(v.h, PF) and v.h.oid != "pf0" and v.h.oid in q.ghost.get("new_handles", [])
        if not new:
            res.add("handles.derived_shares_open_and_fn" + tag, REFUTED, {"note": "the result is not a fresh handle"}, 0.0, "trace")
            continue
        oid = v.h.oid
        same_open = A.get((oid, "open")) is A.get(("pf0", "open"))
        same_fn = A.get((oid, "fn")) is A.get(("pf0", "fn"))
        res.add("handles.derived_shares_open_and_fn" + tag, PROVED if same_open and same_fn else REFUTED,
                None if same_open and same_fn else {"open_shared": same_open, "fn_shared": same_fn}, 0.0, "trace",
                "pf[item].open is pf.open and pf[item].fn is pf.fn: the derived handle reads the same file through the same function")
        own = A.get((oid, "row_groups"))
        f = A.get((oid, "fmd"))
        g_own = _same_selection(own, want)
        foot = A.get((f.h.oid, "row_groups")) if isinstance(f, Custom) and isinstance(f.h, FMD) else None
        if want[0] == "slice" and isinstance(own, Tup) and own.is_list and not own.items:
            g_own = z3.And(_same_selection(foot, want), foot.h.n == 0) if isinstance(foot, Custom) and isinstance(foot.h, RGList) else z3.BoolVal(False)
        pose(res, "handles.derived_carries_exactly_selected_row_groups" + tag, list(q.pc),
             z3.And(g_own, _same_selection(foot, want) if foot is not None else z3.BoolVal(False)), timeout,
             "new handle's row_groups AND its footer's row_groups == list(self.row_groups[item]): nothing kept from the parent, nothing lost")
        inherits_parent_answers(res, "handles.derived_inherits_parent_answers" + tag, funcs, q, oid)
        # everything _set_attrs re-derives (schema, created_by/selfmade, key_value_metadata -> _kvm / pandas_metadata / categories,
        # version) comes from the footer: the copy differs from the parent's footer in row_groups ONLY
        copied = isinstance(f, Custom) and isinstance(f.h, FMD) and f.h.copy_of == "fmd0"
        others = sorted({w[1] for w in q.ghost["writes"] if copied and w[0] == f.h.oid and w[1] != "row_groups"})
        diff = sorted(k[1] for k in A if copied and k[0] == "fmd0" and k[1] != "row_groups" and not same_value(A[k], A.get((f.h.oid, k[1]))))
        okf = copied and not others and not diff
        derived_cache_frame(res, eng, funcs, q, oid, tag)
        res.add("handles.derived_inherits_parent_answers" + tag + ".footer_fields_other_than_row_groups", PROVED if okf else REFUTED,
                None if okf else {"is_copy_of_parent_footer": copied, "assigned_on_copy": others, "differing": diff}, 0.0, "trace",
                "the new footer is a shallow copy of the parent's on which only row_groups is assigned: schema, created_by, "
                "key_value_metadata (hence selfmade, _kvm, pandas_metadata, categories) are the parent's")
    if n_ret == 0:
        ctx.engine_error(f"__getitem__{tag}: no returning path")
    ctx.vacuity["covers"] += n_ret
    return res


def run_state_roundtrip(ctx, funcs, timeout):
    res = Results()
    p, L0, N0, f0 = start_path("path")
    preset_parent_state(p, funcs)
    eng = mk_engine(funcs, "__getstate__/__setstate__", handlers={"object.__new__": h_new},
                    pf_methods={"_set_attrs": inline_method("_set_attrs"), "_read_partitions": lambda e, q, pf, a, k, n: [(q, NONE)],
                                "_dtypes": lambda e, q, pf, a, k, n: [(q, Opaque("dtypes"))]})
    n_ok = 0
    for q in eng.run("ParquetFile.__getstate__", p, [Custom(HPF("pf0"))]):
        if q.ctl[0] != "ret":
            continue
        state = q.ctl[1]
        q.ctl = None
        w0 = len(q.ghost["writes"])
        for r in eng.run("ParquetFile.__setstate__", q, [Custom(HPF("pfN")), state]):
            if r.ctl[0] != "ret":
                continue
            n_ok += 1
            A = r.ghost["attrs"]
            same = {nm: A.get(("pfN", nm)) is A.get(("pf0", nm)) and A.get(("pfN", nm)) is not None for nm in ("open", "fn", "fmd")}
            rg = A.get(("pfN", "row_groups"))
            foot = A.get(("fmd0", "row_groups"))
            rg_ok = rg is foot or (isinstance(rg, Opt) and rg.val is foot) or (isinstance(rg, Tup) and not rg.items)
            parent_writes = [w for w in r.ghost["writes"][w0:] if w[0] == "pf0"]
            ok = all(same.values()) and rg_ok and not parent_writes
            res.add("handles.state_roundtrip_shares_open_fn_footer", PROVED if ok else REFUTED,
                    None if ok else {"identical": same, "row_groups_follow_footer": rg_ok, "parent_writes": str(parent_writes)}, 0.0, "trace",
                    "__setstate__(__getstate__()) on a fresh object: open, fn, fmd are the parent's objects, row_groups is the footer's list "
                    "(or [] when that is empty), nothing is assigned on the parent handle")
            if isinstance(state, Custom) and isinstance(state.h, DictLit):
                r.ghost["state_dict:pfN"] = dict(state.h.d)
            inherits_parent_answers(res, "handles.state_roundtrip_keeps_dtype_answers", funcs, r, "pfN")
    if not n_ok:
        ctx.engine_error("state round trip: no returning path")
    ctx.vacuity["covers"] += n_ok
    return res


def run_dtypes_uses_inherited_table(ctx, funcs, timeout):
    """the link between the inherited state and the ANSWER: with a dtype table present (_base_dtype is not None) the real _dtypes
    neither re-derives it from the handle's own row groups nor re-assigns tz"""
    res = Results()
    p, L0, N0, f0 = start_path("path")
    preset_parent_state(p, funcs)
    eng = mk_engine(funcs, "_dtypes")
    w0 = len(p.ghost["writes"])
    n = 0
    for q in eng.run("ParquetFile._dtypes", p, [Custom(HPF("pf0"))]):
        if q.ctl[0] != "ret":
            continue
        n += 1
        bad = sorted({w[1] for w in q.ghost["writes"][w0:] if w[0] == "pf0" and w[1] in ("_base_dtype", "tz", "pandas_nulls", "_columns_dtype")})
        res.add("handles.dtype_table_not_rederived_when_inherited", PROVED if not bad else REFUTED, {"reassigned": bad} if bad else None, 0.0, "trace",
                "_dtypes() on a handle whose _base_dtype is set (inherited from the parent / given as dtypes=) assigns neither _base_dtype nor tz: "
                "the answer is a copy of that table + the category columns")
    if n:
        ctx.vacuity["covers"] += n
    else:
        ctx.engine_error("_dtypes: no returning path")
    f = funcs.get("ParquetFile._dtypes")
    if f is not None and any(isinstance(x, ast.Attribute) and isinstance(x.ctx, ast.Store) and x.attr == "_base_dtype" for x in ast.walk(f.tree)):
        ctx.vacuity["must_fail_sat"] += 1      # the table IS re-derived (from the handle's own row groups) when nothing is inherited
    return res


def prealloc_sizes(eng, q, oid):
    """sizes handed to pre_allocate by to_pandas() (default arguments) on handle oid, from path q -> [(pc, size term)]"""
    got = []

    def m_pre(e, r, pf, args, kw, node):
        got.append((list(r.pc), e.as_int(args[0], r, node)))
        return [(r, Tup([Opaque(("df", next(e.counter))), Opaque(("views", next(e.counter)))]))]
    saved = dict(eng.pf_methods)
    eng.pf_methods.update({"pre_allocate": m_pre, "read_row_group_file": lambda e, r, pf, a, k, n: [(r, NONE)]})
    try:
        eng.run("ParquetFile.to_pandas", q.fork(), [Custom(HPF(oid))],
                {"columns": NONE, "categories": NONE, "index": NONE, "dtypes": NONE, "filters": Tup([], True), "row_filter": PyB(False)})
    finally:
        eng.pf_methods = saved
    return got


def pose_pref(res, name, hyps, goal, timeout, detail, model_terms, prefer):
    """pose(); when refuted, a counter-model that ALSO satisfies `prefer` (a consistent parent footer) is shown if there is one
    (the status never depends on `prefer`)"""
    st, m, secs = solve(list(hyps) + [z3.Not(goal)], timeout)
    note = None
    if st == REFUTED:
        st2, m2, s2 = solve(list(hyps) + list(prefer) + [z3.Not(goal)], timeout)
        secs += s2
        if st2 == REFUTED and prefer:
            m, note = m2, "counter-model with a CONSISTENT parent footer (num_rows == sum over its row groups): the answer is stale only on the derived handle"
    mdl = None
    if m is not None:
        mdl = {k: backends.model_value(m, t) for k, t in model_terms.items()}
        if note:
            mdl["note"] = note
        mdl["z3_model"] = str(m)[:200]
    res.add(name, st, mdl, secs, "z3", detail)
    return st


def run_counts(ctx, funcs, timeout, kind):
    res = Results()
    tag = f"[{kind}]"
    base = "count.derived_handle_counts_own_row_groups" + tag
    if kind == "root":
        p, L0, N0, f0 = start_path("path")
        eng = mk_engine(funcs, "count[root]", pf_methods={"count": inline_method("count")})
        p.ctl = ("ret", Custom(HPF("pf0")))
        outs, want = [p], None
    else:
        eng, outs, want, (L0, N0) = getitem_paths(ctx, funcs, kind)
    eng.entry_tag = "count" + tag
    footer_total = z3.Int("footer_num_rows_fmd0")
    n_ret = 0
    refutable = False
    for q in outs:
        if q.ctl[0] != "ret":
            continue
        v = q.ctl[1]
        if not (isinstance(v, Custom) and isinstance(v.h, PF)):
            continue
        q.ctl = None
        oid = v.h.oid
        if kind == "root":
            nsel, rows = N0, S(L0, N0)
            q.pc.append(s_mono(L0, z3.IntVal(0), N0))
        else:
            nsel, rows = selection_terms(q, want, L0)
            if nsel is None:
                res.add(base + ".count", UNKNOWN, None, 0.0, "engine", "the selection list was not drawn on this path")
                continue
        n_ret += 1
        model = {"parent_row_groups": N0, "selected_row_groups": nsel, "rows_in_selection": rows, "parent_footer_num_rows": footer_total,
                 "parent_sum_num_rows": S(L0, N0)}
        prefer = [footer_total == S(L0, N0), s_mono(L0, z3.IntVal(0), N0), N0 >= 2, rows >= 1, S(L0, N0) > rows]
        me = Custom(HPF(oid))
        # count()
        for r in eng.run("ParquetFile.count", q.fork(), [me]):
            if r.ctl[0] != "ret":
                continue
            c = r.ctl[1]
            r.ctl = None
            if not isinstance(c, (PyI, PyB)):
                res.add(base + ".count", UNKNOWN, None, 0.0, "engine", "non-integer result")
                continue
            cz = eng.as_int(c)
            if kind != "root":
                pose_pref(res, base + ".count" + ret_tag(eng, "ParquetFile.count", r), list(r.pc), cz == rows, timeout,
                          "pf[item].count() == sum of num_rows over the SELECTED row groups (not the parent's footer total)", dict(model, count=cz), prefer)
                if not refutable and solve(list(r.pc) + [rows != footer_total], 2000)[0] == REFUTED:
                    refutable = True          # the rows of the selection CAN differ from the parent's footer total
            for pc, size in prealloc_sizes(eng, r, oid):
                pose_pref(res, "count.equals_rows_preallocated_by_to_pandas" + tag, pc, size == cz, timeout,
                          "count() == the number of rows to_pandas() pre-allocates for the same handle", dict(model, count=cz, preallocated=size),
                          prefer if kind != "root" else [])
        if kind == "root":
            continue
        # info
        for r in eng.run("ParquetFile.info", q.fork(), [me]):
            if r.ctl[0] != "ret":
                continue
            d = r.ctl[1]
            if not (isinstance(d, Custom) and isinstance(d.h, DictLit) and "rows" in d.h.d and "row_groups" in d.h.d):
                res.add(base + ".info_rows", UNKNOWN, None, 0.0, "engine", "info is not a dict literal with 'rows' and 'row_groups'")
                continue
            for key, wantv in (("rows", rows), ("row_groups", nsel)):
                x = d.h.d[key]
                if not isinstance(x, (PyI, PyB)):
                    res.add(base + ".info_" + key, REFUTED, {"note": "not derived from this handle's row groups: " + type(x).__name__}, 0.0, "trace")
                    continue
                pose_pref(res, base + ".info_" + key, list(r.pc), eng.as_int(x) == wantv, timeout,
                          f"pf[item].info[{key!r}] is that of the selected row groups", dict(model, value=eng.as_int(x)), prefer)
        # len
        for r in eng.run("ParquetFile.__len__", q.fork(), [me]):
            if r.ctl[0] != "ret":
                continue
            x = r.ctl[1]
            if not isinstance(x, (PyI, PyB)):
                res.add(base + ".len", UNKNOWN, None, 0.0, "engine", "non-integer result")
                continue
            pose(res, base + ".len" + ret_tag(eng, "ParquetFile.__len__", r), list(r.pc), eng.as_int(x) == nsel, timeout,
                 "len(pf[item]) == number of selected row groups", dict(model, value=eng.as_int(x)))
    for ob in eng.oblig:
        if ob.kind == "unwind":
            st, be, secs, m = backends.discharge(ob, timeout)
            res.add(ob.name + tag, st, None, secs, be, ob.note)
    eng.oblig = []
    if n_ret == 0:
        ctx.engine_error(f"counts{tag}: no handle to count on")
    ctx.vacuity["covers"] += n_ret
    if kind != "root":
        if refutable:
            ctx.vacuity["must_fail_sat"] += 1      # "count() of a derived handle == the parent's footer total" is refuted
        else:
            ctx.engine_error(f"counts{tag}: must-fail obligation (count == parent's footer total) was not refuted")
    return res


# =================================================================================================
# frame check on the ast of everything used opaquely on self
# =================================================================================================
IO_ATTRS = ("open", "close", "seek", "tell", "__exit__", "__enter__", "readinto", "detach")
IO_NAMES = ("open", "open_with", "default_open", "infile")
INLINED = ("to_pandas", "read_row_group_file", "iter_row_groups", "head", "count", "_read_partitions", "__init__", "_parse_header",
           "__getitem__", "__setstate__", "__getstate__", "_set_attrs", "info", "__len__")


def run_helpers(ctx, funcs, used):
    res = Results()
    bad, checked = [], []
    for h in sorted(used - set(INLINED) | {"_set_attrs", "_dtypes", "_read_partitions"}) + ["filter_row_groups", "statistics", "paths_to_cats", "_pre_allocate"]:
        f = funcs.get("ParquetFile." + h) or funcs.get(h)
        if f is None:
            continue
        checked.append(h)
        for n in ast.walk(f.tree):
            if isinstance(n, ast.Attribute) and n.attr in IO_ATTRS:
                bad.append(f"{h} L{n.lineno}: {ast.unparse(n)}")
            elif isinstance(n, ast.Name) and n.id in IO_NAMES:
                bad.append(f"{h} L{n.lineno}: {n.id}")
            elif isinstance(n, (ast.With, ast.AsyncWith)):
                bad.append(f"{h} L{n.lineno}: with-statement")
            elif isinstance(n, ast.Call) and isinstance(n.func, ast.Attribute) and n.func.attr == "read":
                bad.append(f"{h} L{n.lineno}: {ast.unparse(n.func)}")
    res.add("frame.helpers_do_no_file_io", PROVED if not bad else UNKNOWN, {"mentions": bad[:8]} if bad else None, 0.0, "ast",
            ("methods / properties of ParquetFile used without a contract in these runs never mention self.open, open_with, infile, "
             "a with-statement, .close/.seek/.tell/.read(): " + ", ".join(checked)) if not bad else
            "a helper used opaquely touches files: the frame obligations do not cover it (undecided): " + "; ".join(bad[:4]))
    return res


# =================================================================================================
UNDER_CONTRACT_API = ("statistics", "_dtypes", "__init__", "_parse_header", "to_pandas", "read_row_group_file", "iter_row_groups", "head", "count", "_read_partitions",
                      "__getitem__", "__getstate__", "__setstate__", "_set_attrs", "info", "__len__")
UNDER_CONTRACT_CORE = ("read_row_group", "read_row_group_arrays", "read_col")


def check(ctx, timeout, select=None):
    """select: None = everything reported under C06 / C17; "C04" = the statistics-cache family only (derived-handle state frame,
    the property on derived handles, the cache's stores, in-place edits)"""
    api, tree, _ = parse_module("fastparquet/api.py")
    SRC["tree"] = tree
    core, _, _ = parse_module("fastparquet/core.py")
    funcs = {k: v for k, v in core.items() if k in UNDER_CONTRACT_CORE}
    clash = set(funcs) & set(api)
    funcs.update(api)
    for m in UNDER_CONTRACT_API:
        f = api.get("ParquetFile." + m)
        if f is not None:
            ctx.function("api.ParquetFile." + m, f.sha, f.report)
    for m in UNDER_CONTRACT_CORE:
        if m in core:
            ctx.function("core." + m, core[m].sha, core[m].report)
    out = []
    used = set()

    def guarded(label, fn, *a):
        try:
            if clash:
                raise ProofScriptError("name clash between api.py and core.py: " + ", ".join(sorted(clash)))
            r = fn(*a)
            out.extend(r if isinstance(r, list) else [r])
        except Unsupported as ex:
            r = Results()
            r.add(label + ".out_of_reach", UNKNOWN, None, 0.0, "engine", "engine cannot lower this source: " + str(ex))
            out.append(r)
        except (ProofScriptError, KeyError, AttributeError, TypeError, IndexError, z3.Z3Exception) as ex:
            import os
            if os.environ.get("C06_DEBUG"):
                raise
            r = Results()
            r.add(label + ".out_of_reach", UNKNOWN, None, 0.0, "engine", f"proof script does not fit this source: {type(ex).__name__}: {ex}")
            out.append(r)
    if select == "C04":
        for kind in ("int", "slice"):
            guarded(f"handles.derived[{kind}]", run_derived, ctx, funcs, timeout, kind)
        guarded("statistics.cache", run_statistics_cache, ctx, funcs, timeout, True)
        keep = []
        for r in out:
            r2 = Results()
            for nm in r.order:
                if C04_FAMILY.search(nm):
                    r2.d[nm] = r.d[nm]
                    r2.order.append(nm)
            keep.append(r2)
        return keep
    for variant in ("default open_with", "fs given"):
        guarded(f"reads[__init__,file-like,{variant}]", run_init, ctx, funcs, timeout, variant, used)
    for mode in ("file-like", "path"):
        guarded(f"reads[to_pandas,{mode}]", run_to_pandas, ctx, funcs, timeout, mode, used)
        for given in ((True, False) if mode == "file-like" else (False,)):
            guarded(f"reads[read_row_group_file,{mode},infile={'given' if given else 'None'}]", run_read_row_group_file, ctx, funcs, timeout, mode, given, used)
        for entry in ("iter_row_groups", "head", "count", "_read_partitions"):
            guarded(f"reads[{entry},{mode}]", run_delegating, ctx, funcs, timeout, mode, entry, used)
    guarded("reads[core.read_row_group]", run_core_read_row_group, ctx, funcs, timeout)
    for kind in ("int", "slice"):
        guarded(f"handles.derived[{kind}]", run_derived, ctx, funcs, timeout, kind)
    guarded("handles.state_roundtrip", run_state_roundtrip, ctx, funcs, timeout)
    guarded("handles.dtypes", run_dtypes_uses_inherited_table, ctx, funcs, timeout)
    guarded("statistics.cache", run_statistics_cache, ctx, funcs, timeout, True)
    for kind in ("root", "int", "slice"):
        guarded(f"count.derived[{kind}]", run_counts, ctx, funcs, timeout, kind)
    guarded("frame.helpers", run_helpers, ctx, funcs, used)
    return out
