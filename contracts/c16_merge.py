"""C16 - the merge rules of util.update_custom_metadata(obj, custom_metadata), from its real source.

Model.  A Python list is (n : Int, K : Int -> Obj, V : Int -> Obj): length, key of the entry at a position, value of the
entry at a position (a list of bare keys uses K only).  Obj is an Int-coded universe of Python objects (str / bytes / None);
`ensure_bytes` is an uninterpreted function EB : Obj -> Obj.  States are if-then-else terms over the state before
(`del l[i]`: K'(j) = j < i ? K(j) : K(j+1)), so every goal posed at a Skolem position is quantifier-free; the only
quantified hypotheses are the loop invariant, `x not in l` and the leastness of `l.index(x)`.

requires  the keys of obj's key-value list are pairwise distinct (writer and reader keep them so; ParquetFile.key_value_metadata
          is a dict); custom_metadata is a dict (its items are visited once each); the update keys have pairwise distinct BYTES
          forms (PRE_D; a dict may hold both 'a' and b'a' - see the finding below)
loop      `for key, value in custom_metadata.items()` is executed for ONE arbitrary (key, value) from an ARBITRARY state of
          every list, constrained only by the invariant the code really maintains (`kvm.append` has no `kvm_keys.append`, so
          the planned `kvm_keys == [e.key for e in kvm]` holds on entry only):
              INV:  len(kvm_keys) <= len(kvm)  and  kvm_keys[i] == kvm[i].key for all i < len(kvm_keys)
                    and  the keys of kvm are pairwise distinct
                    and  every entry beyond len(kvm_keys) has the bytes key of an item of this update visited earlier
          (lists are identified by object, not by name: `kvm_keys` is whatever list a comprehension built from the key-value
          list); proved on entry in the strong form (merge.invariant_on_entry.*: exact mirror) and after the body
          (merge.invariant_preserved.*; this is where a `del kvm[idx]` without `del kvm_keys[idx]` fails); every local the body
          assigns is havoc'd, every modelled list gets a fresh state.  PRE_D enters an iteration as "the bytes key of this item
          is not that of an earlier item".  The EXACT mirror (len(kvm_keys) == len(kvm), no PRE_D) is tried first as the
          invariant and used if the body preserves it (a source that also appends to kvm_keys: the finding is then gone);
          otherwise INV above.  A proof with either invariant is a proof; only the chosen attempt's obligations are recorded.
finding   merge.repeated_bytes_key.acts_on_the_entry_appended_earlier is the set_present claim WITHOUT PRE_D and is REFUTED on the
          unchanged tree (natively: update {'a': 'x', b'a': 'y'} of a file without key a writes TWO entries b'a'; {'n': 'x', b'n': None}
          leaves n): the spare key list is not extended on append.  Recorded in contracts/findings.jsonl (C16-P-merge-...).
ensures   per iteration (fold step), with kb = ensure_bytes(key), from the property statement (S = list before, S' = after):
   merge.remove_present.key_absent            value is None, kb at position w of S:   kb is at no position of S'
   merge.remove_present.others_kept_in_order  ... and S' == S without position w (every other key, its value, its relative order)
   merge.remove_absent.nothing_changes        value is None, kb not in S:             S' == S
   merge.set_present.same_position            value not None, kb at w:  |S'| == |S|, S'[w] == (kb, ensure_bytes(value))
   merge.set_present.others_unchanged         ... and S'[j] == S[j] for every j != w
   merge.set_absent.appended_at_end           value not None, kb not in S: |S'| == |S|+1, S'[|S|] == (kb, ensure_bytes(value))
   merge.set_absent.others_unchanged          ... and S'[j] == S[j] for every j < |S|
          after the loop:
   merge.assigns_merged_list                  key_value_metadata of obj (ThriftObject) / obj.fmd (ParquetFile) is assigned exactly
                                              once, the list the loop worked on, in its loop-exit state (nothing edits it afterwards)
   merge.frame_no_other_attribute_assigned    no other attribute of obj / obj.fmd is assigned, no method of them is called
                                              (ParquetFile: `obj._kvm = None`, the cache reset, is the one permitted extra)
   merge.cache_reset                          ParquetFile: obj._kvm is reset to None (the cached dict would otherwise be stale)
   merge.returns_normally / merge.visits_every_item   no exception, no `break`
The whole-list statements are posed at Skolem positions (whole view: a lost, duplicated or moved entry fails).

NOT MECHANISED: lifting the fold steps to a whole update dict.  The argument: dict keys are distinct, each step changes only
the entry of its own key kb (the `others` obligations) and re-establishes INV, so by induction over the items the final list
satisfies the statement for every (k, v); PRE_D for the current item follows from "distinct bytes forms" and the last
conjunct of INV.  That induction is argued here, not proved by the solver.
"""
import ast
import itertools
from collections import namedtuple

import z3

from vc.front_py import parse_module
from vc.symexec import Engine, Path, Custom, Opaque, PyI, NONE, NoneV, Tup, Unsupported, AbstractComp
from vlib.common import PROVED, REFUTED, UNKNOWN
from .util import Results, solve

I = z3.IntSort()
EB = z3.Function("ensure_bytes", I, I)
TRUTHY = z3.Function("is_truthy", I, z3.BoolSort())
NONE_ID = z3.Int("the_None_object")
_c = itertools.count()

LState = namedtuple("LState", "K V n kind ver")          # immutable: a mutation installs a NEW LState


def _fresh_fn(base):
    return z3.Function(f"{base}!{next(_c)}", I, I)


def _iv(x):
    return x if z3.is_expr(x) else z3.IntVal(x)


class ObjV:
    """a Python object (str / bytes / None) as an Int-coded term"""
    tracked = False

    def __init__(self, z):
        self.z = z

    def eq(self, eng, p, other):
        if isinstance(other, Custom) and isinstance(other.h, ObjV):
            return self.z == other.z
        if isinstance(other, NoneV):
            return self.z == NONE_ID
        raise Unsupported("object compared with " + type(other).__name__)

    def is_none(self, eng, p):
        return self.z == NONE_ID

    def truth(self, eng, p):
        # a value that is not None may still be falsy ('' / b'' / 0): truthiness is an arbitrary predicate of the object, so
        # `if value:` and `if value is not None:` are different conditions (an empty-string value must be stored, not dropped)
        return z3.And(self.z != NONE_ID, TRUTHY(self.z))


class KVEntry:
    """parquet_thrift.KeyValue(key=, value=)"""
    tracked = False

    def __init__(self, k, v):
        self.k, self.v = k, v

    def attr(self, eng, p, name):
        if name == "key":
            return Custom(ObjV(self.k))
        if name == "value":
            return Custom(ObjV(self.v))
        raise Unsupported("KeyValue." + name)

    def is_none(self, eng, p):
        return z3.BoolVal(False)


def _forall1(p, lo, hi, f):
    """hypothesis  forall i in [lo, hi): f(i)   -> p.axioms (never p.pc: feasibility checks stay quantifier-free)"""
    i = z3.Int(f"qi!{next(_c)}")
    p.axioms.append(z3.ForAll([i], z3.Implies(z3.And(lo <= i, i < hi), f(i))))


class ListH:
    """handle of a modelled list; its state lives in p.ghost['lists'][lid]"""
    tracked = True

    def __init__(self, lid, none_flag=None):
        self.lid, self.none_flag = lid, none_flag

    # -- state --
    def st(self, p):
        return p.ghost["lists"][self.lid]

    def put(self, p, K, V, n, kind):
        old = self.st(p)
        p.ghost["lists"][self.lid] = LState(K, V, n, kind, old.ver + 1)

    def live(self, eng, p, what, node=None):
        if self.none_flag is not None:
            eng.oblige(p, f"merge.list_is_not_None@{what}", "safety", z3.Not(self.none_flag), node,
                       note="an operation on the key-value list while it may still be None")

    def is_none(self, eng, p):
        return self.none_flag if self.none_flag is not None else z3.BoolVal(False)

    def truth(self, eng, p):
        s = self.st(p)
        return s.n > 0 if self.none_flag is None else z3.And(z3.Not(self.none_flag), s.n > 0)

    def len(self, eng, p):
        self.live(eng, p, "len")
        return PyI(self.st(p).n)

    def _norm(self, eng, p, i, what, node):
        s = self.st(p)
        k = eng.as_int(i, p, node)
        eng.oblige(p, f"merge.index_in_range@{what}", "safety", z3.And(-s.n <= k, k < s.n), node)
        return z3.If(k < 0, k + s.n, k)

    def _elem(self, v, s, what):
        """(kind, key term, value term) of an element about to be stored"""
        if isinstance(v, Custom) and isinstance(v.h, KVEntry):
            kind, k, val = "kv", v.h.k, v.h.v
        elif isinstance(v, Custom) and isinstance(v.h, ObjV):
            kind, k, val = "obj", v.h.z, z3.IntVal(0)
        elif isinstance(v, PyI):
            kind, k, val = "int", v.z, z3.IntVal(0)
        else:
            raise Unsupported(f"list.{what} of a {type(getattr(v, 'h', v)).__name__}")
        if s.kind not in (None, kind):
            raise Unsupported(f"list of {s.kind} elements receives a {kind} element ({what})")
        return kind, k, val

    def _get(self, s, j):
        if s.kind == "kv":
            return Custom(KVEntry(s.K(j), s.V(j)))
        if s.kind == "obj":
            return Custom(ObjV(s.K(j)))
        if s.kind == "int":
            return PyI(s.K(j))
        raise Unsupported("element of a list whose element type is unknown")

    # -- operations the code performs (standard contracts of list: see ASSUMED) --
    def contains(self, eng, p, item):
        self.live(eng, p, "in")
        s = self.st(p)
        if s.kind == "kv" or not (isinstance(item, Custom) and isinstance(item.h, ObjV)):
            raise Unsupported("`in` on a list of KeyValue objects / with a non-object item")
        x = item.h.z
        c, w = eng.fresh("is_in", z3.BoolSort()), eng.fresh_int("where_in")
        p.pc.append(z3.Implies(c, z3.And(0 <= w, w < s.n, s.K(w) == x)))
        K, n = s.K, s.n
        i = z3.Int(f"qi!{next(_c)}")
        p.axioms.append(z3.Implies(z3.Not(c), z3.ForAll([i], z3.Implies(z3.And(0 <= i, i < n), K(i) != x))))
        return c

    def getitem(self, eng, p, i, node):
        self.live(eng, p, "getitem", node)
        return self._get(self.st(p), self._norm(eng, p, i, "getitem", node))

    def setitem(self, eng, p, i, v, node):
        self.live(eng, p, "setitem", node)
        s = self.st(p)
        idx = self._norm(eng, p, i, "setitem", node)
        kind, k, val = self._elem(v, s, "setitem")
        K, V = s.K, s.V
        self.put(p, lambda j: z3.If(_iv(j) == idx, k, K(j)), lambda j: z3.If(_iv(j) == idx, val, V(j)), s.n, kind)

    def delitem(self, eng, p, i, node):
        self.live(eng, p, "del", node)
        s = self.st(p)
        idx = self._norm(eng, p, i, "del", node)
        K, V = s.K, s.V
        self.put(p, lambda j: z3.If(_iv(j) < idx, K(j), K(_iv(j) + 1)), lambda j: z3.If(_iv(j) < idx, V(j), V(_iv(j) + 1)),
                 s.n - 1, s.kind)

    def call_method(self, eng, p, name, args, kw, node):
        self.live(eng, p, name, node)
        s = self.st(p)
        if name == "append" and len(args) == 1 and not kw:
            kind, k, val = self._elem(args[0], s, "append")
            K, V, n = s.K, s.V, s.n
            self.put(p, lambda j: z3.If(_iv(j) == n, k, K(j)), lambda j: z3.If(_iv(j) == n, val, V(j)), n + 1, kind)
            return [(p, NONE)]
        if name == "index" and len(args) == 1 and not kw:
            item = args[0]
            if s.kind == "kv" or not (isinstance(item, Custom) and isinstance(item.h, ObjV)):
                raise Unsupported("list.index on KeyValue objects / of a non-object")
            x = item.h.z
            K, n = s.K, s.n
            e = z3.Int(f"qe!{next(_c)}")
            eng.oblige(p, "merge.index_value_present", "safety", z3.Exists([e], z3.And(0 <= e, e < n, K(e) == x)), node,
                       note="list.index(x) raises ValueError unless x is in the list")
            r = eng.fresh_int("index_of")
            p.pc += [0 <= r, r < n, K(r) == x]
            _forall1(p, 0, r, lambda j: K(j) != x)
            return [(p, PyI(r))]
        raise Unsupported(f"list.{name}(...) is not modelled")

    def arbitrary(self, eng, p):
        """only for a comprehension that is turned into a modelled list (h_listcomp): the member at a position j that is
        left unconstrained - the element expression is re-instantiated at every position"""
        if not p.ghost.get("in_listcomp"):
            raise Unsupported("abstract iteration over a modelled list outside a list comprehension")
        s = self.st(p)
        j = eng.fresh_int("member_pos")
        p.ghost["comp_member"] = (self.lid, j)
        return self._get(s, j)


def new_list(p, K, V, n, kind, none_flag=None, base="list"):
    lid = f"{base}#{next(_c)}"
    p.ghost.setdefault("lists", {})[lid] = LState(K, V, n, kind, 0)
    return ListH(lid, none_flag)


def h_listcomp(eng, p, e):
    """[<elt> for x in <modelled list>] -> a modelled list of the same length whose element at position i is <elt> computed
    for the member at position i (meaning of a list comprehension without filter: ASSUMED).  Anything else: generic."""
    if len(e.generators) != 1 or e.generators[0].ifs or not isinstance(e, ast.ListComp):
        return None
    srcs = eng.ev(e.generators[0].iter, p)
    if len(srcs) != 1 or not (isinstance(srcs[0][1], Custom) and isinstance(srcs[0][1].h, ListH)):
        return None
    p, src = srcs[0][0], srcs[0][1].h
    src.live(eng, p, "iteration", e)
    s = src.st(p)
    if s.kind is None:
        if not z3.is_int_value(z3.simplify(s.n)) or z3.simplify(s.n).as_long() != 0:
            raise Unsupported("comprehension over a list of unknown element type")
        out = new_list(p, lambda j: z3.IntVal(0), lambda j: z3.IntVal(0), z3.IntVal(0), None, base="comp")
        p.ghost.setdefault("mirrors", {})[out.lid] = src.lid
        return [(p, Custom(out))]
    p.ghost["in_listcomp"] = True
    res = []
    for q, v in eng.comp(e, p, 0, []):
        q.ghost["in_listcomp"] = False
        if not (isinstance(v, Custom) and isinstance(v.h, AbstractComp)):
            raise Unsupported("comprehension over a modelled list did not stay abstract")
        lid, j = q.ghost["comp_member"]
        elt = v.h.elt
        if isinstance(elt, Custom) and isinstance(elt.h, ObjV):
            kt, vt, kind = elt.h.z, z3.IntVal(0), "obj"
        elif isinstance(elt, Custom) and isinstance(elt.h, KVEntry):
            kt, vt, kind = elt.h.k, elt.h.v, "kv"
        else:
            raise Unsupported("comprehension element is not an object of the model")
        out = new_list(q, (lambda kt: lambda i: z3.substitute(kt, (j, _iv(i))))(kt),
                       (lambda vt: lambda i: z3.substitute(vt, (j, _iv(i))))(vt), s.n, kind, base="comp")
        q.ghost.setdefault("mirrors", {})[out.lid] = src.lid
        res.append((q, Custom(out)))
    p.ghost["in_listcomp"] = False
    return res


class MergeEngine(Engine):
    """adds: `del l[i]` on modelled lists, `[]` as a fresh modelled list"""

    def s_Delete(self, st, p):
        qs = [p]
        for t in st.targets:
            nq = []
            for q in qs:
                if isinstance(t, ast.Name):
                    q.env.pop(t.id, None)
                    nq.append(q)
                elif isinstance(t, ast.Subscript) and not isinstance(t.slice, ast.Slice):
                    for r, o in self.ev(t.value, q):
                        for r2, i in self.ev(t.slice, r):
                            if not (isinstance(o, Custom) and hasattr(o.h, "delitem")):
                                raise Unsupported("del on " + type(o).__name__)
                            o.h.delitem(self, r2, i, t)
                            nq.append(r2)
                else:
                    raise Unsupported("del of " + type(t).__name__)
            qs = nq
        return qs

    def e_List(self, e, p):
        if not e.elts:
            return [(p, Custom(new_list(p, lambda j: z3.IntVal(0), lambda j: z3.IntVal(0), z3.IntVal(0), None, base="literal")))]
        return super().e_List(e, p)


def _assigned_names(st):
    names = {x.id for x in ast.walk(st.target) if isinstance(x, ast.Name)}
    for n in ast.walk(ast.Module(body=st.body, type_ignores=[])):
        if isinstance(n, ast.Name) and isinstance(n.ctx, (ast.Store, ast.Del)):
            names.add(n.id)
    return names


class UpdItems:
    """custom_metadata.items(): the loop is run here (README: for_loop)"""
    tracked = False

    def __init__(self, run):
        self.run = run

    def for_loop(self, eng, p, st):
        R = self.run
        res, tag, timeout = R["res"], R["tag"], R["timeout"]
        p.ghost["loops_run"] = p.ghost.get("loops_run", 0) + 1
        mirrors = dict(p.ghost.get("mirrors", {}))
        if len(mirrors) != 1:
            raise Unsupported(f"{len(mirrors)} key lists built by comprehension from the key-value list (shape not modelled)")
        (mid, sid), = mirrors.items()
        # 1. invariant on entry (the exact mirror: it implies the prefix form with an empty tail)
        self.inv_goals(res, p, mid, sid, "invariant_on_entry", "exact")
        # 2./3. the arbitrary iteration, under the exact-mirror invariant if the body preserves it, else under the prefix invariant
        # (a proof with either invariant is a proof; only the chosen attempt's obligations are kept)
        n_obl = len(eng.oblig)
        chosen = None
        for mode in ("exact", "prefix"):
            r_mode = Results()
            del eng.oblig[n_obl:]
            outs = self.iteration(eng, p, st, mode, r_mode, mid, sid)
            chosen = (mode, r_mode, outs)
            if all(r_mode.status(n) == PROVED for n in r_mode.order if ".invariant_preserved." in n):
                break
        mode, r_mode, outs = chosen
        for n in r_mode.order:
            for e in r_mode.d[n]:
                res.add(n, *e)
        R.setdefault("invariant_used", []).append(mode)
        return outs

    def inv_goals(self, res, q, mid, sid, nm, mode, hyp=(), earlier=None, kb_new=None):
        tag, timeout = self.run["tag"], self.run["timeout"]
        m, s = q.ghost["lists"][mid], q.ghost["lists"][sid]
        a, b = z3.Int("inv_i"), z3.Int("inv_j")
        base = [*q.pc, *q.axioms, *hyp]
        if mode == "exact":
            goals = [("keys_mirror", z3.And(m.n == s.n, z3.Implies(z3.And(0 <= a, a < s.n), m.K(a) == s.K(a))),
                      "kvm_keys == [e.key for e in kvm]: same length, same key at every position")]
        else:
            goals = [("keys_mirror_prefix", z3.And(0 <= m.n, m.n <= s.n, z3.Implies(z3.And(0 <= a, a < m.n), m.K(a) == s.K(a))),
                      "len(kvm_keys) <= len(kvm) and kvm_keys[i] == kvm[i].key for every i < len(kvm_keys)"),
                     ("tail_appended_in_this_call", z3.Implies(z3.And(m.n <= a, a < s.n), z3.Or(earlier(s.K(a)), s.K(a) == kb_new)),
                      "an entry beyond len(kvm_keys) carries the bytes key of an item of this update visited so far")]
        goals.append(("keys_distinct", z3.Implies(z3.And(0 <= a, a < b, b < s.n), s.K(a) != s.K(b)),
                      "the keys of the key-value list are pairwise distinct"))
        for gname, g, d in goals:
            stt, mdl, secs = solve(base + [z3.Not(g)], timeout)
            res.add(f"merge{tag}.{nm}.{gname}", stt, _model(mdl, {"i": a, "j": b, "len_kvm": s.n, "len_kvm_keys": m.n}), secs, "z3", d)

    def iteration(self, eng, p, st, mode, res, mid, sid):
        tag = self.run["tag"]
        earlier = z3.Function(f"is_bytes_key_of_an_earlier_item!{next(_c)}", I, z3.BoolSort())
        # arbitrary state: every list havoc'd, every local the body assigns havoc'd, constrained by INV only
        h = p.fork()
        for lid, s in list(h.ghost["lists"].items()):
            kind = s.kind
            if kind is None:
                kind = "kv" if lid == sid else "obj" if lid == mid else None
            n = eng.fresh_int("len_" + lid.split("#")[0])
            h.pc.append(n >= 0)
            h.ghost["lists"][lid] = LState(_fresh_fn("K_" + lid.split("#")[0]), _fresh_fn("V_" + lid.split("#")[0]), n, kind, s.ver + 1)
        for nm in _assigned_names(st):
            h.env[nm] = Opaque(("havoc", nm, next(eng.counter)))
        m0, s0 = h.ghost["lists"][mid], h.ghost["lists"][sid]
        if s0.kind != "kv" or m0.kind != "obj":
            raise Unsupported("the comprehension-built list does not hold the keys of a KeyValue list")
        if mode == "exact":
            h.pc.append(m0.n == s0.n)
        else:
            h.pc.append(m0.n <= s0.n)
            _forall1(h, m0.n, s0.n, lambda i: earlier(s0.K(i)))
        _forall1(h, 0, m0.n, lambda i: m0.K(i) == s0.K(i))
        qa, qb = z3.Int(f"qa!{next(_c)}"), z3.Int(f"qb!{next(_c)}")
        h.axioms.append(z3.ForAll([qa, qb], z3.Implies(z3.And(0 <= qa, qa < qb, qb < s0.n), s0.K(qa) != s0.K(qb))))
        exit_path, body = h.fork(), h.fork()
        exit_path.ghost["loop_exit"] = (sid, exit_path.ghost["lists"][sid])
        outs = [exit_path]
        # the body, once, for an arbitrary item
        key, val = z3.Int(f"upd_key!{next(_c)}"), z3.Int(f"upd_value!{next(_c)}")
        kb = EB(key)
        has_break = False
        for b in eng.assign(st.target, Tup([Custom(ObjV(key)), Custom(ObjV(val))]), body):
            for r in eng.block(st.body, [b]):
                if r.ctl == "break":
                    has_break = True
                    continue
                if r.ctl not in (None, "continue"):
                    outs.append(r)
                    continue
                # requires (prefix invariant only): no earlier item of this update has the same bytes key
                pre_d = [z3.Not(earlier(kb))] if mode == "prefix" else []
                self.fold_step(eng, res, r, s0, r.ghost["lists"][sid], kb, val, pre_d, m0)
                self.inv_goals(res, r, mid, sid, "invariant_preserved", mode, pre_d, earlier, kb)
        res.add(f"merge{tag}.visits_every_item", REFUTED if has_break else PROVED, None, 0.0, "trace",
                "no `break` in the loop over the update items")
        return outs

    def fold_step(self, eng, res, r, s0, s1, kb, val, pre_d, m0):
        R = self.run
        tag, timeout = R["tag"], R["timeout"]
        base = [*r.pc, *r.axioms, *pre_d]
        w, j = z3.Int("w_spec_position"), z3.Int("j_skolem")
        is_none = val == NONE_ID
        present = z3.And(0 <= w, w < s0.n, s0.K(w) == kb)
        qi = z3.Int(f"qi!{next(_c)}")
        absent = z3.ForAll([qi], z3.Implies(z3.And(0 <= qi, qi < s0.n), s0.K(qi) != kb))
        sh = z3.If(j < w, j, j + 1)
        same = lambda a, b: z3.And(s1.K(a) == s0.K(b), s1.V(a) == s0.V(b))
        inr = lambda hi: z3.And(0 <= j, j < hi)
        cases = [
            ("remove_present", [is_none, present], [
                ("key_absent", z3.Implies(inr(s1.n), s1.K(j) != kb), "value None, key present: afterwards the key is at no position"),
                ("others_kept_in_order", z3.And(s1.n == s0.n - 1, z3.Implies(inr(s1.n), same(j, sh))),
                 "value None, key present at w: the list afterwards is the list before without position w")]),
            ("remove_absent", [is_none, absent], [
                ("nothing_changes", z3.And(s1.n == s0.n, z3.Implies(inr(s0.n), same(j, j))), "value None, key absent: the list is unchanged")]),
            ("set_present", [z3.Not(is_none), present], [
                ("same_position", z3.And(s1.n == s0.n, s1.K(w) == kb, s1.V(w) == EB(val)),
                 "value not None, key present at w: same length, position w holds (ensure_bytes(key), ensure_bytes(value))"),
                ("others_unchanged", z3.Implies(z3.And(inr(s0.n), j != w, s1.n == s0.n), same(j, j)), "every other position is unchanged")]),
            ("set_absent", [z3.Not(is_none), absent], [
                ("appended_at_end", z3.And(s1.n == s0.n + 1, s1.K(s0.n) == kb, s1.V(s0.n) == EB(val)),
                 "value not None, key absent: one entry longer, the last entry is (ensure_bytes(key), ensure_bytes(value))"),
                ("others_unchanged", z3.Implies(inr(s0.n), same(j, j)), "every existing position is unchanged")]),
        ]
        for cname, hyp, goals in cases:
            # is this spec case possible on this path at all?  (vacuity / cover; quantifier-free part + the case)
            st0, _, _ = solve([*r.pc, *pre_d, *hyp, *r.axioms], 3000)
            if st0 == PROVED:
                continue                      # the path contradicts the case: nothing to show here
            if st0 == REFUTED:
                R["covered"].add(cname)
            for gname, g, d in goals:
                stt, mdl, secs = solve(base + hyp + [z3.Not(g)], timeout)
                res.add(f"merge{tag}.{cname}.{gname}", stt,
                        _model(mdl, {"position_of_key_before_w": w, "differs_at_j": j, "len_before": s0.n, "len_after": s1.n,
                                     "value_is_None": is_none}), secs, "z3", d)
            if cname == "remove_present" and "must_fail" not in R:
                # must-fail guard: `nothing changes` is NOT a consequence in the removal case
                g = z3.And(s1.n == s0.n, z3.Implies(inr(s0.n), same(j, j)))
                R["must_fail"] = solve(base + hyp + [z3.Not(g)], 5000)[0]
        # the same claim WITHOUT the requirement on the update keys: an item whose bytes key equals that of an earlier item
        # ('a' after b'a') must act on the entry that earlier item appended
        hyp = [z3.Not(is_none), present]
        if solve([*r.pc, *hyp, *r.axioms], 3000)[0] != PROVED:
            g = z3.And(s1.n == s0.n, s1.K(w) == kb, s1.V(w) == EB(val))
            stt, mdl, secs = solve([*r.pc, *r.axioms, *hyp, z3.Not(g)], timeout)
            res.add(f"merge{tag}.repeated_bytes_key.acts_on_the_entry_appended_earlier", stt,
                    _model(mdl, {"position_of_key_before_w": w, "len_kvm_keys": m0.n, "len_before": s0.n, "len_after": s1.n}), secs, "z3",
                    "two update keys with the same bytes form are one key: the later item replaces the entry the earlier one appended")


def _model(m, terms):
    if m is None:
        return None
    out = {}
    for k, t in terms.items():
        v = m.eval(t, model_completion=True)
        out[k] = v.as_long() if z3.is_int_value(v) else z3.is_true(v) if z3.is_bool(v) else str(v)
    return out


class UpdDict:
    tracked = False

    def __init__(self, run):
        self.run = run

    def call_method(self, eng, p, name, args, kw, node):
        if name == "items" and not args:
            return [(p, Custom(UpdItems(self.run)))]
        raise Unsupported("custom_metadata." + name)

    def truth(self, eng, p):
        return eng.fresh("update_dict_nonempty", z3.BoolSort())


class Sub:
    """any other attribute of obj / obj.fmd: reading is free, every use as a receiver is a frame breach"""
    tracked = True

    def __init__(self, path):
        self.path = path

    def attr(self, eng, p, name):
        return Custom(Sub(self.path + "." + name))

    def setattr(self, eng, p, name, v):
        p.ghost.setdefault("assigned", []).append((self.path, name, v))

    def call_method(self, eng, p, name, args, kw, node):
        p.ghost.setdefault("assigned", []).append((self.path, name + "()", None))
        return [(p, Opaque(("call", self.path, name, next(eng.counter))))]

    def setitem(self, eng, p, i, v, node):
        p.ghost.setdefault("assigned", []).append((self.path, "[...]=", v))


class Holder:
    """obj (ThriftObject run) or obj.fmd (ParquetFile run): owns key_value_metadata"""
    tracked = True

    def __init__(self, path, kvm):
        self.path, self.kvm = path, kvm

    def attr(self, eng, p, name):
        if name == "key_value_metadata":
            return Custom(self.kvm)
        return Custom(Sub(self.path + "." + name))

    def setattr(self, eng, p, name, v):
        p.ghost.setdefault("assigned", []).append((self.path, name, v))

    def call_method(self, eng, p, name, args, kw, node):
        p.ghost.setdefault("assigned", []).append((self.path, name + "()", None))
        return [(p, Opaque(("call", self.path, name, next(eng.counter))))]

    def isinstance(self, eng, p, tn):
        return z3.BoolVal(self.path == "obj" and "ThriftObject" in tn)

    def is_none(self, eng, p):
        return z3.BoolVal(False)


class FileObj(Holder):
    """obj when it is a ParquetFile: .fmd is the holder"""

    def __init__(self, fmd):
        self.path, self.fmd = "obj", fmd

    def attr(self, eng, p, name):
        if name == "fmd":
            return Custom(self.fmd)
        return Custom(Sub("obj." + name))

    def isinstance(self, eng, p, tn):
        return z3.BoolVal(False)


def run(ctx, funcs, timeout, is_thrift):
    res = Results()
    tag = "[thrift-object]" if is_thrift else "[parquet-file]"
    R = {"res": res, "tag": tag, "timeout": timeout, "covered": set()}

    def h_ensure_bytes(eng, p, args, kw, node):
        a = args[0]
        if isinstance(a, Custom) and isinstance(a.h, ObjV):
            return [(p, Custom(ObjV(EB(a.h.z))))]
        raise Unsupported("ensure_bytes of " + type(a).__name__)

    def h_keyvalue(eng, p, args, kw, node):
        k, v = kw.get("key", args[0] if args else None), kw.get("value", args[1] if len(args) > 1 else None)
        if not all(isinstance(x, Custom) and isinstance(x.h, ObjV) for x in (k, v)):
            raise Unsupported("KeyValue(...) of values outside the model")
        return [(p, Custom(KVEntry(k.h.z, v.h.z)))]
    handlers = {"ensure_bytes": h_ensure_bytes, "parquet_thrift.KeyValue": h_keyvalue, ".KeyValue": h_keyvalue, "KeyValue": h_keyvalue,
                "listcomp": h_listcomp}
    eng = MergeEngine(funcs=funcs, handlers=handlers, opaque_calls=True)
    p = Path()
    K0, V0, n0 = _fresh_fn("K_in"), _fresh_fn("V_in"), z3.Int("len_in")
    is_none0 = z3.Bool("key_value_metadata_is_None")
    kvm = new_list(p, K0, V0, n0, "kv", none_flag=is_none0, base="kvm")
    # requires: a list has a non-negative length; existing keys pairwise distinct
    p.pc.append(n0 >= 0)
    qa, qb = z3.Int("pre_a"), z3.Int("pre_b")
    p.axioms.append(z3.ForAll([qa, qb], z3.Implies(z3.And(0 <= qa, qa < qb, qb < n0), K0(qa) != K0(qb))))
    holder = Holder("obj" if is_thrift else "obj.fmd", kvm)
    obj = holder if is_thrift else FileObj(holder)
    try:
        outs = eng.run("update_custom_metadata", p, [Custom(obj), Custom(UpdDict(R))])
    except Unsupported as ex:
        # out of reach for this source: undecided (what was posed before the construct was met stays recorded)
        res.add_engine_obligations(eng, f"merge{tag}.", timeout)
        res.add(f"update_custom_metadata{tag}.out_of_reach", UNKNOWN, None, 0.0, "engine", str(ex))
        return res
    res.add_engine_obligations(eng, f"merge{tag}.", timeout)
    n_ret = 0
    for q in outs:
        if q.ctl[0] != "ret":
            res.add(f"merge{tag}.returns_normally", REFUTED, {"raises": q.ctl[1]}, 0.0, "trace", "a well-typed update does not raise")
            continue
        n_ret += 1
        res.add(f"merge{tag}.returns_normally", PROVED, None, 0.0, "trace", "a well-typed update does not raise")
        asg = q.ghost.get("assigned", [])
        kv = [a for a in asg if a[1] == "key_value_metadata"]
        ok = q.ghost.get("loops_run") == 1 and len(kv) == 1 and kv[0][0] == holder.path and "loop_exit" in q.ghost
        why = {"assignments": [(a[0], a[1]) for a in asg], "loops_run": q.ghost.get("loops_run", 0)}
        if ok:
            sid, state = q.ghost["loop_exit"]
            v = kv[0][2]
            ok = isinstance(v, Custom) and isinstance(v.h, ListH) and v.h.lid == sid and q.ghost["lists"][sid] is state
            if ok and v.h.none_flag is not None:
                # the list handed back must not be the None it may have been on entry
                ok = solve([*q.pc, v.h.none_flag], timeout)[0] == PROVED
            if not ok:
                why["value"] = "not the list the loop worked on in its loop-exit state"
        res.add(f"merge{tag}.assigns_merged_list", PROVED if ok else REFUTED, None if ok else why, 0.0, "trace",
                f"{holder.path}.key_value_metadata is assigned exactly once: the merged list as the loop left it")
        allowed = set() if is_thrift else {("obj", "_kvm")}
        others = [(a[0], a[1]) for a in asg if a[1] != "key_value_metadata" and (a[0], a[1]) not in allowed]
        res.add(f"merge{tag}.frame_no_other_attribute_assigned", PROVED if not others else REFUTED, None if not others else {"assigned": others},
                0.0, "trace", "no attribute of obj / obj.fmd other than key_value_metadata is assigned, no method of them is called")
        if not is_thrift:
            kc = [a for a in asg if (a[0], a[1]) == ("obj", "_kvm")]
            okc = len(kc) >= 1 and isinstance(kc[-1][2], NoneV)
            res.add(f"merge{tag}.cache_reset", PROVED if okc else REFUTED, None if okc else {"assignments": [(a[0], a[1]) for a in asg]}, 0.0,
                    "trace", "obj._kvm (cached dict of ParquetFile.key_value_metadata) is reset to None")
    if n_ret == 0:
        ctx.engine_error(f"update_custom_metadata{tag}: no normally returning path")
    ctx.vacuity["covers"] += n_ret
    # vacuity guards: the precondition is satisfiable with a non-empty list; every one of the four spec cases was met on a
    # feasible body path; a must-fail obligation was refuted
    if solve([n0 == 2, K0(0) != K0(1), z3.Not(is_none0)], 2000)[0] == REFUTED:
        ctx.vacuity["requires_sat"] += 1
    else:
        ctx.engine_error("C16 merge: precondition unsatisfiable")
    missing = {"remove_present", "remove_absent", "set_present", "set_absent"} - R["covered"]
    for c in sorted(missing):
        res.add(f"merge{tag}.{c}.case_is_reachable", UNKNOWN, None, 0.0, "z3",
                "no loop-body path was shown compatible with this case of the statement (vacuity guard)")
    if R.get("must_fail") == REFUTED:
        ctx.vacuity["must_fail_sat"] += 1
    elif "must_fail" in R:
        ctx.engine_error("C16 merge: must-fail obligation (a removal changes nothing) was not refuted")
    return res


def check(ctx, timeout):
    funcs, _, _ = parse_module("fastparquet/util.py")
    f = funcs["update_custom_metadata"]
    ctx.function("util.update_custom_metadata", f.sha, f.report)
    return [run(ctx, funcs, timeout, True), run(ctx, funcs, timeout, False)]


ASSUMED = [
    "list model: a list is (length >= 0, element at each position); `x in l` <=> some position holds x; l.index(x) is the LEAST such "
    "position (ValueError if none: obligation merge.index_value_present); `del l[i]` removes position i and shifts the rest down by one; "
    "`l[i] = e` changes position i only; l.append(e) adds e at position len(l); [f(x) for x in l] has len(l) elements, the i-th is f(l[i])",
    "equality of str/bytes objects is an equivalence; ensure_bytes is a function of its argument (uninterpreted: nothing else about it "
    "is used, in particular a str key and its bytes form may differ)",
    "parquet_thrift.KeyValue(key=k, value=v) is a record whose .key is k and .value is v",
    "custom_metadata.items() yields each (key, value) of the dict once; the loop body is run for ONE arbitrary item from an arbitrary "
    "state satisfying the proved invariant; the lift to whole dicts (induction over the items) is argued in the module docstring, not mechanised",
    "isinstance(obj, ThriftObject) is decided by the kind of obj (two runs: ThriftObject / ParquetFile)",
]
