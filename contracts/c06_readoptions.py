"""C06 / C03 / C13 / C14 / C15 / C17 - OPTION PLUMBING ON THE READ CHAIN (the counterpart of contracts/c02_options.py for the writers):
   ParquetFile.__init__ -> metadata_from_many / _parse_header;  _read_partitions -> paths_to_cats;  to_pandas / iter_row_groups / head /
   count -> _columns_from_filters / filter_row_groups / pre_allocate / read_row_group_file (both passes of the row_filter=True mode) ->
   core.read_row_group -> read_row_group_arrays -> read_col -> read_dictionary_page / read_data_page / read_data_page_v2 / _read_page /
   encoding._assemble_objects;  pre_allocate -> _dtypes / _pre_allocate -> dataframe.empty;  _dtypes -> converted_types.typemap;
   sorted_partitioned_columns / filter_row_groups -> filter_out_stats / filter_out_cats
at every call site the callee receives the caller's own option (columns, categories, index, filters, row_filter, dtypes, assign, partition_meta,
scheme, selfmade, schema helper, cats, use_cat, catdef, infile, open_with, root, verify, fs, tz ...) or the value the EXPECT table names.

One obligation per (call site, callee parameter):   readoptions.<caller>-><callee>[#k].passes[<parameter>]   (+ passes[**kwargs] where the
caller forwards its own **kwargs).  DECIDED STRUCTURALLY from the ast of the real source on every run (def-use; no symbolic execution):
  * the call is bound against the callee's REAL signature (api.py, core.py, util.py, dataframe.py, converted_types.py by ast; the Cython
    kernel encoding._assemble_objects through vc/front_cy); a `*args` at a site -> UNKNOWN;
  * the expected value is the caller's parameter of the same name (auto, for the tracked names), or what EXPECT says - every EXPECT entry
    carries the reason, taken from the CALLEE's contract (c03_pages, c15_assembly, c06_handles, c13_rowfilter, c14_many, c17_typemap), not
    from the code;
  * PROVED iff the expression bound is that value AND every re-binding of the name that may REACH the site (earlier in the source, not in
    the other arm of an `if` that contains the site) is a normalisation: it stands under a test on the name itself
    (`if columns is not None: ... else: columns = <default>`), or its right-hand side keeps the value - `f(name, ..)`, `name or d`,
    `a if c else name`, `name[:]`, `name += ..` - or EXPECT allows that statement by text, with a reason; EXPECT may also REQUIRE a
    normalisation (`root = root or fn` before the directory-scan call of metadata_from_many);
  * a filtered / recomputed value (`tz = {c: z for c, z in tz.items() if ..}`), a constant, another name, nothing at all (the callee's
    default) -> REFUTED with what is passed instead.  A constant EXPECT is also met by the callee's default when nothing is passed.
Flag provenance: readoptions.<fn>.<flag>_not_rebound for selfmade / use_cat / scheme / verify / skip_nulls / utf / as_idx / pandas_nulls in
every function of the chain that takes the flag (NO assignment to it anywhere in the function - a flag has no legitimate normalisation),
and readoptions.ParquetFile._set_attrs.selfmade_is_created_by_fastparquet (the one source of the flag).  `selfmade` is what keeps
fastparquet's own 8/16/32-bit dictionary indices on the numpy fast path and off cencoding.read_bitpacked (undefined for widths > 24): C12.
Not repeated here (symbolic obligations of the callee contracts): c03_pages read_col.* / read_data_page_v2.*, c15_assembly assemble.*,
c06_handles, c13_rowfilter.  Known: the v2 kernel site passes null=True, null_val=False (finding C15-P-v2-null-hard-coded).
"""
import ast

from vc.front_py import parse_module
from vlib.common import PROVED, REFUTED, UNKNOWN
from .util import Results

FID_V2NULL = "C15-P-v2-null-hard-coded"

TRACKED = ("columns", "categories", "index", "filters", "row_filter", "dtypes", "assign", "out", "partition_meta", "scheme", "file_scheme",
           "selfmade", "schema_helper", "cats", "use_cat", "catdef", "infile", "f", "open_with", "root", "verify", "pandas_nulls", "tz",
           "timezones", "fs", "file_obj", "page_header", "column_metadata", "helper", "metadata", "header", "io_obj", "columns_dtype", "file")

API_CALLERS = ("ParquetFile.__init__", "ParquetFile._parse_header", "ParquetFile._read_partitions", "ParquetFile.head",
               "ParquetFile.read_row_group_file", "ParquetFile.iter_row_groups", "ParquetFile.to_pandas", "ParquetFile.pre_allocate",
               "ParquetFile.count", "ParquetFile._dtypes", "_pre_allocate", "sorted_partitioned_columns", "filter_row_groups")
CORE_CALLERS = ("read_row_group", "read_row_group_arrays", "read_col", "read_data_page", "read_data_page_v2", "read_dictionary_page",
                "read_def", "read_rep")
API_NAMES = ("filter_row_groups", "paths_to_cats", "_pre_allocate", "sorted_partitioned_columns", "filter_out_stats", "filter_out_cats")
API_METHODS = ("to_pandas", "read_row_group_file", "pre_allocate", "_columns_from_filters", "_column_filter", "_get_index", "_dtypes",
               "_parse_header")
CORE_NAMES = ("read_row_group_arrays", "read_col", "read_data_page", "read_data_page_v2", "read_dictionary_page", "_read_page", "read_def",
              "read_rep", "read_data")

NULL_TXT = "not schema_helper.is_required(cmd.path_in_schema[0])"
NULLVAL_TXT = "se.repetition_type != parquet_thrift.FieldRepetitionType.REQUIRED"
MAXDEF_TXT = "schema_helper.max_definition_level(cmd.path_in_schema)"
W_KERNEL = "c15_assembly: the kernel's `null` <=> the OUTER group (first path element) is OPTIONAL - a definition level 0 then means a null " \
           "row, otherwise an empty collection; `null_val` <=> the leaf element is not REQUIRED; `max_defi` is the leaf's maximum definition level"
W_FIRSTPASS = "c13_rowfilter: the first pass of the row-filter mode reads ONLY the filter columns, unfiltered, without index, to evaluate the " \
              "predicate; the second pass reads the requested columns with the mask"
W_CHUNKBUF = "c03_pages: the chunk's bytes are read once into a memory buffer; every page reader works on that buffer, cursor at the page start"
W_HANDLE = "c06_handles: a row group is decoded with the handle's own schema helper, partition categories, created_by flag and layout"


def E(kind, value=None, why="", allow=(), require=()):
    return {"kind": kind, "value": value, "why": why, "allow": tuple(allow), "require": tuple(require)}


# (caller, callee or callee#k, callee parameter) -> what must arrive, and why (from the callee's contract)
EXPECT = {
    # ---- opening ---------------------------------------------------------------------------------------------------------------
    ("ParquetFile.__init__", "metadata_from_many", "verify_schema"): E("param", "verify", "the caller's verify flag decides whether the schemas of the files are compared (c14_many)"),
    ("ParquetFile.__init__", "metadata_from_many", "open_with"): E("param", "open_with", "every footer is read through the caller's opener; an explicit fs supplies it",
                                                                    allow=("open_with = fs.open",)),
    ("ParquetFile.__init__", "metadata_from_many#1", "root"): E("param", "root", "c14_many: with a root the paths in the merged metadata are relative to it"),
    ("ParquetFile.__init__", "metadata_from_many#2", "root"): E(
        "value", lambda asm, oc: ("p", "root") if any(c.startswith("('opaque', \"'*' in fn\")") and b for c, b in oc) else ("or", ("p", "root"), ("p", "fn")),
        "c14_many / analyse_paths: with a falsy root the base path is the longest common directory of the files - for a DIRECTORY scan (fn "
        "without a glob) the dataset root is the directory the user named, else a partition directory common to all files is swallowed into "
        "the base path and its column disappears", allow=("the VALUE `root if root else fn` (the user's root when given, else the directory), "
                                                            "possibly through fs._strip_protocol / join_path",)),
    ("ParquetFile._read_partitions", "paths_to_cats", "partition_meta"): E("text", "self.partition_meta", "c08_paths: partition values are typed by the dataset's partition_columns metadata"),
    # ---- head / iter / count ---------------------------------------------------------------------------------------------------
    ("ParquetFile.count", "to_pandas", "columns"): E("local", "_columns_from_filters(", W_FIRSTPASS),
    ("ParquetFile.count", "to_pandas", "row_filter"): E("const", False, W_FIRSTPASS),
    ("ParquetFile.count", "to_pandas", "index"): E("const", False, W_FIRSTPASS),
    ("ParquetFile.count", "_column_filter", "filters"): E("param", "filters", "the predicate counted is the caller's"),
    ("ParquetFile.count", "to_pandas", "categories"): E("skip", why=W_FIRSTPASS), ("ParquetFile.count", "to_pandas", "dtypes"): E("skip", why=W_FIRSTPASS),
    ("sorted_partitioned_columns", "filter_row_groups", "as_idx"): E("const", True, "the result is used as positions into the per-row-group statistics lists"),
    ("filter_row_groups", "filter_out_stats", "filters"): E("skip", why="each AND-group of the normalised filter list in turn: the fold is c05_filters filter_row_groups.*"),
    ("filter_row_groups", "filter_out_cats", "filters"): E("skip", why="each AND-group of the normalised filter list in turn: the fold is c05_filters filter_row_groups.*"),
    ("filter_row_groups", "filter_out_stats", "schema"): E("text", "pf.schema", "c05_filters: statistics are decoded with the dataset's schema"),
    ("filter_row_groups", "filter_out_cats", "partition_meta"): E("text", "pf.partition_meta", "c05_filters / c08: partition values typed by the dataset's metadata"),
    # ---- to_pandas ---------------------------------------------------------------------------------------------------------------
    ("ParquetFile.to_pandas", "to_pandas", "columns"): E("local", "_columns_from_filters(", W_FIRSTPASS),
    ("ParquetFile.to_pandas", "to_pandas", "row_filter"): E("const", False, W_FIRSTPASS),
    ("ParquetFile.to_pandas", "to_pandas", "index"): E("const", False, W_FIRSTPASS),
    ("ParquetFile.to_pandas", "to_pandas", "categories"): E("skip", why=W_FIRSTPASS), ("ParquetFile.to_pandas", "to_pandas", "dtypes"): E("skip", why=W_FIRSTPASS),
    ("ParquetFile.to_pandas", "_column_filter", "filters"): E("param", "filters", "the mask is the caller's predicate"),
    ("ParquetFile.to_pandas", "pre_allocate", "columns"): E("param", "columns", "the frame is allocated for the requested columns (+ the index columns)"),
    ("ParquetFile.to_pandas", "read_row_group_file", "assign"): E("local", "views.items()", "c06_partial: each row group decodes into ITS slice of the pre-allocated views",
                                                                  ),
    ("ParquetFile.to_pandas", "read_row_group_file", "partition_meta"): E("text", "self.partition_meta", "c08_paths read_row_group_file.default_is_the_datasets_partition_metadata"),
    ("ParquetFile.to_pandas", "read_row_group_file", "row_filter"): E("local", "selected", "c13_rowfilter: the row group's slice of the selection mask (None = all rows)",
                                                                      allow=("sel = None",)),
    ("ParquetFile.to_pandas", "read_row_group_file", "infile"): E("local", "self.open(self.fn", "a single-file dataset is read through ONE open file; parts are opened per row group",
                                                                  allow=("infile = None",)),
    # ---- read_row_group_file -----------------------------------------------------------------------------------------------------
    ("ParquetFile.read_row_group_file", "_columns_from_filters", "filters"): E("param", "row_filter", "in this mode row_filter IS the filter list"),
    ("ParquetFile.read_row_group_file", "_column_filter", "filters"): E("param", "row_filter", "in this mode row_filter IS the filter list"),
    ("ParquetFile.read_row_group_file", "read_row_group_file", "columns"): E("local", "_columns_from_filters(", W_FIRSTPASS),
    ("ParquetFile.read_row_group_file", "read_row_group_file", "index"): E("const", False, W_FIRSTPASS),
    ("ParquetFile.read_row_group_file", "read_row_group_file", "row_filter"): E("const", False, W_FIRSTPASS),
    ("ParquetFile.read_row_group_file", "read_row_group_file", "assign"): E("skip", why=W_FIRSTPASS + " (allocates its own frame)"),
    ("ParquetFile.read_row_group_file", "read_row_group_file", "partition_meta"): E("skip", why=W_FIRSTPASS + " (_columns_from_filters drops the partition columns)"),
    ("ParquetFile.read_row_group_file", "read_row_group", "file"): E("local", "infile or", "the caller's open file when one is handed in, else the row group's own file"),
    ("ParquetFile.read_row_group_file", "read_row_group", "schema_helper"): E("text", "self.schema", W_HANDLE),
    ("ParquetFile.read_row_group_file", "read_row_group", "cats"): E("text", "self.cats", W_HANDLE),
    ("ParquetFile.read_row_group_file", "read_row_group", "selfmade"): E("text", "self.selfmade", W_HANDLE),
    ("ParquetFile.read_row_group_file", "read_row_group", "scheme"): E("text", "self.file_scheme", W_HANDLE),
    # ---- allocation ----------------------------------------------------------------------------------------------------------------
    ("ParquetFile.pre_allocate", "_pre_allocate", "columns"): E("param", "columns", "c17_typemap: _pre_allocate looks every column up in dt - with caller-supplied dtypes the "
                                                                "columns ARE the keys of dtypes", allow=("columns = list(dtypes)",)),
    ("ParquetFile.pre_allocate", "_pre_allocate", "cs"): E("local", "self.cats.items()", "the partition columns among the requested ones become categoricals"),
    ("ParquetFile.pre_allocate", "_pre_allocate", "dt"): E("param", "dtypes", "the caller's dtypes, else the dataset's (_dtypes)"),
    ("ParquetFile.pre_allocate", "_pre_allocate", "tz"): E("text", "self.tz", "c17: the time zones recorded in the pandas metadata, all of them"),
    ("ParquetFile.pre_allocate", "_pre_allocate", "columns_dtype"): E("text", "self._columns_dtype", "c17: dtype of the column labels from the metadata"),
    ("_pre_allocate", "empty", "types"): E("local", "get_type(c)", "one dtype per data column, by name"),
    ("_pre_allocate", "empty", "cols"): E("local", "for c in columns if c not in index", "the data columns are the requested ones minus the index columns"),
    ("_pre_allocate", "empty", "index_names"): E("param", "index", "the index levels requested"),
    ("_pre_allocate", "empty", "index_types"): E("local", "get_type(i, index=True)", "one dtype per index level"),
    ("_pre_allocate", "empty", "cats"): E("local", "cs.copy()", "partition categories (+ the caller's category sizes)"),
    ("_pre_allocate", "empty", "timezones"): E("param", "tz", "c17 / dataframe.empty: the time-zone map is looked up by column AND index-level name: it must arrive whole"),
    ("ParquetFile._dtypes", "typemap", "md"): E("local", "pandas_metadata", "c17_typemap: the per-column pandas metadata decides unit / nullable kinds",
                                                allow=("md = {c['name']: c for c in md}", "md = None")),
    # ---- core ------------------------------------------------------------------------------------------------------------------------
    ("read_row_group_arrays", "read_col", "infile"): E("param", "file", "the row group's open file"),
    ("read_row_group_arrays", "read_col", "use_cat"): E("text", "name + '-catdef' in out", "c03_pages: codes are kept iff a categorical was allocated for the column"),
    ("read_row_group_arrays", "read_col", "assign"): E("text", "out[name]", "the column's own pre-allocated array"),
    ("read_row_group_arrays", "read_col", "catdef"): E("text", "out.get(name + '-catdef', None)", "the column's own categorical dtype"),
    ("read_col", "read_dictionary_page", "file_obj"): E("param", "infile", W_CHUNKBUF, allow=("infile = encoding.NumpyIO(column_binary)",)),
    ("read_col", "read_dictionary_page", "page_header"): E("text", "ph", "the page header just parsed"),
    ("read_col", "read_dictionary_page", "column_metadata"): E("text", "cmd", "the chunk's metadata"),
    ("read_col", "read_data_page", "f"): E("param", "infile", W_CHUNKBUF, allow=("infile = encoding.NumpyIO(column_binary)",)),
    ("read_col", "read_data_page", "helper"): E("param", "schema_helper", "level widths come from the dataset's schema"),
    ("read_col", "read_data_page", "header"): E("text", "ph", "the page header just parsed"),
    ("read_col", "read_data_page", "metadata"): E("text", "cmd", "the chunk's metadata"),
    ("read_col", "read_data_page_v2", "infile"): E("param", "infile", W_CHUNKBUF, allow=("infile = encoding.NumpyIO(column_binary)",)),
    ("read_col", "read_data_page_v2", "se"): E("text", "se", "the leaf's schema element"),
    ("read_col", "read_data_page_v2", "data_header2"): E("text", "ph.data_page_header_v2", "the v2 header of the page just parsed"),
    ("read_col", "read_data_page_v2", "cmd"): E("text", "cmd", "the chunk's metadata"),
    ("read_col", "read_data_page_v2", "dic"): E("text", "dic", "the chunk's dictionary read so far"),
    ("read_col", "read_data_page_v2", "num"): E("text", "num", "c03_pages: the running row offset of the chunk (rows decoded so far)"),
    ("read_col", "read_data_page_v2", "file_offset"): E("text", "off", "c03_pages: where this page's header starts in the chunk buffer"),
    ("read_col", "read_data_page_v2", "ph"): E("text", "ph", "the page header just parsed"),
    ("read_col", "read_data_page_v2", "idx"): E("text", "row_idx", "the shared row cursor of nested columns"),
    ("read_col", "_assemble_objects", "null"): E("localis", NULL_TXT, W_KERNEL),
    ("read_col", "_assemble_objects", "null_val"): E("localis", NULLVAL_TXT, W_KERNEL),
    ("read_col", "_assemble_objects", "max_defi"): E("localis", MAXDEF_TXT, W_KERNEL),
    ("read_col", "_assemble_objects", "prev_i"): E("text", "row_idx[0]", "c15_assembly: the row the previous page ended in"),
    ("read_data_page_v2", "_assemble_objects", "assign"): E("text", "assign[idx[0]:idx[0] + data_header2.num_rows]",
                                                            "c15_assembly / c03_pages: a v2 page's rows go to ITS slice of the output, from the shared row cursor"),
    ("read_data_page_v2", "_assemble_objects", "null"): E("localis", NULL_TXT, W_KERNEL),
    ("read_data_page_v2", "_assemble_objects", "null_val"): E("localis", NULLVAL_TXT, W_KERNEL),
    ("read_data_page_v2", "_assemble_objects", "max_defi"): E("localis", MAXDEF_TXT, W_KERNEL),
    ("read_data_page_v2", "_assemble_objects", "prev_i"): E("const", 0, "assign is sliced to this page's rows and a v2 page starts at a row boundary"),
    ("read_data_page", "_read_page", "file_obj"): E("param", "f", W_CHUNKBUF), ("read_data_page", "_read_page", "page_header"): E("param", "header", "this page's header"),
    ("read_data_page", "_read_page", "column_metadata"): E("param", "metadata", "codec of the chunk"),
    ("read_dictionary_page", "_read_page", "file_obj"): E("param", "file_obj", W_CHUNKBUF),
}


def _names(e):
    return {n.id for n in ast.walk(e) if isinstance(n, ast.Name)} if e is not None else set()


class Defs:
    """bindings of Names in a function: (name, rhs, names of the enclosing tests, statement, path of (if-node id, arm) from the root)"""

    def __init__(self, fn):
        self.items = []
        self.call_arm = {}
        self._walk(fn.body, set(), ())

    def _note_calls(self, node, arms):
        for c in ast.walk(node):
            if isinstance(c, ast.Call):
                self.call_arm.setdefault(id(c), arms)

    def _walk(self, stmts, ctl, arms):
        for st in stmts:
            if isinstance(st, (ast.FunctionDef, ast.AsyncFunctionDef)):
                continue
            if isinstance(st, (ast.Assign, ast.AnnAssign, ast.AugAssign)):
                self._note_calls(st, arms)
                targets = st.targets if isinstance(st, ast.Assign) else [st.target]
                for t in targets:
                    for n in ast.walk(t):
                        if isinstance(n, ast.Name) and isinstance(n.ctx, ast.Store):
                            self.items.append((n.id, st.value, set(ctl), st, arms))
            elif isinstance(st, (ast.For, ast.AsyncFor)):
                self._note_calls(st.iter, arms)
                for n in ast.walk(st.target):
                    if isinstance(n, ast.Name):
                        self.items.append((n.id, st.iter, set(ctl), st, arms))
                self._walk(st.body, ctl, arms)
                self._walk(st.orelse, ctl, arms)
            elif isinstance(st, ast.If):
                self._note_calls(st.test, arms)
                c2 = ctl | _names(st.test)
                self._walk(st.body, c2, arms + ((id(st), 0),))
                self._walk(st.orelse, c2, arms + ((id(st), 1),))
            elif isinstance(st, ast.While):
                self._note_calls(st.test, arms)
                self._walk(st.body, ctl | _names(st.test), arms)
            elif isinstance(st, (ast.With, ast.AsyncWith)):
                for it in st.items:
                    self._note_calls(it.context_expr, arms)
                    if it.optional_vars is not None:
                        for n in ast.walk(it.optional_vars):
                            if isinstance(n, ast.Name):
                                self.items.append((n.id, it.context_expr, set(ctl), st, arms))
                self._walk(st.body, ctl, arms)
            elif isinstance(st, ast.Try):
                for b in (st.body, st.orelse, st.finalbody):
                    self._walk(b, ctl, arms)
                for h in st.handlers:
                    self._walk(h.body, ctl, arms)
            else:
                self._note_calls(st, arms)

    def of(self, name):
        return [d for d in self.items if d[0] == name]

    def reaching(self, name, call, in_loop=False):
        """definitions of `name` that may reach `call`: earlier in the source (any position when both sit in one loop is not modelled: the
        chain has no such re-binding), and not in the OTHER arm of an `if` the call sits in"""
        carms = dict(self.call_arm.get(id(call), ()))
        out = []
        # a `for name in ..` loop whose body holds the call re-binds the name on every iteration: earlier definitions are dead there
        kill = max([d[3].lineno for d in self.of(name) if isinstance(d[3], (ast.For, ast.AsyncFor))
                    and d[3].lineno < call.lineno <= d[3].end_lineno], default=0)
        for d in self.of(name):
            st, darms = d[3], d[4]
            if st.lineno < kill:
                continue
            if st.lineno >= call.lineno and not (st.lineno == call.lineno):
                continue
            if st.lineno == call.lineno and st.col_offset >= call.col_offset:
                continue
            if any(k in carms and carms[k] != arm for k, arm in darms):
                continue
            out.append(d)
        return out


def keeps_value(name, rhs, st):
    """does the re-binding hand the value on?  f(name, ..) | name or d | a if c else name | name[:] | name += .."""
    if isinstance(st, ast.AugAssign):
        return True
    def direct(e):
        return isinstance(e, ast.Name) and e.id == name
    if isinstance(rhs, ast.Call):
        return any(direct(a) for a in rhs.args) or any(direct(k.value) for k in rhs.keywords)
    if isinstance(rhs, ast.BoolOp):
        return any(direct(v) or keeps_value(name, v, st) for v in rhs.values)
    if isinstance(rhs, ast.IfExp):
        return any(direct(v) or keeps_value(name, v, st) for v in (rhs.body, rhs.orelse))
    if isinstance(rhs, ast.Subscript) and direct(rhs.value) and isinstance(rhs.slice, ast.Slice):
        return True
    if isinstance(rhs, ast.List) and len(rhs.elts) == 1 and direct(rhs.elts[0]):
        return True
    return False


def check_rebindings(defs, name, call, allow, require):
    """-> (ok, notes, model)"""
    rs = defs.reaching(name, call)
    texts = [ast.unparse(d[3]).split("\n")[0] for d in rs]
    bad = []
    for d, t in zip(rs, texts):
        if any(a in t for a in allow):
            continue
        if name in d[2]:                 # stands under a test on the option itself
            continue
        if keeps_value(name, d[1], d[3]):
            continue
        bad.append(t[:100])
    missing = [r for r in require if not any(r in t for t in texts)]
    if bad or missing:
        m = {}
        if bad:
            m["rebound_to_a_different_value"] = bad
        if missing:
            m["required_normalisation_missing"] = missing
        return False, texts, m
    return True, texts, None


# ---- value-level provenance: what a name holds at a call site, as a term over the function's parameters ------------------------------
# terms: ("p", name) the parameter as received | ("or", a, b) | ("ife", cond, a, b) | ("norm", f, t) a normaliser applied to t |
#        ("const", v) | ("filtered", text) a comprehension with an `if` over the value | ("extended", text) join_path(x, more) |
#        ("unrelated", text) | ("other", text) undecidable
# conds: ("truthy", t) | ("not", c) | ("isnone", t) | ("opaque", text)
NORMALISERS = {"_strip_protocol", "join_path", "get_fs", "check_categories", "_get_index", "list", "tuple", "str", "copy", "bool", "os.fspath",
               "fspath", "stringify_path"}


class ValueEval:
    """forward evaluation of a function body up to ONE call site, forking at `if`s; every path that reaches the site yields
    (value term of the wanted argument, truthiness / None-ness assumptions on parameters, opaque branch conditions taken)"""
    LIMIT = 256

    def __init__(self, fn, call, arg_expr):
        self.fn, self.call, self.arg = fn, call, arg_expr
        self.params = {a.arg for a in fn.args.args} | {a.arg for a in fn.args.kwonlyargs}
        self.hits, self.overflow = [], False

    # -- expressions
    def ev(self, e, env):
        if isinstance(e, ast.Name):
            if e.id in env:
                return env[e.id]
            return ("p", e.id) if e.id in self.params else ("other", e.id)
        if isinstance(e, ast.Constant):
            return ("const", e.value)
        if isinstance(e, ast.BoolOp) and isinstance(e.op, ast.Or):
            t = self.ev(e.values[-1], env)
            for v in reversed(e.values[:-1]):
                t = ("or", self.ev(v, env), t)
            return t
        if isinstance(e, ast.IfExp):
            return ("ife", self.cond(e.test, env), self.ev(e.body, env), self.ev(e.orelse, env))
        if isinstance(e, ast.Subscript) and isinstance(e.slice, ast.Slice) and e.slice.lower is None and e.slice.upper is None:
            return ("norm", "[:]", self.ev(e.value, env))
        if isinstance(e, ast.Call):
            f = ast.unparse(e.func)
            args = list(e.args) + [k.value for k in e.keywords]
            if f in NORMALISERS or f.split(".")[-1] in NORMALISERS:
                tracked = [self.ev(a, env) for a in args if isinstance(a, ast.Name)]
                tracked = [t for t in tracked if t[0] != "other"]
                if len(args) == 1 and tracked:
                    return ("norm", f, tracked[0])          # f(x): the same value, normalised
                if f.split(".")[-1] == "join_path" and len(args) > 1 and tracked:
                    return ("extended", ast.unparse(e)[:70])  # join_path(x, more): a DIFFERENT path (components appended)
        if isinstance(e, (ast.ListComp, ast.DictComp, ast.SetComp, ast.GeneratorExp)) and any(g.ifs for g in e.generators):
            return ("filtered", ast.unparse(e)[:70])
        names = {n.id for n in ast.walk(e) if isinstance(n, ast.Name)}
        derived = any(n in env and env[n][0] != "other" or n in self.params for n in names)
        return ("other" if derived else "unrelated", ast.unparse(e)[:70])

    def cond(self, t, env):
        if isinstance(t, ast.UnaryOp) and isinstance(t.op, ast.Not):
            return ("not", self.cond(t.operand, env))
        if isinstance(t, ast.Compare) and len(t.ops) == 1 and isinstance(t.comparators[0], ast.Constant) and t.comparators[0].value is None \
                and isinstance(t.ops[0], (ast.Is, ast.IsNot, ast.Eq, ast.NotEq)):
            c = ("isnone", self.ev(t.left, env))
            return c if isinstance(t.ops[0], (ast.Is, ast.Eq)) else ("not", c)
        if isinstance(t, ast.BoolOp):
            return ("opaque", ast.unparse(t)[:60])
        if isinstance(t, (ast.Name, ast.Attribute)) or isinstance(t, ast.Call) and ast.unparse(t.func) == "bool":
            return ("truthy", self.ev(t if not isinstance(t, ast.Call) else t.args[0], env))
        return ("opaque", ast.unparse(t)[:60])

    # -- three-valued truth under assumptions; `need` = the parameter atom whose truthiness decides
    def truth(self, t, asm):
        k = t[0]
        if k == "p":
            if asm.get(("none", t[1])) is True:
                return False
            return asm.get(("truthy", t[1]), ("need", ("truthy", t[1])))
        if k == "const":
            return bool(t[1])
        if k == "norm":
            return self.truth(t[2], asm)            # normalisers keep truthiness (a non-empty path / list stays non-empty)
        if k == "or":
            a = self.truth(t[1], asm)
            return True if a is True else self.truth(t[2], asm) if a is False else a
        if k == "ife":
            c = self.decide(t[1], asm)
            return self.truth(t[2], asm) if c is True else self.truth(t[3], asm) if c is False else c
        return None

    def decide(self, c, asm):
        if c[0] == "not":
            r = self.decide(c[1], asm)
            return (not r) if isinstance(r, bool) else r
        if c[0] == "truthy":
            return self.truth(c[1], asm)
        if c[0] == "isnone":
            t = self.simplify(c[1], asm)
            if t[0] == "p":
                if asm.get(("truthy", t[1])) is True:
                    return False
                return asm.get(("none", t[1]), ("need", ("none", t[1])))
            return False if t[0] in ("const", "norm") and not (t[0] == "const" and t[1] is None) else True if t == ("const", None) else None
        return None

    def simplify(self, t, asm):
        k = t[0]
        if k == "norm":
            return self.simplify(t[2], asm)
        if k == "or":
            a = self.truth(t[1], asm)
            return self.simplify(t[1], asm) if a is True else self.simplify(t[2], asm) if a is False else ("or", self.simplify(t[1], asm), self.simplify(t[2], asm))
        if k == "ife":
            c = self.decide(t[1], asm)
            return self.simplify(t[2], asm) if c is True else self.simplify(t[3], asm) if c is False else t
        return t

    # -- statements
    def run(self):
        self.block(self.fn.body, [({}, {}, ())])
        return self.hits

    def holds_site(self, node):
        return any(n is self.call for n in ast.walk(node))

    def block(self, stmts, states):
        for st in stmts:
            if not states:
                return []
            if len(states) > self.LIMIT:
                self.overflow = True
                return []
            states = self.stmt(st, states)
        return states

    def fork(self, c, state):
        """-> [(state', branch taken: True/False)]"""
        env, asm, oc = state
        r = self.decide(c, asm)
        if isinstance(r, bool):
            return [(state, r)]
        if isinstance(r, tuple) and r[0] == "need":
            out = []
            for v in (True, False):
                a2 = dict(asm)
                a2[r[1]] = v
                if r[1][0] == "none" and v:
                    a2[("truthy", r[1][1])] = False
                out += self.fork(c, (env, a2, oc))
            return out
        txt = str(c)
        return [((env, asm, oc + ((txt, True),)), True), ((env, asm, oc + ((txt, False),)), False)]

    def stmt(self, st, states):
        if isinstance(st, (ast.FunctionDef, ast.AsyncFunctionDef, ast.ClassDef)):
            return states
        if isinstance(st, ast.If):
            out = []
            for s_ in states:
                c = self.cond(st.test, s_[0]) if not self.holds_site(st.test) else ("opaque", "site")
                for s2, taken in self.fork(c, s_):
                    out += self.block(st.body if taken else st.orelse, [s2])
            return out
        if isinstance(st, (ast.With, ast.AsyncWith)):
            if any(self.holds_site(i.context_expr) for i in st.items):
                self.record(states)
                return []
            return self.block(st.body, states)
        if isinstance(st, ast.Try):
            out = self.block(st.body, states)
            for h in st.handlers:
                out += self.block(h.body, states)
            out = self.block(st.orelse, out) if st.orelse else out
            return self.block(st.finalbody, out) if st.finalbody else out
        if isinstance(st, (ast.For, ast.AsyncFor, ast.While)):
            if self.holds_site(st):
                # a site inside a loop: names the loop assigns are undecidable there
                assigned = {n.id for x in ast.walk(st) for n in ([x] if isinstance(x, ast.Name) and isinstance(x.ctx, ast.Store) else [])}
                ns = [({**env, **{a: ("other", "assigned in a loop") for a in assigned}}, asm, oc) for env, asm, oc in states]
                return self.block(st.body, ns)
            assigned = {n.id for x in ast.walk(st) for n in ([x] if isinstance(x, ast.Name) and isinstance(x.ctx, ast.Store) else [])}
            return [({**env, **{a: ("other", "assigned in a loop") for a in assigned}}, asm, oc) for env, asm, oc in states]
        if isinstance(st, (ast.Return, ast.Raise)):
            if self.holds_site(st):
                self.record(states)
            return []
        if self.holds_site(st):
            self.record(states)
            return []
        if isinstance(st, (ast.Assign, ast.AnnAssign, ast.AugAssign)) and getattr(st, "value", None) is not None:
            out = []
            for env, asm, oc in states:
                env = dict(env)
                targets = st.targets if isinstance(st, ast.Assign) else [st.target]
                for t in targets:
                    if isinstance(t, ast.Name):
                        env[t.id] = ("norm", "+=", self.ev(t, env)) if isinstance(st, ast.AugAssign) else self.ev(st.value, env)
                    elif isinstance(t, (ast.Tuple, ast.List)):
                        f = ast.unparse(st.value.func) if isinstance(st.value, ast.Call) else ""
                        argn = {a.id for a in st.value.args if isinstance(a, ast.Name)} if isinstance(st.value, ast.Call) else set()
                        for el in t.elts:
                            if isinstance(el, ast.Name):
                                env[el.id] = ("norm", f, self.ev(el, env)) if (f.split(".")[-1] in NORMALISERS and el.id in argn) else ("other", ast.unparse(st.value)[:50])
                out.append((env, asm, oc))
            return out
        return states

    def record(self, states):
        for env, asm, oc in states:
            self.hits.append((self.ev(self.arg, env), asm, oc))


def value_provenance(fn, call, arg_expr, expected, exempt_when_absent=True):
    """-> (status, model, note).  `expected(asm, oc)` -> term the argument must EQUAL (after stripping normalisers) on the path; paths on
    which the caller's option is absent (None / falsy where the function substitutes its own default) are exempt when asked"""
    ve = ValueEval(fn, call, arg_expr)
    hits = ve.run()
    if ve.overflow or not hits:
        return UNKNOWN, {"why": "path explosion" if ve.overflow else "no path reaches the call site in the evaluator"}, ""
    unknown, bad, norms = [], [], set()
    todo = list(hits)
    n = 0
    while todo and n < 4096:
        n += 1
        val, asm, oc = todo.pop()
        want = expected(asm, oc)
        got, exp = ve.simplify(val, asm), ve.simplify(want, asm)
        pend = [t for t in (got, exp) if t[0] in ("or", "ife")]
        if pend:
            r = ve.truth(pend[0], asm) if pend[0][0] == "or" else ve.decide(pend[0][1], asm)
            if isinstance(r, tuple) and r[0] == "need":
                for v in (True, False):
                    a2 = dict(asm)
                    a2[r[1]] = v
                    todo.append((val, a2, oc))
                continue
            unknown.append(str(got)[:80])
            continue
        if got == exp:
            continue
        if exempt_when_absent and exp[0] == "p" and (asm.get(("none", exp[1])) is True or asm.get(("truthy", exp[1])) is False):
            continue            # the option is absent on this path: the function's own default stands in for it
        if got[0] == "other":
            unknown.append(got[1])
        else:
            bad.append({"on_the_path": {f"{k[0]}({k[1]})": v for k, v in asm.items()} | {c: b for c, b in oc}, "the_callee_receives": str(got)[:90],
                        "expected": str(exp)[:90]})
    if bad:
        return REFUTED, {"value_differs": bad[:3]}, ""
    if unknown:
        return UNKNOWN, {"undecided_value": sorted(set(unknown))[:3]}, ""
    return PROVED, None, " [by value on %d path(s)]" % len(hits)


def bind(call, callee_fn, skip_self):
    params = [a.arg for a in callee_fn.args.args][1 if skip_self else 0:]
    if any(isinstance(a, ast.Starred) for a in call.args):
        return None, params, None
    m = {}
    for p, a in zip(params, call.args):
        m[p] = a
    kwonly = [a.arg for a in callee_fn.args.kwonlyargs]
    star = None
    for k in call.keywords:
        if k.arg is None:
            star = k.value
        elif k.arg in params or k.arg in kwonly:
            m[k.arg] = k.value
    return m, params + kwonly, star


def default_of(callee_fn, p):
    a = callee_fn.args
    params = [x.arg for x in a.args]
    d = dict(zip(params[len(params) - len(a.defaults):], a.defaults))
    return d.get(p)


def load_tables():
    api, _, _ = parse_module("fastparquet/api.py")
    core, _, _ = parse_module("fastparquet/core.py")
    util, _, _ = parse_module("fastparquet/util.py")
    dfm, _, _ = parse_module("fastparquet/dataframe.py")
    ct, _, _ = parse_module("fastparquet/converted_types.py")
    from . import cy
    cyf, _, _ = cy.load()
    names = {n: (api[n].tree, False) for n in API_NAMES if n in api}
    names["metadata_from_many"] = (util["metadata_from_many"].tree, False)
    names.update({n: (core[n].tree, False) for n in CORE_NAMES if n in core})
    methods = {m: (api["ParquetFile." + m].tree, True) for m in API_METHODS if "ParquetFile." + m in api}
    dotted = {"core.read_row_group": (core["read_row_group"].tree, False), "dataframe.empty": (dfm["empty"].tree, False),
              "converted_types.typemap": (ct["typemap"].tree, False)}
    if "_assemble_objects" in cyf:
        dotted["encoding._assemble_objects"] = (cyf["_assemble_objects"].tree, False)
    callers = [("api", q, api[q]) for q in API_CALLERS if q in api] + [("core", q, core[q]) for q in CORE_CALLERS if q in core]
    return names, methods, dotted, callers


def _own_calls(fn):
    out, todo = [], [n for n in fn.body if not isinstance(n, (ast.FunctionDef, ast.AsyncFunctionDef))]
    while todo:
        n = todo.pop()
        if isinstance(n, ast.Call):
            out.append(n)
        for c in ast.iter_child_nodes(n):
            if isinstance(c, (ast.FunctionDef, ast.AsyncFunctionDef, ast.Lambda)):
                continue
            todo.append(c)
    return sorted(out, key=lambda n: (n.lineno, n.col_offset))


def analyse():
    names, methods, dotted, callers = load_tables()
    res = Results()
    n_sites = 0
    for mod, q, pf in callers:
        fn = pf.tree
        own = {a.arg for a in fn.args.args} | {a.arg for a in fn.args.kwonlyargs}
        kwname = fn.args.kwarg.arg if fn.args.kwarg else None
        defs = Defs(fn)
        per = {}
        for c in _own_calls(fn):
            key = None
            if isinstance(c.func, ast.Name) and c.func.id in names:
                key, tab = c.func.id, names
            elif isinstance(c.func, ast.Attribute):
                full = ast.unparse(c.func)
                if full in dotted:
                    key, tab = full, dotted
                elif c.func.attr in methods:
                    key, tab = c.func.attr, methods
            if key is None:
                continue
            per.setdefault(key, []).append((c, tab[key]))
        for key, sites in per.items():
            short = key.split(".")[-1]
            for k, (c, (cfn, skip_self)) in enumerate(sites):
                sk = short + (f"#{k + 1}" if len(sites) > 1 else "")
                site = f"readoptions.{q}->{sk}"
                bound, params, star = bind(c, cfn, skip_self)
                n_sites += 1
                if star is not None:
                    ob = f"{site}.passes[**kwargs]"
                    okk = isinstance(star, ast.Name) and star.id == kwname and not defs.of(kwname)
                    res.add(ob, PROVED if okk else REFUTED, None if okk else {"forwarded": ast.unparse(star), "line": c.lineno}, 0.0, "ast",
                            f"{short}(..., **kwargs) at L{c.lineno} forwards the caller's own keyword options, unchanged")
                for p in params:
                    spec = EXPECT.get((q, sk, p)) or EXPECT.get((q, short, p))
                    if spec is None:
                        if p in TRACKED and p in own:
                            spec = E("param", p, "the caller's own option")
                        else:
                            continue
                    if spec["kind"] == "skip":
                        continue
                    ob = f"{site}.passes[{p}]"
                    what = {"param": "the caller's parameter `%s`", "value": "%s", "text": "`%s`", "local": "a local defined from `%s`", "localis": "`%s`",
                            "const": "the constant %s"}[spec["kind"]] % (spec["value"] if spec["kind"] != "value" else spec["allow"][0],)
                    detail = f"{short}(... {p} ...) at L{c.lineno} receives {what} [{spec['why']}]"
                    if bound is None:
                        res.add(ob, UNKNOWN, None, 0.0, "ast", detail + " - *args at the call site")
                        continue
                    e = bound.get(p)
                    dflt = default_of(cfn, p)
                    if e is None:
                        if spec["kind"] == "const" and isinstance(dflt, ast.Constant) and dflt.value is spec["value"]:
                            res.add(ob, PROVED, None, 0.0, "ast", detail + " [not passed: the callee's default IS that constant]")
                            continue
                        if star is not None:
                            continue            # may arrive through **kwargs: covered by passes[**kwargs]
                        res.add(ob, REFUTED, {"passed": "nothing", "callee_uses_its_default": ast.unparse(dflt) if dflt is not None else "<required>",
                                              "line": c.lineno}, 0.0, "ast", detail)
                        continue
                    txt = ast.unparse(e)
                    st, model, note = REFUTED, {"passed": txt, "line": c.lineno}, ""
                    kind, val = spec["kind"], spec["value"]
                    if kind == "param":
                        if isinstance(e, ast.Name) and e.id == val:
                            ok, texts, m = check_rebindings(defs, val, c, spec["allow"], spec["require"])
                            if ok:
                                st, model = PROVED, None
                                note = (" [normalised first: " + "; ".join(t[:60] for t in texts) + "]") if texts else ""
                            else:
                                # the syntactic forms do not explain a re-binding: decide BY VALUE (never a violation when undecidable)
                                st, vm, note = value_provenance(fn, c, e, lambda asm, oc, val=val: ("p", val))
                                model = None if st == PROVED else dict(vm or {}, **m, passed=txt, line=c.lineno)
                    elif kind == "value":
                        st, vm, note = value_provenance(fn, c, e, val, exempt_when_absent=False)
                        model = None if st == PROVED else dict(vm or {}, passed=txt, line=c.lineno)
                    elif kind == "text":
                        if txt == val:
                            st, model = PROVED, None
                    elif kind == "local":
                        if isinstance(e, ast.Name):
                            ds = defs.reaching(e.id, c) or defs.of(e.id)
                            texts = [ast.unparse(d[3]).split("\n")[0] for d in ds]
                            main = [t for t in texts if val in t]
                            rest = [t for t in texts if val not in t and not any(a in t for a in spec["allow"])]
                            if main and not rest:
                                st, model, note = PROVED, None, f" [{main[0][:70]}]"
                            else:
                                model = {"passed": txt, "defined_as": [t[:80] for t in texts], "line": c.lineno}
                    elif kind == "localis":
                        if txt == val:
                            st, model = PROVED, None
                        elif isinstance(e, ast.Name):
                            ds = defs.reaching(e.id, c)
                            rhs = [ast.unparse(d[1]) for d in ds]
                            if rhs and all(r == val for r in rhs):
                                st, model, note = PROVED, None, f" [{e.id} = {val[:60]}]"
                            else:
                                model = {"passed": txt, "defined_as": [r[:90] for r in rhs], "expected": val, "line": c.lineno}
                        else:
                            model = {"passed": txt, "expected": val, "line": c.lineno}
                    elif kind == "const":
                        if isinstance(e, ast.Constant) and e.value is val or (isinstance(e, ast.Constant) and e.value == val and type(e.value) is type(val)):
                            st, model = PROVED, None
                    res.add(ob, st, model, 0.0, "ast", detail + note)
    return res, n_sites


FLAGS = ("selfmade", "use_cat", "scheme", "verify", "skip_nulls", "utf", "as_idx", "pandas_nulls")
W_SELFMADE = "c11 / c12: `selfmade` (the file was written by fastparquet) is what sends 8/16/32-bit dictionary indices to the numpy fast path of " \
             "read_data_page / read_data_page_v2 (`bit_width in [8, 16, 32] and selfmade`) instead of cencoding.read_bitpacked, whose shifts are " \
             "undefined for widths > 24: it must arrive as ParquetFile computed it from created_by, on every path"


def flag_obligations(res):
    """readoptions.<fn>.<flag>_not_rebound: a flag-like option is never assigned inside a function of the chain that takes it (no
    normalisation is legitimate for a flag: it is only tested and handed on); and the flag's source in ParquetFile._set_attrs"""
    names, methods, dotted, callers = load_tables()
    fns = {}
    for mod, q, pf in callers:
        fns[q] = pf.tree
    for tab in (names, methods, dotted):
        for k, (tree, _s) in tab.items():
            q = k.split(".")[-1] if k in dotted else k
            if not any(t is tree for t in fns.values()):
                fns.setdefault(q if k not in methods else "ParquetFile." + k, tree)
    n = 0
    for q, fn in sorted(fns.items()):
        params = {a.arg for a in fn.args.args} | {a.arg for a in fn.args.kwonlyargs}
        for flag in FLAGS:
            if flag not in params:
                continue
            sts = [st for st in ast.walk(fn) if isinstance(st, (ast.Assign, ast.AugAssign, ast.AnnAssign, ast.Delete, ast.NamedExpr))
                   and any(isinstance(x, ast.Name) and x.id == flag and isinstance(x.ctx, (ast.Store, ast.Del)) for x in ast.walk(st))]
            loops = [st for st in ast.walk(fn) if isinstance(st, (ast.For, ast.With))
                     for t in ([st.target] if isinstance(st, ast.For) else [i.optional_vars for i in st.items if i.optional_vars])
                     if any(isinstance(x, ast.Name) and x.id == flag for x in ast.walk(t))]
            stores, undecided, kept = [], [], []
            ve = ValueEval(fn, None, None)
            for st in sts:
                txt = f"L{st.lineno}: " + ast.unparse(st).split("\n")[0][:90]
                rhs = getattr(st, "value", None)
                simple = isinstance(st, (ast.Assign, ast.AnnAssign)) and rhs is not None and \
                    all(isinstance(t, ast.Name) for t in (st.targets if isinstance(st, ast.Assign) else [st.target]))
                if not simple:
                    stores.append(txt)
                    continue
                t = ve.ev(rhs, {})
                core = t
                while core[0] == "norm" and core[1].split(".")[-1] in ("bool",):
                    core = core[2]
                truth_only = core[0] == "ife" and core[1] == ("truthy", ("p", flag)) and core[2][0] == "const" and core[3][0] == "const" \
                    and bool(core[2][1]) is True and bool(core[3][1]) is False
                if core == ("p", flag) or truth_only or (core[0] == "or" and core[1] == ("p", flag) and core[2][0] == "const" and not core[2][1]):
                    kept.append(txt)          # x = x | bool(x) | x or False | True if x else False: the same flag for every truth test
                elif core[0] in ("const", "unrelated", "filtered", "extended", "p"):
                    stores.append(txt)
                else:
                    undecided.append(txt)
            stores += [f"L{st.lineno}: for/with target" for st in loops]
            n += 1
            if undecided and not stores:
                res.add(f"readoptions.{q}.{flag}_not_rebound", UNKNOWN, {"undecided_assignments": undecided}, 0.0, "ast",
                        f"`{flag}` of {q} is re-bound by an expression of itself whose value could not be decided")
                continue
            res.add(f"readoptions.{q}.{flag}_not_rebound", PROVED if not stores else REFUTED, None if not stores else {"assignments": stores}, 0.0, "ast",
                    f"the parameter `{flag}` of {q} is never assigned a different value inside the function (a re-binding that keeps its truth value - "
                    f"x = x, bool(x), x or False, True if x else False - is none): what the function tests and hands on is the caller's flag"
                    + (" [value-preserving: " + "; ".join(kept) + "]" if kept else "")
                    + (" [" + W_SELFMADE + "]" if flag == "selfmade" else ""))
    api, _, _ = parse_module("fastparquet/api.py")
    cls_stores = []
    for q, f in api.items():
        if q.startswith("ParquetFile."):
            for st in ast.walk(f.tree):
                if isinstance(st, (ast.Assign, ast.AugAssign, ast.AnnAssign)):
                    for t in (st.targets if isinstance(st, ast.Assign) else [st.target]):
                        if isinstance(t, ast.Attribute) and t.attr == "selfmade":
                            cls_stores.append((q, ast.unparse(st.value)))
    want = "b'fastparquet' in self.created_by if self.created_by is not None else False"
    ok = cls_stores == [("ParquetFile._set_attrs", want)]
    res.add("readoptions.ParquetFile._set_attrs.selfmade_is_created_by_fastparquet", PROVED if ok else REFUTED,
            None if ok else {"assignments_to_self.selfmade": [f"{q}: {v[:80]}" for q, v in cls_stores]}, 0.0, "ast",
            "self.selfmade is assigned once, in _set_attrs, as `b'fastparquet' in created_by` (False without created_by) [" + W_SELFMADE + "]")
    return n


def check(ctx, timeout=None):
    api, _, _ = parse_module("fastparquet/api.py")
    core, _, _ = parse_module("fastparquet/core.py")
    for q in API_CALLERS:
        if q in api:
            ctx.function("api." + q, api[q].sha, api[q].report)
    for q in CORE_CALLERS:
        if q in core:
            ctx.function("core." + q, core[q].sha, core[q].report)
    res, n_sites = analyse()
    flag_obligations(res)
    if n_sites < 35 or len(res.order) < 100:
        ctx.engine_error(f"readoptions: only {n_sites} call sites / {len(res.order)} obligations found - the read chain was not recognised")
    ctx.vacuity["covers"] += n_sites
    return [res]


ASSUMED = [
    "read-chain option plumbing is decided from the ast of the real source (def-use with a may-reach rule: a re-binding reaches a call site "
    "unless it follows it in the source or sits in the other arm of an `if` the site is in); loops are not unrolled",
    "a re-binding under a test on the option itself, or of the forms f(name, ..) / name or d / a if c else name / name[:] / name += .., hands the "
    "caller's value on (check_categories, _get_index, get_fs, fs._strip_protocol are such normalisers); every other allowed re-binding is "
    "listed by text in EXPECT with the callee contract it rests on",
    "callees are resolved by name (functions of api.py / core.py / util.metadata_from_many), by method name whatever the receiver (to_pandas, "
    "read_row_group_file, pre_allocate, _columns_from_filters, _column_filter, _get_index, _dtypes, _parse_header) and by dotted name "
    "(core.read_row_group, dataframe.empty, converted_types.typemap, encoding._assemble_objects - the latter's signature from cencoding.pyx)",
]
