"""C04 / C05 - the DECODE step of the statistics chain: api.statistics and api.filter_out_stats turn the stored min / max bytes of a
chunk into a value with  encoding.read_plain(<bytes>, <physical type>, 1, stat=True)  (then converted_types.convert where the column
is annotated - that half is contracts/c01_units `convert.value_means_annotation[...]`).

  stat_decode.call_sites_use_the_single_value_form[api.py:<function>:#k]      (ast)
        every read_plain call with stat=True in api.py has the shape read_plain(<bytes>, <type>, 1, stat=True): count 1, no width and
        no utf argument - so the table below is the whole domain of the call (physical type x stored bytes)
  stat_decode.read_plain_single_value[<type>|<shape>]                          (enumeration, executed on the real function)
        read_plain(b, type, 1, stat=True) returns a sequence of exactly ONE element that denotes the value the PLAIN encoding of the
        Parquet format gives these bytes: little-endian integers / IEEE floats, bit 0 for BOOLEAN, the bytes THEMSELVES for BYTE_ARRAY
        (type bytes, nothing stripped, nothing decoded), the bytes up to trailing NUL padding for FIXED_LEN_BYTE_ARRAY / INT96 (numpy's
        S dtype drops trailing NULs on item access: accepted, stated here).
The table is finite in the type dimension and bounded in the value dimension (boundary shapes: empty, trailing NULs, non-UTF-8, long,
extreme numbers): label `enumeration (executed)`, not a deductive proof.  The real functions are imported from the tree under check
on every run; the call sites are read from its source on every run.
"""
import ast
import math
import os
import struct
import time

from vlib.common import PROVED, REFUTED, UNKNOWN, REPO
from .util import Results

ASSUMED = ["numpy: np.frombuffer / item access of S dtypes drop trailing NUL bytes (accepted for FIXED_LEN_BYTE_ARRAY and INT96 statistics)",
           "the statistics call sites of api.py are exactly the read_plain(..., stat=True) calls (the ast obligation checks their shape)"]


def _cases(T):
    c = []
    for v in (0, 1, -1, 2 ** 31 - 1, -2 ** 31, 123456):
        c.append(("INT32", "value=%d" % v, T.INT32, struct.pack("<i", v), ("num", v)))
    for v in (0, -1, 2 ** 63 - 1, -2 ** 63, 2 ** 32, 1577840523000):
        c.append(("INT64", "value=%d" % v, T.INT64, struct.pack("<q", v), ("num", v)))
    for v in (0.0, -0.5, 1.5, 3.4028234663852886e+38, float("inf")):
        c.append(("FLOAT", "value=%r" % v, T.FLOAT, struct.pack("<f", v), ("num", struct.unpack("<f", struct.pack("<f", v))[0])))
    for v in (0.0, -0.5, 1e300, 5e-324, float("-inf")):
        c.append(("DOUBLE", "value=%r" % v, T.DOUBLE, struct.pack("<d", v), ("num", v)))
    c.append(("DOUBLE", "value=nan", T.DOUBLE, struct.pack("<d", float("nan")), ("nan", None)))
    for v in (0, 1):
        c.append(("BOOLEAN", "value=%d" % v, T.BOOLEAN, bytes([v]), ("bool", bool(v))))
    for tag, b in (("empty", b""), ("ascii", b"pear"), ("trailing NUL", b"\x04\x00\x00\x00"), ("only NULs", b"\x00\x00"),
                   ("leading NUL", b"\x00ab"), ("utf-8 text", "café".encode()), ("not utf-8", b"sig\xe2("), ("long", b"x" * 70000),
                   ("looks like a number", b"12"), ("space padded", b"ab  ")):
        c.append(("BYTE_ARRAY", tag, T.BYTE_ARRAY, b, ("bytes", b)))
    for tag, b in (("width 1", b"a"), ("width 5", b"apple"), ("width 5, NUL padded", b"kiwi\x00"), ("width 16", bytes(range(1, 17))),
                   ("width 3, high bytes", b"\xff\xfe\xfd")):
        c.append(("FIXED_LEN_BYTE_ARRAY", tag, T.FIXED_LEN_BYTE_ARRAY, b, ("padded", b)))
    c.append(("INT96", "12 bytes", T.INT96, bytes(range(1, 13)), ("padded", bytes(range(1, 13)))))
    return c


def _judge(out, want):
    kind, v = want
    try:
        n = len(out)
    except Exception as e:
        return f"result has no length ({type(out).__name__}: {e})"
    if n != 1:
        return f"{n} elements returned for count=1"
    x = out[0]
    if kind == "num":
        ok = (float(x) == float(v)) if isinstance(v, float) else (int(x) == v)
        return None if ok else f"decoded {x!r}, the bytes encode {v!r}"
    if kind == "nan":
        return None if math.isnan(float(x)) else f"decoded {x!r}, the bytes encode nan"
    if kind == "bool":
        return None if bool(x) == v else f"decoded {x!r}, the bytes encode {v!r}"
    xb = bytes(x) if isinstance(x, (bytes, bytearray, memoryview)) or type(x).__name__ in ("bytes_", "void") else x
    if kind == "bytes":
        if not isinstance(xb, bytes):
            return f"decoded {type(x).__name__} {x!r}: a BYTE_ARRAY statistic is bytes"
        return None if xb == v else f"decoded {xb[:24]!r} (len {len(xb)}), stored {v[:24]!r} (len {len(v)})"
    if kind == "padded":
        if not isinstance(xb, bytes):
            return f"decoded {type(x).__name__} {x!r}: expected the stored bytes"
        return None if xb.rstrip(b"\x00") == v.rstrip(b"\x00") else f"decoded {xb!r}, stored {v!r}"
    return "unknown expectation"


def check(ctx, timeout):
    res = Results()
    # ---- call sites (ast) -------------------------------------------------------------------------------------------------------
    src = open(os.path.join(REPO, "fastparquet", "api.py")).read()
    tree = ast.parse(src)
    ord_ = {}
    n_sites = 0
    for fn in ast.walk(tree):
        if not isinstance(fn, (ast.FunctionDef, ast.AsyncFunctionDef)):
            continue
        for node in ast.walk(fn):
            if isinstance(node, ast.Call) and ast.unparse(node.func).endswith("read_plain") and \
                    any(k.arg == "stat" for k in node.keywords):
                k = ord_[fn.name] = ord_.get(fn.name, 0) + 1
                n_sites += 1
                kws = {kw.arg: ast.unparse(kw.value) for kw in node.keywords}
                ok = (len(node.args) == 3 and isinstance(node.args[2], ast.Constant) and node.args[2].value == 1
                      and kws == {"stat": "True"})
                res.add(f"stat_decode.call_sites_use_the_single_value_form[api.py:{fn.name}:#{k}]", PROVED if ok else REFUTED,
                        None if ok else {"call": ast.unparse(node)[:160], "line": node.lineno}, 0.0, "ast",
                        "read_plain(<bytes>, <type>, 1, stat=True): count 1, no width, no utf - the table below is the call's whole domain")
    if n_sites == 0:
        res.add("stat_decode.call_sites_found", UNKNOWN, None, 0.0, "ast", "no read_plain(..., stat=True) call in api.py: the decode step moved - out of reach")
    # ---- the table (executed) ---------------------------------------------------------------------------------------------------
    from runtime.harness import import_fastparquet
    fp = import_fastparquet()
    from fastparquet import encoding, parquet_thrift
    for tname, tag, ptype, raw, want in _cases(parquet_thrift.Type):
        t0 = time.time()
        try:
            out = encoding.read_plain(raw, ptype, 1, stat=True)
            msg = _judge(out, want)
        except Exception as e:
            msg = f"raised {type(e).__name__}: {str(e)[:120]}"
        res.add(f"stat_decode.read_plain_single_value[{tname}|{tag}]", PROVED if msg is None else REFUTED,
                None if msg is None else {"type": tname, "stored_bytes": raw[:32].hex() + ("..." if len(raw) > 32 else ""), "len": len(raw),
                                          "result": msg}, time.time() - t0, "enumeration (executed)",
                "read_plain(b, type, 1, stat=True)[0] denotes the value PLAIN gives these bytes" + ("" if msg is None else " | " + msg))
    ctx.vacuity["covers"] += len(res.order)
    return res
