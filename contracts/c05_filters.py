"""C05 - row-group pruning is sound.  Sidecar contracts for api.filter_val / filter_in / filter_not_in /
filter_out_stats / filter_out_cats / filter_row_groups, discharged on the real source of
/repo/fastparquet/api.py (extracted by ast on every run).

Model (DESIGN 5/C05): column values range over a totally ordered sort (Int here); a chunk is
abstracted by its statistics (vmin, vmax : Optional) with the C04 soundness assumption
`holds(v) => (vmin is None or vmin <= v) and (vmax is None or v <= vmax)`.  Filter semantics from the
property statement: a null never satisfies a comparison; flat list = AND; list of lists = OR of ANDs.

Top-level postconditions are written from the property statement:
   a pruning function returns True  =>  no row of the row group satisfies the (AND-)condition;
   filter_row_groups omits a row group => every OR-group is excluded for it; result is an in-order
   subsequence of pf.row_groups.
"""
import ast

import z3

from vc import backends
from vc.symexec import (forall_range, exists_range, Engine, Path, Opt, PyI, PyB, Seq, Str, Tup, Custom, Opaque,
                        NoneV, Unsupported, AbstractComp)
from vlib.common import PROVED, REFUTED, UNKNOWN
from .util import Results, merge_and_record, solve, ret_line

OPS = {
    "==": lambda v, c: v == c, "=": lambda v, c: v == c, "!=": lambda v, c: v != c,
    "<": lambda v, c: v < c, "<=": lambda v, c: v <= c, ">": lambda v, c: v > c, ">=": lambda v, c: v >= c,
}
FID_NOT_IN = "C05-filter_not_in-either-bound"


def mk_opt(name):
    return Opt(z3.Bool(name + "_is_none"), PyI(z3.Int(name)))


def in_bounds(v, vmin, vmax):
    return z3.And(z3.Or(vmin.isnone, vmin.val.z <= v), z3.Or(vmax.isnone, v <= vmax.val.z))


# ---- assumed library contracts (listed in the evidence) ------------------------------------------
def lib_sorted(eng, p, args, kw, node):
    src = args[0]
    if not isinstance(src, Seq):
        raise Unsupported("sorted of non-Seq")
    arr = z3.Array(f"sorted!{next(eng.counter)}", z3.IntSort(), z3.IntSort())
    n = src.n
    p.axioms += [
        forall_range(0, n, lambda i: forall_range(0, n, lambda j: z3.Implies(i < j, arr[i] <= arr[j]))),
        forall_range(0, n, lambda i: exists_range(0, n, lambda j: src.arr[j] == arr[i])),
        forall_range(0, n, lambda j: exists_range(0, n, lambda i: src.arr[j] == arr[i])),
    ]
    return [(p, Seq(arr, src.n))]


def lib_searchsorted(eng, p, args, kw, node):
    a, v = args[0], args[1]
    side = kw.get("side")
    side = side.s if isinstance(side, Str) else "left"
    if isinstance(v, Opt):
        eng.oblige(p, f"{eng.cur_func}.no_compare_with_None@L{node.lineno}", "safety", z3.Not(v.isnone), node)
        v = v.val
    x = eng.as_int(v)
    r = z3.Int(f"ss!{next(eng.counter)}")
    if side == "left":
        p.axioms += [forall_range(0, a.n, lambda i: z3.Implies(i < r, a.arr[i] < x)),
                     forall_range(0, a.n, lambda i: z3.Implies(r <= i, a.arr[i] >= x))]
    else:
        p.axioms += [forall_range(0, a.n, lambda i: z3.Implies(i < r, a.arr[i] <= x)),
                     forall_range(0, a.n, lambda i: z3.Implies(r <= i, a.arr[i] > x))]
    p.pc += [0 <= r, r <= a.n]
    return [(p, PyI(r))]


LIB = {"sorted": lib_sorted, "np.searchsorted": lib_searchsorted}
ASSUMED = [
    "sorted(xs): ascending permutation of xs (same elements)",
    "np.searchsorted(sorted_xs, v, side='left'|'right'): the partition index (all before < v / <= v, all from it >= v / > v)",
    "statistics are bounds (soundness half of C04): every non-null value of the chunk lies in [min, max] when present; "
    "null_count is the number of null cells; num_values counts cells",
    "compared values are totally ordered (NaN constants / unordered categoricals are outside the model; bounded layer only)",
    "isinstance(bound, np.ndarray) is False: bounds are scalars after _handle_np_array (its v[0] branch is not modelled)",
    "decoding chain ensure_bytes -> encoding.read_plain -> converted_types.convert yields the statistic's logical value in "
    "the domain of the filter constant (C04 / bounded layer)",
    "val_to_num retypes a partition value / filter constant without changing its order relation to values of that type (C08)",
    "a list comprehension `[e for x in xs if c]` is the in-order subsequence of xs satisfying c mapped through e; "
    "any()/all() are exists/forall over it",
    "operator strings other than the nine of the grammar take the path explored with the representative '~'",
]


def _seq_model(m, seq):
    n = backends.model_value(m, seq.n, 0) or 0
    n = max(0, min(int(n), 8))
    return [backends.model_value(m, seq.arr[i], 0) for i in range(n)]


def _opt_model(m, o):
    if backends.model_value(m, o.isnone, False):
        return None
    return backends.model_value(m, o.val.z, 0)


def _mk_vals(n):
    return Seq(z3.Array("values", z3.IntSort(), z3.IntSort()), n if z3.is_expr(n) else z3.IntVal(n))


# =================================================================================================
# filter_in / filter_not_in / filter_val
# =================================================================================================
def run_filter_in(funcs, timeout, n):
    res = Results()
    eng = Engine(funcs=funcs, handlers=LIB, inline=("_handle_np_array",))
    p = Path()
    vals, vmin, vmax = _mk_vals(n), mk_opt("vmin"), mk_opt("vmax")
    p.pc.append(vals.n >= 0)
    outs = eng.run("filter_in", p, [vals, vmin, vmax])
    mf = lambda m: {"values": _seq_model(m, vals), "vmin": _opt_model(m, vmin), "vmax": _opt_model(m, vmax)}
    res.add_engine_obligations(eng, "filter_in.", timeout, mf)
    v = z3.Int("v_chunk")
    for q in outs:
        if q.ctl[0] != "ret":
            continue
        name = f"filter_in.sound@return-L{ret_line(q)}"
        st, m, secs = solve([*q.pc, *q.axioms, eng.truth(q.ctl[1], q), in_bounds(v, vmin, vmax),
                             exists_range(0, vals.n, lambda k: vals.arr[k] == v)], timeout)
        res.add(name, st, dict(mf(m), chunk_value=backends.model_value(m, v)) if m else None, secs,
                detail="result => no value within [vmin,vmax] is in `values`")
    return res, len(outs)


def not_in_region(vals, vmin, vmax):
    """region of KNOWN FINDING C05-filter_not_in-either-bound:
       not (vmin == vmax, both present)  and  (vmin in values or vmax in values)."""
    mn_in = z3.And(z3.Not(vmin.isnone), exists_range(0, vals.n, lambda k: vals.arr[k] == vmin.val.z))
    mx_in = z3.And(z3.Not(vmax.isnone), exists_range(0, vals.n, lambda k: vals.arr[k] == vmax.val.z))
    both_eq = z3.And(z3.Not(vmin.isnone), z3.Not(vmax.isnone), vmin.val.z == vmax.val.z)
    return z3.And(z3.Not(both_eq), z3.Or(mn_in, mx_in))


def run_filter_not_in(funcs, timeout, n, outside_region=False):
    res = Results()
    eng = Engine(funcs=funcs, handlers=LIB, inline=("_handle_np_array",))
    p = Path()
    vals, vmin, vmax = _mk_vals(n), mk_opt("vmin"), mk_opt("vmax")
    p.pc.append(vals.n >= 0)
    outs = eng.run("filter_not_in", p, [vals, vmin, vmax])
    mf = lambda m: {"values": _seq_model(m, vals), "vmin": _opt_model(m, vmin), "vmax": _opt_model(m, vmax)}
    res.add_engine_obligations(eng, "filter_not_in.", timeout, mf)
    v = z3.Int("v_chunk")
    for q in outs:
        if q.ctl[0] != "ret":
            continue
        name = f"filter_not_in.sound@return-L{ret_line(q)}"
        cs = [*q.pc, *q.axioms, eng.truth(q.ctl[1], q), in_bounds(v, vmin, vmax),
              forall_range(0, vals.n, lambda k: vals.arr[k] != v)]
        if outside_region:
            cs.append(z3.Not(not_in_region(vals, vmin, vmax)))
        st, m, secs = solve(cs, timeout)
        res.add(name, st, dict(mf(m), chunk_value=backends.model_value(m, v)) if m else None, secs,
                detail="result => every value within [vmin,vmax] is in `values`")
    return res, len(outs)


def _callee_in(kind):
    def h(eng, p, args, kw, node):
        vals, vmin, vmax = args[0], args[1], args[2]
        r = z3.Bool(f"r_{kind}!{next(eng.counter)}")
        # the callee contract  r => forall v. in_bounds(v) => (v not in / in values)  is used instantiated at the
        # goal's witness v_chunk (instantiating a universal axiom is sound; no quantifier alternation)
        v = z3.Int("v_chunk")
        member = exists_range(0, vals.n, lambda k: vals.arr[k] == v)
        if kind == "in":
            p.axioms.append(z3.Implies(r, z3.Implies(in_bounds(v, vmin, vmax), z3.Not(member))))
        else:
            p.axioms.append(z3.Implies(r, z3.Implies(in_bounds(v, vmin, vmax), member)))
        return [(p, PyB(r))]
    return h


def run_filter_val(funcs, timeout, n):
    res = Results()
    handlers = dict(LIB, filter_in=_callee_in("in"), filter_not_in=_callee_in("not in"))
    covers = 0
    for opname in list(OPS) + ["in", "not in", "~"]:
        eng = Engine(funcs=funcs, handlers=handlers, inline=("_handle_np_array",))
        p = Path()
        vmin, vmax = mk_opt("vmin"), mk_opt("vmax")
        v = z3.Int("v_chunk")
        if opname in ("in", "not in"):
            val = _mk_vals(n)
            p.pc.append(val.n >= 0)
            member = exists_range(0, val.n, lambda k: val.arr[k] == v)
            sem = member if opname == "in" else z3.Not(member)
        else:
            val = PyI(z3.Int("val"))
            sem = OPS[opname](v, val.z) if opname in OPS else z3.BoolVal(True)   # unknown operator: must never prune
        outs = eng.run("filter_val", p, [Str(opname), val, vmin, vmax])

        def mf(m, val=val, vmin=vmin, vmax=vmax, opname=opname):
            return {"op": opname, "val": backends.model_value(m, val.z) if isinstance(val, PyI) else _seq_model(m, val),
                    "vmin": _opt_model(m, vmin), "vmax": _opt_model(m, vmax)}
        res.add_engine_obligations(eng, f"filter_val[{opname}].", timeout, mf)
        for q in outs:
            if q.ctl[0] != "ret":
                continue
            covers += 1
            name = f"filter_val.sound[{opname}]@return-L{ret_line(q)}"
            st, m, secs = solve([*q.pc, *q.axioms, eng.truth(q.ctl[1], q), in_bounds(v, vmin, vmax), sem], timeout)
            res.add(name, st, dict(mf(m), chunk_value=backends.model_value(m, v)) if m else None, secs,
                    detail=f"result => no value v within [vmin,vmax] satisfies `v {opname} val`")
    return res, covers


def _with_bounded(run, funcs, timeout, **kw):
    unb, covers = run(funcs, timeout, z3.Int("n_values"), **kw)
    bounded = []
    if any(unb.status(nm) != PROVED for nm in unb.order):
        for k in (0, 1, 2, 3):
            bounded.append((k, run(funcs, timeout, k, **kw)[0]))
    return unb, bounded, covers


def check_filter_in(ctx, funcs, timeout):
    unb, bounded, covers = _with_bounded(run_filter_in, funcs, timeout)
    ctx.vacuity["covers"] += covers
    if covers == 0:
        ctx.engine_error("filter_in: no returning path")
    yield from merge_and_record(ctx, "api.filter_in", unb, bounded)


def check_filter_not_in(ctx, funcs, timeout):
    unb, bounded, covers = _with_bounded(run_filter_not_in, funcs, timeout)
    ctx.vacuity["covers"] += covers

    def outside_ok():
        o, _ = run_filter_not_in(funcs, timeout, z3.Int("n_values"), outside_region=True)
        return all(o.status(nm) == PROVED for nm in o.order)
    known = {nm: (FID_NOT_IN, outside_ok) for nm in unb.order if nm.startswith("filter_not_in.sound")}
    yield from merge_and_record(ctx, "api.filter_not_in", unb, bounded, known)


def check_filter_val(ctx, funcs, timeout):
    unb, bounded, covers = _with_bounded(run_filter_val, funcs, timeout)
    ctx.vacuity["covers"] += covers
    yield from merge_and_record(ctx, "api.filter_val", unb, bounded)
    # must-fail guard: some path CAN prune (the postcondition is not vacuous)
    eng = Engine(funcs=funcs, handlers=LIB, inline=("_handle_np_array",))
    vmin, vmax = mk_opt("vmin"), mk_opt("vmax")
    outs = eng.run("filter_val", Path(), [Str(">"), PyI(z3.Int("val")), vmin, vmax])
    if any(solve([*q.pc, eng.truth(q.ctl[1], q)], 2000)[0] == REFUTED for q in outs):
        ctx.vacuity["must_fail_sat"] += 1
    else:
        ctx.engine_error("filter_val vacuity: no path can return True")


# =================================================================================================
# filter_out_stats / filter_out_cats: every `return True` is justified
# =================================================================================================
# Ghost model of ONE arbitrary row R of the row group and the atoms of the AND list:
#   Rnull(col) : Bool, Rval(col) : Int      SAT(op, v, val) : uninterpreted satisfaction predicate
#   row satisfies atom (col, op, val)  <=>  not Rnull(col) and SAT(op, Rval(col), val)
ColS = z3.DeclareSort("Col")
OpS = z3.DeclareSort("OpS")
ValS = z3.DeclareSort("FVal")
SAT = z3.Function("SAT", OpS, z3.IntSort(), ValS, z3.BoolSort())
Rnull = z3.Function("Rnull", ColS, z3.BoolSort())
Rval = z3.Function("Rval", ColS, z3.IntSort())
InFilters = z3.Function("InFilters", ColS, OpS, ValS, z3.BoolSort())     # atom is a member of the AND list
StatMax = z3.Function("StatMax", ColS, z3.IntSort())
StatMin = z3.Function("StatMin", ColS, z3.IntSort())
PartVal = z3.Function("PartVal", ColS, z3.IntSort())


class H:
    """base for proof-script objects"""
    tracked = False

    def attr(self, eng, p, name):
        raise Unsupported(f"{type(self).__name__}.{name}")

    def call_method(self, eng, p, name, args, kw, node):
        raise Unsupported(f"{type(self).__name__}.{name}()")


class ColName(H):
    """a column name (string) identified by a Col constant"""

    def __init__(self, c):
        self.c = c

    def eq(self, eng, p, other):
        if isinstance(other, Custom) and isinstance(other.h, ColName):
            return self.c == other.h.c
        return z3.BoolVal(False)

    def isinstance(self, eng, p, tn):
        return z3.BoolVal("str" in tn)


class OpVal(H):
    def __init__(self, z, kind):
        self.z, self.kind = z, kind

    def isinstance(self, eng, p, tn):
        return eng.fresh("isinst", z3.BoolSort())

    def arbitrary(self, eng, p):
        return Opaque(("elem_of_val", next(eng.counter)))


class StatVal(H):
    """a (raw or decoded) statistic of the current column: kind in {'max','min'} - or a partition value"""

    def __init__(self, kind, col, absent=None):
        self.kind, self.col, self.absent = kind, col, absent

    def truth(self, eng, p):
        return eng.fresh("stat_truthy", z3.BoolSort()) if self.absent is None else z3.Not(self.absent)

    def is_none(self, eng, p):
        return self.absent if self.absent is not None else z3.BoolVal(False)

    def isinstance(self, eng, p, tn):
        return z3.BoolVal(False)

    def term(self):
        return {"max": StatMax, "min": StatMin, "part": PartVal}[self.kind](self.col)


def _atom_parts(a):
    return [Custom(ColName(a.col)), Custom(OpVal(a.op, "op")), Custom(OpVal(a.val, "val"))]


class Atom(H):
    def __init__(self, col, op, val):
        self.col, self.op, self.val = col, op, val

    def getitem(self, eng, p, i, node):
        return _atom_parts(self)[z3.simplify(eng.as_int(i)).as_long()]

    def slice(self, eng, p, lo, hi, node):
        if lo is not None and z3.simplify(eng.as_int(lo)).as_long() == 1 and hi is None:
            return Tup(_atom_parts(self)[1:])
        raise Unsupported("atom slice")

    def truth(self, eng, p):
        return z3.BoolVal(True)

    def isinstance(self, eng, p, tn):
        return z3.BoolVal(False)

    def unpack(self, eng, p, n):
        return _atom_parts(self)


class AtomList(H):
    """abstract AND-list of atoms: membership is the ghost predicate InFilters"""

    def __init__(self, eng):
        self.n = eng.fresh_int("n_filters")

    def len(self, eng, p):
        p.pc.append(self.n >= 0)
        return PyI(self.n)

    def truth(self, eng, p):
        p.pc.append(self.n >= 0)
        return self.n > 0

    def arbitrary(self, eng, p):
        k = next(eng.counter)
        a = Atom(z3.Const(f"acol!{k}", ColS), z3.Const(f"aop!{k}", OpS), z3.Const(f"aval!{k}", ValS))
        p.pc.append(InFilters(a.col, a.op, a.val))
        p.pc.append(self.n > 0)
        return Custom(a)

    def getitem(self, eng, p, i, node):
        eng.oblige(p, f"{eng.cur_func}.index_in_range@L{node.lineno}", "safety", self.n > eng.as_int(i), node)
        return self.arbitrary(eng, p)

    def isinstance(self, eng, p, tn):
        return z3.BoolVal("list" in tn)


def _is_stat_or_none(v, kind, col=None):
    if isinstance(v, NoneV):
        return z3.BoolVal(True)
    if isinstance(v, Opt):
        return z3.Or(v.isnone, _is_stat_or_none(v.val, kind, col))
    if isinstance(v, Custom) and isinstance(v.h, StatVal):
        if v.h.kind != kind:
            return z3.BoolVal(False)
        return v.h.col == col if col is not None else z3.BoolVal(True)
    return z3.BoolVal(False)


class AppFilters(H):
    """[f[1:] for f in filters if f[0] == name]: abstract list of (op, val) with ghost link to the atom"""
    inv_vars = (("vmax", "max"), ("vmin", "min"))

    def __init__(self, col):
        self.col = col

    def for_loop(self, eng, p, st):
        # loop over an abstract collection: the body is executed for ONE arbitrary member from an arbitrary state
        # satisfying the loop invariant  (vmax is None or the decoded max) and (vmin is None or the decoded min);
        # the invariant must hold on entry and be re-established; `return` paths leave the loop.
        k = next(eng.counter)
        for var, kind in self.inv_vars:
            if var in p.env:
                eng.oblige(p, f"filter_out.loop_invariant_on_entry[{var} is None or the decoded {kind} of this column]", "inv",
                           _is_stat_or_none(p.env[var], kind, self.col), st)
        exit_path, body = p.fork(), p.fork()
        for q in (exit_path, body):
            for var, kind in self.inv_vars:
                if var in q.env:
                    q.env[var] = Opt(eng.fresh(var + "_none", z3.BoolSort()), Custom(StatVal(kind, self.col)))
        op, val = z3.Const(f"op!{k}", OpS), z3.Const(f"val!{k}", ValS)
        body.pc.append(InFilters(self.col, op, val))
        body.ghost["cur_atom"] = (self.col, op, val)
        outs = [exit_path]
        for b in eng.assign(st.target, Tup([Custom(OpVal(op, "op")), Custom(OpVal(val, "val"))]), body):
            for r in eng.block(st.body, [b]):
                if r.ctl in (None, "continue"):
                    for var, kind in self.inv_vars:
                        if var in r.env:
                            eng.oblige(r, f"filter_out.loop_invariant_preserved[{var} is None or the decoded {kind} of this column]", "inv",
                                       _is_stat_or_none(r.env[var], kind, self.col), st)
                elif r.ctl == "break":
                    r.ctl = None
                    outs.append(r)
                else:
                    outs.append(r)
        return outs


class Stats(H):
    def __init__(self, col, eng):
        self.col = col
        self.null_count = eng.fresh_int("null_count")

    def attr(self, eng, p, name):
        if name == "null_count":
            return PyI(self.null_count)
        if name in ("max", "max_value", "min", "min_value"):
            key = ("absent", name)
            d = p.ghost.setdefault("stats", {})
            if key not in d:
                d[key] = eng.fresh(name + "_absent", z3.BoolSort())
            return Custom(StatVal(name[:3], self.col, absent=d[key]))
        raise Unsupported("Statistics." + name)

    def is_none(self, eng, p):
        return z3.BoolVal(False)

    def setitem(self, eng, p, i, v, node):
        p.ghost.setdefault("stat_cache", {})[i.s] = v

    def getitem(self, eng, p, i, node):
        c = p.ghost.get("stat_cache", {})
        if i.s in c:
            return c[i.s]
        # cached by an earlier call of this same code (assumed to have stored the decoded statistic it names)
        return Custom(StatVal("max" if "max" in i.s else "min", self.col))


class PathInSchema(H):
    def __init__(self, col):
        self.col = col


class ColumnChunk(H):
    def __init__(self, eng, rg):
        self.col = z3.Const(f"col!{next(eng.counter)}", ColS)
        self.rg = rg
        self.stats = Stats(self.col, eng)
        self.stats_absent = eng.fresh("stats_absent", z3.BoolSort())

    def attr(self, eng, p, name):
        if name == "meta_data":
            return Custom(self)
        if name == "path_in_schema":
            return Custom(PathInSchema(self.col))
        if name == "statistics":
            return Opt(self.stats_absent, Custom(self.stats))
        if name == "num_values":
            return PyI(self.rg.num_rows)        # flat column: one cell per row (format; nested columns are out of C05's scope)
        if name == "type":
            return Opaque("ptype")
        if name == "file_path":
            return Opt(eng.fresh("fp_none", z3.BoolSort()), Opaque("file_path"))
        raise Unsupported("ColumnChunk." + name)


class Columns(H):
    def __init__(self, rg):
        self.rg = rg

    def for_loop(self, eng, p, st):
        # arbitrary column, arbitrary iteration: every variable the loop body assigns is havoc'd at the start of the
        # iteration (it may carry anything from an earlier column - in particular another column's statistics)
        exit_path, body = p.fork(), p.fork()
        assigned = set()
        for n in ast.walk(ast.Module(body=st.body, type_ignores=[])):
            if isinstance(n, (ast.Assign, ast.AugAssign, ast.For)):
                tg = n.targets if isinstance(n, ast.Assign) else [n.target]
                for t in tg:
                    assigned |= {x.id for x in ast.walk(t) if isinstance(x, ast.Name)}
        for q in (exit_path, body):
            for var in assigned:
                if var in q.env:
                    if var in ("vmax", "vmin"):
                        other = z3.Const(f"earlier_col!{next(eng.counter)}", ColS)
                        q.env[var] = Opt(eng.fresh(var + "_none", z3.BoolSort()), Custom(StatVal("max" if var == "vmax" else "min", other)))
                    else:
                        q.env[var] = Opaque((var, "carried", next(eng.counter)))
        col = ColumnChunk(eng, self.rg)
        body.ghost.setdefault("columns", []).append(col)
        outs = [exit_path]
        for b in eng.assign(st.target, Custom(col), body):
            for r in eng.block(st.body, [b]):
                if r.ctl in (None, "continue", "break"):
                    continue
                outs.append(r)
        return outs

    def getitem(self, eng, p, i, node):
        return Custom(ColumnChunk(eng, self.rg))


class RowGroup(H):
    def __init__(self, eng):
        self.num_rows = eng.fresh_int("num_rows")

    def attr(self, eng, p, name):
        if name == "num_rows":
            p.pc.append(self.num_rows >= 0)
            return PyI(self.num_rows)
        if name == "columns":
            return Custom(Columns(self))
        raise Unsupported("RowGroup." + name)


def _h_join(eng, p, args, kw, node):
    # ".".join(column.meta_data.path_in_schema) : the column's name
    a = args[-1]
    if isinstance(a, Custom) and isinstance(a.h, PathInSchema):
        return [(p, Custom(ColName(a.h.col)))]
    return [(p, Opaque(("join", next(eng.counter))))]


def _h_listcomp(eng, p, e):
    # [f[1:] for f in filters if f[0] == <name>]
    g = e.generators
    if (len(g) == 1 and isinstance(g[0].iter, ast.Name) and g[0].iter.id == "filters" and len(g[0].ifs) == 1
            and ast.unparse(e.elt) == "f[1:]"):
        test = g[0].ifs[0]
        if isinstance(test, ast.Compare) and ast.unparse(test.left) == "f[0]" and isinstance(test.ops[0], ast.Eq):
            out = []
            for q, nm in eng.ev(test.comparators[0], p):
                if isinstance(nm, Custom) and isinstance(nm.h, ColName):
                    out.append((q, Custom(AppFilters(nm.h.c))))
                else:
                    raise Unsupported("app_filters over a non-column name")
            return out
    return None


def _h_same(eng, p, args, kw, node):
    # ensure_bytes / encoding.read_plain / converted_types.convert / val_to_num: keep the identity of the value
    return [(p, args[0])]


def _h_hasattr(eng, p, args, kw, node):
    return [(p, PyB(eng.fresh("hasattr", z3.BoolSort())))]


def _h_filter_val(eng, p, args, kw, node):
    """callee contract of filter_val (proved per operator above):
         result  =>  forall v. lo <= v <= hi (for the bounds that are present)  =>  not SAT(op, v, val)
       instantiated at the witness row's value.  The bounds are built from the ACTUAL arguments: an argument that
       is not the statistic / partition value it should be yields a bound the witness need not respect."""
    op, val, lo, hi = args[:4]
    r = eng.fresh("r_filter_val", z3.BoolSort())
    col, aop, aval = p.ghost["cur_atom"]
    x = Rval(col)

    def bound(b, is_upper):
        if isinstance(b, NoneV):
            return z3.BoolVal(True)
        if isinstance(b, Opt):
            return z3.Or(b.isnone, bound(b.val, is_upper))
        if isinstance(b, Custom) and isinstance(b.h, StatVal):
            t = b.h.term()
            return (x <= t) if is_upper else (t <= x)
        return z3.BoolVal(False)      # not a statistic / partition value: the callee contract gives nothing
    same = z3.And(op.h.z == aop if isinstance(op, Custom) and isinstance(op.h, OpVal) else z3.BoolVal(False),
                  val.h.z == aval if isinstance(val, Custom) and isinstance(val.h, OpVal) else z3.BoolVal(False))
    p.axioms.append(z3.Implies(z3.And(r, same, bound(lo, False), bound(hi, True)), z3.Not(SAT(aop, x, aval))))
    return [(p, PyB(r))]


def _witness_satisfies_all():
    c, o, v = z3.Const("c_q", ColS), z3.Const("o_q", OpS), z3.Const("v_q", ValS)
    return z3.ForAll([c, o, v], z3.Implies(InFilters(c, o, v), z3.And(z3.Not(Rnull(c)), SAT(o, Rval(c), v))))


def check_filter_out_stats(ctx, funcs, timeout):
    fq = "api.filter_out_stats"
    handlers = {".join": _h_join, "listcomp": _h_listcomp, "ensure_bytes": _h_same,
                "encoding.read_plain": _h_same, "converted_types.convert": _h_same, "hasattr": _h_hasattr,
                "filter_val": _h_filter_val}
    eng = Engine(funcs=funcs, handlers=handlers, opaque_calls=True)
    p = Path()
    rg = RowGroup(eng)
    outs = eng.run("filter_out_stats", p, [Custom(rg), Custom(AtomList(eng)), Opaque("schema")])
    res = Results()
    res.add_engine_obligations(eng, "filter_out_stats.", timeout)
    n_true = 0
    for q in outs:
        if q.ctl[0] != "ret":
            continue
        rt = eng.truth(q.ctl[1], q)
        if z3.is_false(z3.simplify(rt)):
            continue
        n_true += 1
        name = f"filter_out_stats.sound@return-L{ret_line(q)}"
        # a witness row R exists (num_rows >= 1) and satisfies EVERY atom of the AND list
        facts = [rg.num_rows >= 1, _witness_satisfies_all()]
        for colobj in q.ghost.get("columns", []):
            col = colobj.col
            facts.append(z3.Implies(z3.Not(Rnull(col)), z3.And(StatMin(col) <= Rval(col), Rval(col) <= StatMax(col))))
            facts.append(z3.Implies(colobj.stats.null_count == rg.num_rows, Rnull(col)))
            facts.append(z3.And(colobj.stats.null_count >= 0, colobj.stats.null_count <= rg.num_rows))
        st, m, secs = solve([*q.pc, *q.axioms, rt, *facts], timeout)
        res.add(name, st, {"note": "abstract counter-model (opaque row group): " + str(m)[:500]} if m else None, secs,
                detail="returns True => no row of the row group satisfies every condition of the AND list")
    ctx.vacuity["covers"] += n_true
    if n_true < 3:
        ctx.engine_error(f"filter_out_stats: only {n_true} `return True` paths reached (expected >= 3)")
    yield from merge_and_record(ctx, fq, res)


# ---- filter_out_cats ---------------------------------------------------------------------------
class Pairs(H):
    """pairs = [(p[0], p[1]) for p in partitions]: abstract list of (partition column, directory text)"""

    def for_loop(self, eng, p, st):
        exit_path, body = p.fork(), p.fork()
        col = z3.Const(f"pcol!{next(eng.counter)}", ColS)
        outs = [exit_path]
        for b in eng.assign(st.target, Tup([Custom(ColName(col)), Custom(StatVal("part", col))]), body):
            for r in eng.block(st.body, [b]):
                if r.ctl in (None, "continue", "break"):
                    continue
                outs.append(r)
        return outs


class AppFiltersCats(AppFilters):
    inv_vars = ()


def check_filter_out_cats(ctx, funcs, timeout):
    fq = "api.filter_out_cats"

    def h_listcomp(eng, p, e):
        if ast.unparse(e) == "[(p[0], p[1]) for p in partitions]":
            return [(p, Custom(Pairs()))]
        r = _h_listcomp(eng, p, e)
        if r is not None:
            return [(q, Custom(AppFiltersCats(v.h.col))) for q, v in r]
        return None
    handlers = {"listcomp": h_listcomp, "val_to_num": _h_same, "filter_val": _h_filter_val}
    eng = Engine(funcs=funcs, handlers=handlers, opaque_calls=True)
    p = Path()
    rg = RowGroup(eng)
    outs = eng.run("filter_out_cats", p, [Custom(rg), Custom(AtomList(eng)), Opaque("partition_meta")])
    res = Results()
    res.add_engine_obligations(eng, "filter_out_cats.", timeout)
    n_true = 0
    for q in outs:
        if q.ctl[0] != "ret":
            continue
        rt = eng.truth(q.ctl[1], q)
        if z3.is_false(z3.simplify(rt)):
            continue
        n_true += 1
        name = f"filter_out_cats.sound@return-L{ret_line(q)}"
        facts = [_witness_satisfies_all()]
        if q.ghost.get("cur_atom"):
            col = q.ghost["cur_atom"][0]
            facts.append(Rval(col) == PartVal(col))      # every row of the row group carries the directory's value
        st, m, secs = solve([*q.pc, *q.axioms, rt, *facts], timeout)
        res.add(name, st, {"note": "abstract counter-model: " + str(m)[:500]} if m else None, secs,
                detail="returns True => no row (all rows carry the partition value of the path) satisfies the AND list")
    ctx.vacuity["covers"] += n_true
    if n_true < 1:
        ctx.engine_error("filter_out_cats: no `return True` path reached")
    yield from merge_and_record(ctx, fq, res)


# =================================================================================================
# filter_row_groups: OR of ANDs, flat list = one AND group, in-order subsequence, unknown column raises first
# =================================================================================================
Excl = z3.Function("ExcludedByContract", z3.IntSort(), z3.BoolSort())   # group id -> a callee said "no row satisfies it"


class Group(AtomList):
    def __init__(self, eng, gid):
        super().__init__(eng)
        self.gid = gid


class GroupList(H):
    """abstract OR-list of AND groups"""

    def __init__(self, eng):
        self.n = eng.fresh_int("n_groups")

    def truth(self, eng, p):
        p.pc.append(self.n >= 0)
        return self.n > 0

    def arbitrary(self, eng, p):
        return Custom(Group(eng, eng.fresh_int("gid")))

    def getitem(self, eng, p, i, node):
        key = ("grouplist_item", id(self), str(z3.simplify(eng.as_int(i))))
        if key not in p.ghost:
            p.ghost[key] = self.arbitrary(eng, p)     # the same index yields the same group
        return p.ghost[key]

    def isinstance(self, eng, p, tn):
        return z3.BoolVal("list" in tn)


class RowGroups(H):
    def arbitrary(self, eng, p):
        return Custom(RowGroup(eng))

    def enumerate(self, eng, p):
        return Custom(EnumRowGroups())


class EnumRowGroups(H):
    def arbitrary(self, eng, p):
        return Tup([PyI(eng.fresh_int("rg_idx")), Custom(RowGroup(eng))])


class PF(H):
    def attr(self, eng, p, name):
        if name == "row_groups":
            return Custom(RowGroups())
        return Opaque("pf." + name)


def check_filter_row_groups(ctx, funcs, timeout):
    fq = "api.filter_row_groups"
    f = funcs["filter_row_groups"]
    res = Results()
    # (a) structural: every returned expression is a single-generator comprehension over pf.row_groups
    #     (or enumerate of it) whose element is the loop variable / its index -> an in-order subsequence
    rets = [n for n in ast.walk(f.tree) if isinstance(n, ast.Return)]
    ok = len(rets) >= 1
    for r in rets:
        v = r.value
        ok = ok and (isinstance(v, ast.ListComp) and len(v.generators) == 1 and len(v.generators[0].ifs) == 1
                     and ast.unparse(v.generators[0].iter) in ("pf.row_groups", "enumerate(pf.row_groups)")
                     and (ast.unparse(v.elt), ast.unparse(v.generators[0].target)) in (("rg", "rg"), ("i", "(i, rg)")))
    res.add("filter_row_groups.result_is_inorder_subsequence", PROVED if ok else UNKNOWN, None, 0.0, "ast",
            "each return is `[rg|i for (i,) rg in (enumerate)(pf.row_groups) if <cond>]`: whole row groups, in order")

    def h_out(kind):
        def h(eng, p, args, kw, node):
            g = args[1]
            if isinstance(g, Custom) and isinstance(g.h, Group):
                gid = g.h.gid
            elif isinstance(g, Custom) and isinstance(g.h, AtomList):
                gid = p.ghost.get("flat_gid")
            elif isinstance(g, Tup) and not g.items:
                gid = z3.IntVal(-1)          # the empty AND group of `filters or [[]]`
            else:
                gid = None
            if gid is None:
                raise Unsupported("pruning function called with something that is not an AND group")
            r = eng.fresh("out_" + kind, z3.BoolSort())
            p.axioms.append(z3.Implies(r, Excl(gid)))   # callee contract (proved above): True => no row satisfies the group
            p.ghost.setdefault("calls", []).append((kind, gid))
            return [(p, PyB(r))]
        return h
    handlers = {"filter_out_stats": h_out("stats"), "filter_out_cats": h_out("cats")}
    n_paths = 0
    for shape in ("nested", "flat", "empty"):
        for as_idx in (False, True):
            eng = Engine(funcs=funcs, handlers=handlers, opaque_calls=True)
            p = Path()
            if shape == "nested":
                filters = Custom(GroupList(eng))
                p.pc.append(filters.h.n >= 1)
            elif shape == "flat":
                fl = AtomList(eng)
                p.pc.append(fl.n >= 1)
                p.ghost["flat_gid"] = z3.IntVal(7)
                filters = Custom(fl)
            else:
                filters = Tup([], True)
            tag = f"[{shape},as_idx={as_idx}]"
            try:
                outs = eng.run("filter_row_groups", p, [Custom(PF()), filters, PyB(as_idx)])
            except Unsupported as ex:
                res.add(f"filter_row_groups.or_of_ands{tag}", UNKNOWN, None, 0.0, "engine", "out of reach: " + str(ex))
                continue
            res.add_engine_obligations(eng, f"filter_row_groups{tag}.", timeout)
            for q in outs:
                n_paths += 1
                if q.ctl[0] == "raise":
                    # (d) rejection happens before any pruning decision
                    nm = f"filter_row_groups.unknown_column_raises_before_decision{tag}"
                    calls = q.ghost.get("calls")
                    res.add(nm, PROVED if not calls else REFUTED, None if not calls else {"calls_before_raise": str(calls)},
                            0.0, "trace")
                    continue
                v = q.ctl[1]
                nm = f"filter_row_groups.or_of_ands{tag}@return-L{ret_line(q)}"
                if not (isinstance(v, Custom) and isinstance(v.h, AbstractComp)):
                    res.add(nm, UNKNOWN, None, 0.0, "engine", "return value is not a comprehension over pf.row_groups")
                    continue
                kept = v.h.guard      # the comprehension's filter condition, for an arbitrary row group
                calls = q.ghost.get("calls", [])
                if shape == "nested":
                    gids = {str(g): g for k, g in calls}
                    goal = Excl(list(gids.values())[0]) if len(gids) == 1 else z3.BoolVal(False)
                elif shape == "flat":
                    goal = Excl(z3.IntVal(7))     # (c) flat list == ONE AND group containing all atoms
                else:
                    goal = Excl(z3.IntVal(-1))
                # (b): row group omitted  =>  the arbitrary OR group is excluded by a callee contract
                st, m, secs = solve([*q.pc, *q.axioms, z3.Not(kept), z3.Not(goal)], timeout)
                res.add(nm, st, {"note": "abstract counter-model: " + str(m)[:300]} if m else None, secs,
                        detail="row group omitted => every OR-group (flat list: the single AND group) is excluded by "
                               "filter_out_stats or filter_out_cats for it")
    ctx.vacuity["covers"] += n_paths
    if n_paths < 4:
        ctx.engine_error(f"filter_row_groups: only {n_paths} paths explored")
    yield from merge_and_record(ctx, fq, res)
