"""C04 (user-facing half) - `api.sorted_partitioned_columns(pf, filters=None)` and `api.statistics(<ColumnChunk>)`,
executed symbolically from their real sources (ast of /repo/fastparquet/api.py on every run).

sorted_partitioned_columns - pure list reasoning.  `statistics(pf)` is an ASSUMED input: for every column of pf.columns and
each of 'min' / 'max' a list of Optional values with one entry per row group (n >= 0 row groups), or - what the ParquetFile
branch of `statistics` produces for a converted-type column with a missing / unconvertible bound - the one-element list [None].
With `filters`, `filter_row_groups(pf, filters, as_idx=True)` is an ASSUMED strictly increasing list of row-group indexes
(C05: in-order subsequence).  Values are modelled as integers (a totally ordered domain).

  Let min', max' be the column's statistics restricted to the selected row groups (all of them without filters).
  For an ARBITRARY column c (loop body executed once from a havoc'd state):  c is put into the result  ==>
    sorted_columns.listed_entry_is_selected_statistics   out[c] == {'min': min', 'max': max'}  (whole lists, posed at a Skolem index;
                                                         the SAME index list applied to every statistic)
    sorted_columns.listed_implies_no_None_bound          no entry of min' / max' is None, and the two lists have equal length
    sorted_columns.listed_implies_nonempty               at least one row group
    sorted_columns.listed_implies_disjoint_increasing    for ALL a < b: max'[a] < min'[b]   (posed at a Skolem pair) - with exact
                                                         statistics: every element of a later row group is strictly greater than
                                                         every element of an earlier one
    sorted_columns.listed_implies_bounds_sorted          for all a < b: min'[a] <= min'[b] and max'[a] <= max'[b]
  and conversely, on every path that does NOT list c:
    sorted_columns.disjoint_increasing_implies_listed    min', max' None-free, non-empty, each ascending, max'[i] < min'[i+1] for all i
                                                         ==> c is listed  (the result is exactly the set of such columns)
  and on the way  sorted_columns.no_compare_with_None@L..  (sorted() / `<` never see a None: TypeError in Python),
  index_in_range@L.. (every `s[stat][col][i]`), returns_collected_dict.
  Frame:  sorted_columns.statistics_are_a_fresh_object_or_not_mutated   every store into a statistics structure targets the object
          obtained in THIS call from statistics(pf), never pf.statistics / pf._statistics;   sorted_columns.handle_not_mutated.

statistics(ColumnChunk) - the ThriftObject is a proof-script object:
    statistics.max_from_max_else_max_value / min_from_min_else_min_value   rv['max'] is decoded from s.max when that is set,
         else from s.max_value when that is set, else the key is absent; never from a min field (and symmetrically);
         decoded = the raw bytes for BYTE_ARRAY, else encoding.read_plain(bytes, md.type, 1, stat=True)[0]; None if decoding raises
    statistics.{max,min,null_count,distinct_count}_present_iff_field_not_None   the key is there exactly when the field (for the bounds:
         either of the two fields) is not None - the field's VALUE is arbitrary, in particular the falsy b'' / 0
    statistics.null_count_copied / distinct_count_copied / no_other_keys / empty_when_no_statistics
"""
import ast

import z3

from vc import backends
from vc.front_py import parse_module
from vc.symexec import (forall_range, exists_range, Engine, Path, Opt, PyI, PyB, Str, Tup, Custom, Opaque, NoneV, NONE,
                        Unsupported, BUILTINS)
from vlib.common import PROVED, REFUTED, UNKNOWN
from .util import Results, merge_and_record, solve, ret_line


ASSUMED = [
    "statistics(pf) (ParquetFile branch, read off its source, not executed): s[stat][col] exists for the four statistics and every "
    "name of pf.columns; each list has one entry per row group (None where absent), except that a 'min' / 'max' list may be the "
    "one-element list [None] (converted-type column with a missing or unconvertible bound)",
    "filter_row_groups(pf, filters, as_idx=True): strictly increasing list of indexes into pf.row_groups (C05 "
    "filter_row_groups.result_is_inorder_subsequence)",
    "sorted(xs): ascending permutation of xs (same elements); the identity on a list that is already ascending; raises TypeError "
    "when it has to compare a None (len >= 2)",
    "zip(a, b): pairs (a[j], b[j]) for j < min(len a, len b); list slicing / concatenation / == are Python's; "
    "a comprehension `[e for x in xs]` is xs mapped through e in order; any()/all() are exists/forall over it",
    "statistic values are totally ordered scalars (modelled as Int); NaN / unordered values are outside the model (bounded layer)",
    "dict keys are distinct: a loop over d.keys() visits every key once; pf.columns are keys of every s[stat]",
    "statistics(pf) returns freshly built dicts and lists (its source builds them with comprehensions on every call); pf.statistics / "
    "pf._statistics is the handle's cached object (same content, owned by the handle)",
    "statistics(ColumnChunk): ensure_bytes returns the bytes of its argument; encoding.read_plain may raise (bare `except:` -> None)",
]


# =================================================================================================
# symbolic lists with map semantics
# =================================================================================================
def subst_v(v, pairs):
    """structural substitution of z3 constants inside an engine value"""
    if isinstance(v, PyI):
        return PyI(z3.substitute(v.z, *pairs))
    if isinstance(v, PyB):
        return PyB(z3.substitute(v.z, *pairs))
    if isinstance(v, Opt):
        return Opt(z3.substitute(v.isnone, *pairs), subst_v(v.val, pairs))
    if isinstance(v, Tup):
        return Tup([subst_v(x, pairs) for x in v.items], v.is_list)
    if isinstance(v, Custom) and hasattr(v.h, "subst"):
        return Custom(v.h.subst(pairs))
    return v


class Univ:
    """a universally quantified fact  forall t (, t2). inst(t (, t2))  known on a path.  It is never given to the solver as a
    quantifier: it is INSTANTIATED at the index terms of the query (sound: instances of a fact in hand).  When every length is a
    constant (bounded runs) the exact definition is added as well and `sat` answers are genuine; otherwise the path is
    marked inexact and a `sat` is reported UNKNOWN (the bounded runs decide)."""

    def __init__(self, arity, inst):
        self.arity, self._inst, self._cache = arity, inst, {}

    def inst(self, *ts):
        key = tuple(t.get_id() for t in ts)       # z3 terms are hash-consed: same id = same term
        if key not in self._cache:
            self._cache[key] = (self._inst(*ts), ts)     # (ts kept alive so that ids are not reused)
        return self._cache[key][0]


def register(p, u, exact):
    p.ghost.setdefault("univ", []).append(u)
    if not exact:
        p.ghost["inexact"] = True


def ix(eng, base):
    """an index constant (Skolem position): the terms universal facts are instantiated at"""
    return z3.Int(f"ix_{base}!{next(eng.counter)}")


BOUND = [None]      # bounded runs: every list length is <= BOUND[0] (set by the run); None in the unbounded run


def _is_const_int(e):
    """can a fact over [0, e) be expanded completely?  (constant length, or a bounded run)"""
    return z3.is_int_value(z3.simplify(e)) or BOUND[0] is not None


def fa_range(n, f, name="q"):
    if z3.is_int_value(z3.simplify(n)) or BOUND[0] is None:
        return forall_range(0, n, f, name)
    return z3.And(*[z3.Implies(t < n, f(z3.IntVal(t))) for t in range(BOUND[0])])


def ex_range(n, f, name="q"):
    if z3.is_int_value(z3.simplify(n)) or BOUND[0] is None:
        return exists_range(0, n, f, name)
    return z3.Or(*[z3.And(t < n, f(z3.IntVal(t))) for t in range(BOUND[0])])


def _index_consts(fs):
    seen, out = set(), {}

    def walk(x):
        if x.get_id() in seen:
            return
        seen.add(x.get_id())
        if z3.is_const(x) and x.decl().kind() == z3.Z3_OP_UNINTERPRETED and str(x).startswith("ix_"):
            out[str(x)] = x
        for c in x.children():
            walk(c)
    for f in fs:
        walk(f)
    return list(out.values())


def _consts_of_sort(fs, sort):
    seen, out = set(), {}

    def walk(x):
        if x.get_id() in seen:
            return
        seen.add(x.get_id())
        if z3.is_const(x) and x.decl().kind() == z3.Z3_OP_UNINTERPRETED and x.sort() == sort:
            out[str(x)] = x
        for c in x.children():
            walk(c)
    for f in fs:
        walk(f)
    return list(out.values())


def discharge_inst(pc, axioms, univ, inexact, goal, timeout):
    """-> (status, model, secs): PROVED iff pc & axioms & instances & not goal is unsat.
    Instantiation terms: the index constants c of the goal and the path condition with c-1, c+1, and 0, 1 (T1); the Skolem
    witnesses that only occur in axioms (definitions of any / all / != / 'not ascending') with their neighbours (T2).  One-place facts
    are instantiated at T1 + T2, two-place facts at T1 x T1 and at all pairs of the constants themselves."""
    base = [*pc, *axioms, z3.Not(goal)]
    c1 = _index_consts([*pc, z3.Not(goal)])
    k1 = {str(c) for c in c1}
    c2 = [c for c in _index_consts(axioms) if str(c) not in k1]
    t1 = [z3.IntVal(0), z3.IntVal(1)]
    for c in c1:
        t1 += [c, c - 1, c + 1]
    t2 = []
    for c in c2:
        t2 += [c, c - 1, c + 1]
    pairs = [(x, y) for x in t1 for y in t1] + [(x, y) for x in c1 + c2 for y in c1 + c2 if not (str(x) in k1 and str(y) in k1)]
    inst = []
    for u in univ:
        if u.arity == 1:
            inst += [u.inst(t) for t in t1 + t2]
        else:
            inst += [u.inst(x, y) for x, y in pairs]
    st, m, secs = solve(base + inst, timeout)
    if st == REFUTED and inexact:
        return UNKNOWN, None, secs
    return st, m, secs


class H:
    tracked = False

    def attr(self, eng, p, name):
        raise Unsupported(f"{type(self).__name__}.{name}")

    def call_method(self, eng, p, name, args, kw, node):
        raise Unsupported(f"{type(self).__name__}.{name}()")


class LSeq(H):
    """list of symbolic length n whose j-th element is at(j) (an engine value built from z3 terms over j)"""

    def __init__(self, n, at, parts=None):
        self.n = z3.simplify(n) if z3.is_expr(n) else z3.IntVal(n)
        self.at = at
        self.parts = parts          # concatenation keeps its segments (quantifiers stay free of index arithmetic)

    def subst(self, pairs):
        return LSeq(z3.substitute(self.n, *pairs), lambda j: subst_v(self.at(j), pairs),
                    [x.subst(pairs) for x in self.parts] if self.parts else None)

    def segments(self):
        return self.parts or [self]

    def len(self, eng, p):
        return PyI(self.n)

    def truth(self, eng, p):
        return self.n > 0

    def isinstance(self, eng, p, tn):
        return z3.BoolVal("list" in tn)

    def is_none(self, eng, p):
        return z3.BoolVal(False)

    def getitem(self, eng, p, i, node):
        k = eng.as_int(i, p, node)
        sk = z3.simplify(k)
        if z3.is_int_value(sk) and sk.as_long() < 0:
            k = self.n + k
        eng.oblige(p, f"{eng.cur_func}.index_in_range@L{node.lineno}", "safety", z3.And(k >= 0, k < self.n), node,
                   note="list index within the list (IndexError otherwise)")
        return self.at(k)

    def slice(self, eng, p, lo, hi, node):
        n = self.n

        def norm(v, default):
            if v is None or isinstance(v, NoneV):
                return default
            x = eng.as_int(v, p, node)
            return z3.If(x < 0, z3.If(n + x < 0, 0, n + x), z3.If(x > n, n, x))
        start, stop = z3.simplify(norm(lo, z3.IntVal(0))), z3.simplify(norm(hi, n))
        m = z3.simplify(z3.If(stop > start, stop - start, 0))
        out = LSeq(m, lambda j: self.at(z3.simplify(start + j)))
        out.loop = out.slice_loop = self.slice_loop
        return Custom(out)

    slice_loop = None

    def binop(self, eng, p, op, b, node):
        if isinstance(op, ast.Add) and isinstance(b, Custom) and isinstance(b.h, LSeq):
            segs = self.segments() + b.h.segments()
            n1 = self.n
            a_at, b_at = self.at, b.h.at

            def at(j):
                return merge_v(j < n1, a_at(j), b_at(j - n1))
            return Custom(LSeq(self.n + b.h.n, at, segs))
        raise Unsupported("list " + type(op).__name__)

    def eq(self, eng, p, other):
        if isinstance(other, Custom) and isinstance(other.h, LSeq):
            o = other.h
            e = eng.fresh("list_eq", z3.BoolSort())
            elem = lambda j: eng.equal(self.at(j), o.at(j), p, None)
            exact = _is_const_int(self.n) and _is_const_int(o.n)
            register(p, Univ(1, lambda t: z3.Implies(e, z3.And(self.n == o.n, z3.Implies(z3.And(0 <= t, t < self.n), elem(t))))), exact)
            if exact:
                p.axioms.append(e == z3.And(self.n == o.n, fa_range(self.n, elem, "eqi")))
            w = ix(eng, "w_ne")      # lists differ => they differ in length or at some position w (Skolemised definition of !=)
            p.axioms.append(z3.Implies(z3.Not(e), z3.Or(self.n != o.n, z3.And(0 <= w, w < self.n, z3.Not(elem(w))))))
            return e
        if isinstance(other, Tup):
            if not other.items:
                return self.n == 0
            return z3.And(self.n == len(other.items), *[eng.equal(self.at(z3.IntVal(k)), x, p, None) for k, x in enumerate(other.items)])
        return z3.BoolVal(False)

    def arbitrary(self, eng, p):
        j = ix(eng, "member")
        p.pc += [j >= 0, j < self.n]
        return self.at(j)

    loop = None      # proof-script hook (eng, p, stmt, seq) -> paths: how a `for` over THIS list is executed

    def for_loop(self, eng, p, st):
        if self.loop is None:
            raise Unsupported(f"for over a symbolic list without a loop contract in {eng.cur_func} L{st.lineno}")
        return self.loop(eng, p, st, self)

    @staticmethod
    def of_items(items):
        def at(j):
            v = items[-1]
            for k in reversed(range(len(items) - 1)):
                v = merge_v(j == k, items[k], v)
            return v
        return LSeq(len(items), at)


def merge_v(c, a, b):
    """If(c, a, b) on values"""
    if isinstance(a, Opt) or isinstance(b, Opt) or isinstance(a, NoneV) or isinstance(b, NoneV):
        def parts(v):
            if isinstance(v, NoneV):
                return z3.BoolVal(True), PyI(0)
            if isinstance(v, Opt):
                return v.isnone, v.val
            return z3.BoolVal(False), v
        (an, av), (bn, bv) = parts(a), parts(b)
        return Opt(z3.If(c, an, bn), merge_v(c, av, bv))
    if isinstance(a, PyI) and isinstance(b, PyI):
        return PyI(z3.If(c, a.z, b.z))
    if isinstance(a, PyB) and isinstance(b, PyB):
        return PyB(z3.If(c, a.z, b.z))
    if isinstance(a, Tup) and isinstance(b, Tup) and len(a.items) == len(b.items):
        return Tup([merge_v(c, x, y) for x, y in zip(a.items, b.items)], a.is_list)
    if isinstance(a, Custom) and hasattr(a.h, "merge"):
        return Custom(a.h.merge(c, b))
    if a is b:
        return a
    raise Unsupported("merge of " + type(a).__name__ + "/" + type(b).__name__)


class CompSeq(H):
    """(elt for x in <LSeq> if guard): per segment (J, n, guard(J), elt(J)); consumed by any() / all()"""

    def __init__(self, parts):
        self.parts = parts


def _mentions(e, c):
    if e.eq(c):
        return True
    return any(_mentions(x, c) for x in e.children())


def h_comp(eng, p, e):
    """comprehension / generator expression over an LSeq: the element is evaluated for the member at an arbitrary position J"""
    if len(e.generators) != 1:
        return None
    g = e.generators[0]
    rs = eng.ev(g.iter, p)
    if len(rs) != 1:
        raise Unsupported("forking comprehension source")
    q, coll = rs[0]
    return comp_over(eng, q, e, coll)


def comp_over(eng, q, e, coll):
    """the comprehension `e` (one generator) over the already evaluated collection"""
    g = e.generators[0]
    if isinstance(coll, Custom) and hasattr(coll.h, "as_lseq"):
        coll = Custom(coll.h.as_lseq(eng, q))
    if not (isinstance(coll, Custom) and isinstance(coll.h, LSeq)):
        return None
    out = []
    for seg in coll.h.segments():
        J = ix(eng, "J")
        mark = len(q.pc)
        q.pc += [J >= 0, J < seg.n]
        qs = eng.assign(g.target, seg.at(J), q)
        if len(qs) != 1 or qs[0] is not q:
            raise Unsupported("forking comprehension target")
        guard = z3.BoolVal(True)
        for c in g.ifs:
            cs = eng.cond(c, q)
            if len(cs) != 1 or cs[0][0] is not q:
                raise Unsupported("forking comprehension filter")
            guard = z3.And(guard, cs[0][1])
        vs = eng.ev(e.elt, q)
        if len(vs) != 1 or vs[0][0] is not q:
            raise Unsupported("forking comprehension element")
        # the position J is local to the comprehension: its range (and anything said under it) leaves the path condition
        q.pc[mark:] = [c for c in q.pc[mark:] if not _mentions(c, J)]
        out.append((J, seg.n, z3.simplify(guard), vs[0][1]))
    if len(out) == 1 and z3.is_true(out[0][2]):
        J, n, _, elt = out[0]
        return [(q, Custom(LSeq(n, lambda j: subst_v(elt, [(J, j)]))))]
    if isinstance(e, ast.ListComp):
        raise Unsupported("filtered / segmented list comprehension as a list value")
    return [(q, Custom(CompSeq(out)))]


def _quant(eng, p, v, is_any):
    """any(...) / all(...) over a symbolic list: a fresh Bool r with its definition registered as a universal fact
    (any: member true => r ; all: r => member true) - and, when the lengths are constants, defined exactly"""
    if isinstance(v, Custom) and isinstance(v.h, LSeq):
        fs = [(seg.n, (lambda j, seg=seg: z3.BoolVal(True)), (lambda j, seg=seg: eng.truth(seg.at(j), p))) for seg in v.h.segments()]
    elif isinstance(v, Custom) and isinstance(v.h, CompSeq):
        fs = [(n, (lambda j, J=J, g=g: z3.substitute(g, (J, j))), (lambda j, J=J, elt=elt: eng.truth(subst_v(elt, [(J, j)]), p)))
              for J, n, g, elt in v.h.parts]
    else:
        return None
    r = eng.fresh("any" if is_any else "all", z3.BoolSort())

    def inst(t):
        cs = []
        for n, g, tr in fs:
            rng = z3.And(0 <= t, t < n)
            cs.append(z3.Implies(z3.And(rng, g(t), tr(t)), r) if is_any else z3.Implies(z3.And(r, rng, g(t)), tr(t)))
        return z3.And(*cs)
    exact = all(_is_const_int(n) for n, _, _ in fs)
    register(p, Univ(1, inst), exact)
    # the other direction of the definition, Skolemised: any() true => some member w is true; all() false => some member w is false
    ws = [(ix(eng, "w_any" if is_any else "w_all"), n, g, tr) for n, g, tr in fs]
    if is_any:
        p.axioms.append(z3.Implies(r, z3.Or(*[z3.And(0 <= w, w < n, g(w), tr(w)) for w, n, g, tr in ws])))
    else:
        p.axioms.append(z3.Implies(z3.Not(r), z3.Or(*[z3.And(0 <= w, w < n, g(w), z3.Not(tr(w))) for w, n, g, tr in ws])))
    if exact:
        if is_any:
            p.axioms.append(r == z3.Or(*[ex_range(n, lambda j, g=g, t=t: z3.And(g(j), t(j)), "anyi") for n, g, t in fs]))
        else:
            p.axioms.append(r == z3.And(*[fa_range(n, lambda j, g=g, t=t: z3.Implies(g(j), t(j)), "alli") for n, g, t in fs]))
    return r


def h_any(eng, p, args, kw, node):
    r = _quant(eng, p, args[0], True)
    return [(p, PyB(r))] if r is not None else BUILTINS["any"](eng, p, args, kw, node)


def h_all(eng, p, args, kw, node):
    r = _quant(eng, p, args[0], False)
    return [(p, PyB(r))] if r is not None else BUILTINS["all"](eng, p, args, kw, node)


def h_zip(eng, p, args, kw, node):
    if len(args) == 2 and all(isinstance(a, Custom) and isinstance(a.h, LSeq) for a in args):
        a, b = args[0].h, args[1].h
        return [(p, Custom(LSeq(z3.If(a.n <= b.n, a.n, b.n), lambda j: Tup([a.at(j), b.at(j)]))))]
    raise Unsupported("zip of " + "/".join(type(a).__name__ for a in args))


def _isnone(v):
    if isinstance(v, NoneV):
        return z3.BoolVal(True)
    if isinstance(v, Opt):
        return v.isnone
    return z3.BoolVal(False)


def _ival(eng, v):
    return eng.as_int(v.val if isinstance(v, Opt) else v)


def h_sorted(eng, p, args, kw, node):
    """ASSUMED contract of sorted(): ascending permutation; comparing a None raises TypeError -> obligation"""
    src = args[0]
    if not (isinstance(src, Custom) and isinstance(src.h, LSeq)) or kw:
        raise Unsupported("sorted of " + type(src).__name__)
    x = src.h
    k = next(eng.counter)
    j = ix(eng, "j_sorted")
    eng.oblige(p, f"{eng.cur_func}.no_compare_with_None@L{node.lineno}", "safety",
               z3.Implies(z3.And(x.n >= 2, 0 <= j, j < x.n), z3.Not(_isnone(x.at(j)))), node,
               note="sorted() compares the elements: a None among >= 2 elements is a TypeError")
    sn = z3.Function(f"sorted_isnone!{k}", z3.IntSort(), z3.BoolSort())
    sv = z3.Function(f"sorted_val!{k}", z3.IntSort(), z3.IntSort())
    n = x.n
    exact = _is_const_int(n)
    asc = lambda a, b: z3.Implies(z3.And(0 <= a, a < b, b < n, z3.Not(sn(a)), z3.Not(sn(b))), sv(a) <= sv(b))
    register(p, Univ(2, asc), exact)
    if exact:
        same = lambda a, b: z3.And(sn(a) == _isnone(x.at(b)), z3.Or(sn(a), sv(a) == _ival(eng, x.at(b))))
        p.axioms += [
            fa_range(n, lambda a: fa_range(n, lambda b: asc(a, b), "sb"), "sa"),
            fa_range(n, lambda a: ex_range(n, lambda b: same(a, b), "pb"), "pa"),
            fa_range(n, lambda b: ex_range(n, lambda a: same(a, b), "qa"), "qb"),
        ]
    # ASSUMED: sorted() is the identity on a list that is already ascending (and None-free).  `asc` = "x is ascending and
    # None-free", defined by Skolemising its negation: not asc => some pair wa < wb is out of order or holds a None
    asc_x = eng.fresh("already_ascending", z3.BoolSort())
    wa, wb = ix(eng, "w_unsorted_a"), ix(eng, "w_unsorted_b")
    p.axioms.append(z3.Implies(z3.Not(asc_x), z3.And(0 <= wa, wa < wb, wb < n, z3.Or(_isnone(x.at(wa)), _isnone(x.at(wb)),
                                                                                     _ival(eng, x.at(wa)) > _ival(eng, x.at(wb))))))
    register(p, Univ(1, lambda t: z3.Implies(z3.And(asc_x, 0 <= t, t < n), z3.And(z3.Not(sn(t)), sv(t) == _ival(eng, x.at(t))))), exact)
    return [(p, Custom(LSeq(n, lambda i: Opt(sn(i), PyI(sv(i))))))]


# =================================================================================================
# dictionaries written by the code under contract
# =================================================================================================
class DictV(H):
    """a dict created by the code (`{}`, `dict()`, `{'k': v, ...}`): contents live in path.ghost"""

    def __init__(self, eng, p, items=()):
        self.key = ("dict", next(eng.counter))
        p.ghost[self.key] = list(items)

    def items(self, p):
        return p.ghost[self.key]

    def setitem(self, eng, p, i, v, node):
        its = [(k, x) for k, x in self.items(p) if not _same_key(k, i)]
        its.append((i, v))
        p.ghost[self.key] = its

    def getitem(self, eng, p, i, node):
        for k, x in self.items(p):
            if _same_key(k, i):
                return x
        raise Unsupported("dict lookup of an absent / symbolic key")

    def truth(self, eng, p):
        return z3.BoolVal(len(self.items(p)) > 0)

    def isinstance(self, eng, p, tn):
        return z3.BoolVal("dict" in tn)

    def is_none(self, eng, p):
        return z3.BoolVal(False)


def _same_key(a, b):
    if isinstance(a, Str) and isinstance(b, Str):
        return a.s == b.s
    if isinstance(a, Custom) and isinstance(b, Custom) and isinstance(a.h, ColName) and isinstance(b.h, ColName):
        return a.h.c.eq(b.h.c)
    return False


class ListEngine(Engine):
    """Engine + dict displays; obligations carry the universal facts known on their path; `[x] + <symbolic list>`;
    handlers["emptylist"] / ["dictcomp"] / ["float*"] (proof-script models of `[]`, dict comprehensions, float * int)"""

    def e_List(self, e, p):
        if not e.elts and "emptylist" in self.handlers:
            return self.handlers["emptylist"](self, p, e)
        return super().e_List(e, p)

    def e_DictComp(self, e, p):
        if "dictcomp" in self.handlers:
            r = self.handlers["dictcomp"](self, p, e)
            if r is not None:
                return r
        return super().e_DictComp(e, p)

    def binop(self, op, a, b, p, node):
        if isinstance(op, ast.Add) and isinstance(a, Tup) and a.is_list and a.items and isinstance(b, Custom) and isinstance(b.h, LSeq):
            return LSeq.of_items(a.items).binop(self, p, op, b, node)
        if isinstance(op, ast.Mult) and isinstance(a, Opaque) and isinstance(a.tag, tuple) and a.tag[:1] == ("float",) and "float*" in self.handlers:
            return self.handlers["float*"](self, p, a.tag[1], b, node)
        return super().binop(op, a, b, p, node)

    def oblige(self, p, name, kind, goal, node=None, note=""):
        super().oblige(p, name, kind, goal, node, note)
        self.oblig[-1].univ = list(p.ghost.get("univ", []))
        self.oblig[-1].inexact = bool(p.ghost.get("inexact"))

    def e_Dict(self, e, p):
        out = []
        for q, vals in self.ev_list(e.values, p):
            keys = []
            for k in e.keys:
                if not (isinstance(k, ast.Constant) and isinstance(k.value, str)):
                    raise Unsupported("dict display with a non-literal key")
                keys.append(Str(k.value))
            out.append((q, Custom(DictV(self, q, list(zip(keys, vals))))))
        return out


def h_dict(eng, p, args, kw, node):
    if args or kw:
        raise Unsupported("dict(...) with arguments")
    return [(p, Custom(DictV(eng, p)))]


# =================================================================================================
# sorted_partitioned_columns
# =================================================================================================
ColS = z3.DeclareSort("Column")
STATS = ("min", "max", "null_count", "distinct_count")
ISN = {s: z3.Function(f"stat_{s}_isnone", ColS, z3.IntSort(), z3.BoolSort()) for s in STATS}
VAL = {s: z3.Function(f"stat_{s}_value", ColS, z3.IntSort(), z3.IntSort()) for s in STATS}
COLLAPSED = {s: z3.Function(f"stat_{s}_collapsed_to_single_None", ColS, z3.BoolSort()) for s in ("min", "max")}
IDX = z3.Function("selected_row_group", z3.IntSort(), z3.IntSort())


class ColName(H):
    def __init__(self, c):
        self.c = c

    def subst(self, pairs):
        return ColName(z3.substitute(self.c, *pairs))

    def eq(self, eng, p, other):
        if isinstance(other, Custom) and isinstance(other.h, ColName):
            return self.c == other.h.c
        return z3.BoolVal(False)

    def isinstance(self, eng, p, tn):
        return z3.BoolVal("str" in tn)


class Model:
    """symbolic inputs of one run"""

    def __init__(self, n_rg, m_sel, collapsed):
        """collapsed: 'symbolic' (any column's min / max list may be the single [None]) or a pair of bools (min, max)"""
        self.n_rg = n_rg if z3.is_expr(n_rg) else z3.IntVal(n_rg)
        self.m_sel = m_sel if z3.is_expr(m_sel) else z3.IntVal(m_sel)
        self.collapsed = collapsed
        self.filters_truthy = z3.Bool("filters_is_a_nonempty_list")
        self.c0 = z3.Const("column_c", ColS)

    def orig(self, stat, c):
        """the list statistics(pf)[stat][c]"""
        if stat in COLLAPSED and self.collapsed == "symbolic":
            col = COLLAPSED[stat](c)
            n = z3.If(col, 1, self.n_rg)
            return LSeq(n, lambda j: Opt(z3.If(col, z3.BoolVal(True), ISN[stat](c, j)), PyI(VAL[stat](c, j))))
        if stat in COLLAPSED and self.collapsed[("min", "max").index(stat)]:
            return LSeq(1, lambda j: Opt(z3.BoolVal(True), PyI(0)))
        return LSeq(self.n_rg, lambda j: Opt(ISN[stat](c, j), PyI(VAL[stat](c, j))))

    def spec(self, stat, c):
        """the statistic restricted to the selected row groups - written from the property, independent of the code"""
        o = self.orig(stat, c)
        ft = self.filters_truthy
        return LSeq(z3.If(ft, self.m_sel, o.n), lambda j: merge_v(ft, o.at(IDX(j)), o.at(j)))

    def idx_facts(self, p):
        m, n = self.m_sel, self.n_rg
        exact = _is_const_int(m)
        rng = lambda t: z3.Implies(z3.And(0 <= t, t < m), z3.And(0 <= IDX(t), IDX(t) < n))
        inc = lambda a, b: z3.Implies(z3.And(0 <= a, a < b, b < m), IDX(a) < IDX(b))
        register(p, Univ(1, rng), exact)
        register(p, Univ(2, inc), exact)
        if exact:
            p.axioms += [forall_range(0, m, lambda j: z3.And(0 <= IDX(j), IDX(j) < n), "ix"),
                         forall_range(0, m, lambda a: forall_range(0, m, lambda b: z3.Implies(a < b, IDX(a) < IDX(b)), "ib"), "ia")]


def note_store(p, owner, what):
    """ghost trace of every mutation of a statistics structure: who owns the object that is written"""
    p.ghost["stat_stores"] = list(p.ghost.get("stat_stores", [])) + [(owner, what)]


class StatsD(H):
    """a statistics dict: owner 'call' = the object statistics(pf) built in THIS call (fresh by that function's contract: new dicts
    and lists), owner 'handle' = what the handle holds (pf.statistics / pf._statistics: the cached object every later caller sees).
    The current list of (stat, column) is path.ghost['lists'][stat](column term)"""

    def __init__(self, mdl, owner="call"):
        self.mdl, self.owner = mdl, owner

    def init(self, p):
        p.ghost["lists"] = {s: (lambda c, s=s: self.mdl.orig(s, c)) for s in STATS}

    def getitem(self, eng, p, i, node):
        if isinstance(i, Str) and i.s in STATS:
            return Custom(StatCols(i.s, self.owner))
        raise Unsupported("statistics()[...] with a key that is not one of the four statistics")

    def call_method(self, eng, p, name, args, kw, node):
        if name == "keys" and not args:
            return [(p, Custom(StatKeys()))]
        if name in ("pop", "popitem", "clear", "update", "setdefault", "__setitem__", "__delitem__") and self.owner == "handle":
            note_store(p, self.owner, "." + name + "()")
            return [(p, Opaque(("dict_op", name, next(eng.counter))))]
        raise Unsupported("statistics()." + name)

    def iterate(self, eng, p):
        return [Str(s) for s in STATS]

    def truth(self, eng, p):        # the handle's cache may not be filled yet (pf._statistics is None)
        return z3.BoolVal(True) if self.owner == "call" else z3.Bool("handle_statistics_cache_is_filled")

    def is_none(self, eng, p):
        return z3.Not(self.truth(eng, p))

    def setitem(self, eng, p, i, v, node):
        note_store(p, self.owner, "[stat] = ...")
        if self.owner == "call":
            raise Unsupported("replacing a whole statistic dict")


class StatKeys(H):
    def iterate(self, eng, p):
        return [Str(s) for s in STATS]


class StatCols(H):
    """s[stat]: column name -> list"""

    def __init__(self, stat, owner="call"):
        self.stat, self.owner = stat, owner

    def _col(self, p, i):
        if not (isinstance(i, Custom) and isinstance(i.h, ColName)):
            raise Unsupported("s[stat][...] with something that is not a column name")
        k = p.ghost.get("colloop")
        if k is not None and not i.h.c.eq(k):
            raise Unsupported("inside the loop over the columns of s[stat], access to another column's list")
        if k is None and "c0" in p.ghost and not i.h.c.eq(p.ghost["c0"]):
            raise Unsupported("a statistics list of a column other than the arbitrary one of the postconditions is read")
        return i.h.c

    def getitem(self, eng, p, i, node):
        c = self._col(p, i)
        pend = p.ghost.get("pending", {})
        if self.stat in pend:
            return pend[self.stat]
        return Custom(p.ghost["lists"][self.stat](c))

    def setitem(self, eng, p, i, v, node):
        self._col(p, i)
        if p.ghost.get("colloop") is None:
            raise Unsupported("store into the statistics outside the loop over their columns")
        if not (isinstance(v, Custom) and isinstance(v.h, LSeq)):
            raise Unsupported("a statistic replaced by something that is not a list")
        note_store(p, self.owner, f"[{self.stat!r}][col] = ...")
        p.ghost.setdefault("pending", {})[self.stat] = v

    def call_method(self, eng, p, name, args, kw, node):
        if name == "keys" and not args:
            return [(p, Custom(ColKeys(self.stat)))]
        if name in ("pop", "popitem", "clear", "update", "setdefault") and self.owner == "handle":
            note_store(p, self.owner, f"[{self.stat!r}].{name}()")
            return [(p, Opaque(("dict_op", name, next(eng.counter))))]
        raise Unsupported("s[stat]." + name)

    def for_loop(self, eng, p, st):
        return ColKeys(self.stat).for_loop(eng, p, st)


def _assigned_names(body):
    """names (re)bound inside the statements: Name nodes in Store context (assignment, loop and comprehension targets)"""
    return {n.id for n in ast.walk(ast.Module(body=body, type_ignores=[])) if isinstance(n, ast.Name) and isinstance(n.ctx, ast.Store)}


def merge_lists(c, a, b):
    """If(c, a, b) on two symbolic lists"""
    return LSeq(z3.If(c, a.n, b.n), lambda j: merge_v(c, a.at(j), b.at(j)))


class ColKeys(H):
    """for col in s[stat].keys(): the body is executed ONCE, for the key that is the Skolem column c0 of the postconditions (an
    arbitrary column).  The body may touch only that key's own list (checked: anything else is Unsupported) and keys are distinct,
    so c0's list after the loop is what ITS iteration leaves: If(branch condition, list stored on that branch, old list) - the
    branches of the body (e.g. `if len(s[stat][col]) != len(pf.row_groups): continue`) are merged into one path.  Other columns' lists are not tracked:
    nothing below may read them (checked)."""

    def __init__(self, stat):
        self.stat = stat

    def for_loop(self, eng, p, st):
        if p.ghost.get("colloop") is not None:
            raise Unsupported("nested loops over statistic columns")
        k = p.ghost["c0"]
        for nm in _assigned_names(st.body):
            if nm in p.env:
                p.env[nm] = Opaque((nm, "carried", next(eng.counter)))
        p.ghost["colloop"] = k
        p.ghost["pending"] = {}
        n_pc = len(p.pc)
        old_lists = dict(p.ghost["lists"])
        outs = []
        for b in eng.assign(st.target, Custom(ColName(k)), p):
            outs += eng.block(st.body, [b])
        if not outs or any(r.ctl not in (None, "continue") for r in outs):
            raise Unsupported("loop over statistic columns whose body leaves the loop (no per-column summary)")
        r = outs[0]
        conds = [z3.And(*q.pc[n_pc:]) if len(q.pc) > n_pc else z3.BoolVal(True) for q in outs]
        lists = dict(old_lists)
        skipped = dict(r.ghost.get("skipped", {}))
        for stat in {st_ for q in outs for st_ in q.ghost.get("pending", {})}:
            old = old_lists[stat](k)
            vals = [q.ghost.get("pending", {}).get(stat) for q in outs]
            cur = vals[-1].h if vals[-1] is not None else old
            for cnd, v in reversed(list(zip(conds[:-1], vals[:-1]))):
                cur = merge_lists(cnd, v.h if v is not None else old, cur)
            lists[stat] = (lambda c, cur=cur: cur)
            skips = [cnd for cnd, v in zip(conds, vals) if v is None]
            skipped[stat] = z3.Or(*skips) if skips else z3.BoolVal(False)
        # one path goes on: path condition as before the body (the branch conditions are exhaustive), facts of all branches kept
        for q in outs[1:]:
            r.axioms += [a for a in q.axioms if not any(a.eq(x) for x in r.axioms)]
            r.ghost["univ"] = list(r.ghost.get("univ", [])) + [u for u in q.ghost.get("univ", []) if u not in r.ghost.get("univ", [])]
            r.ghost["inexact"] = bool(r.ghost.get("inexact")) or bool(q.ghost.get("inexact"))
            r.ghost["stat_stores"] = list(r.ghost.get("stat_stores", [])) + [x for x in q.ghost.get("stat_stores", []) if x not in r.ghost.get("stat_stores", [])]
        r.pc[n_pc:] = [z3.Or(*conds)] if len(outs) > 1 else r.pc[n_pc:]
        r.ctl = None
        r.ghost.pop("pending", None)
        r.ghost["lists"] = lists
        r.ghost["skipped"] = skipped
        r.ghost["colloop"] = None
        for nm in _assigned_names(st.body) | {x.id for x in ast.walk(st.target) if isinstance(x, ast.Name)}:
            r.env[nm] = Opaque((nm, "after_loop", next(eng.counter)))
        return [r]


class ColList(H):
    """pf.columns: the result loop is executed for ONE arbitrary column from a havoc'd state"""

    def __init__(self, mdl, sink):
        self.mdl, self.sink = mdl, sink

    def for_loop(self, eng, p, st):
        exit_path, body = p.fork(), p.fork()
        for q in (exit_path, body):
            for nm in _assigned_names(st.body):
                if nm in q.env:
                    q.env[nm] = Opaque((nm, "carried", next(eng.counter)))
        outs = [exit_path]
        for b in eng.assign(st.target, Custom(ColName(self.mdl.c0)), body):
            for r in eng.block(st.body, [b]):
                if r.ctl in (None, "continue", "break"):
                    self.sink.append(r)
                else:
                    outs.append(r)
        return outs


class PF(H):
    def __init__(self, mdl, sink):
        self.mdl, self.sink = mdl, sink

    def attr(self, eng, p, name):
        if name == "columns":
            return Custom(ColList(self.mdl, self.sink))
        if name == "row_groups":
            n = self.mdl.n_rg
            return Custom(LSeq(n, lambda j: Opaque(("row_group", str(j)))))      # only its length is ever asked
        if name in ("statistics", "_statistics"):
            # the property returns the handle's CACHED object - owned by the handle, distinct from what statistics(pf) builds
            d = StatsD(self.mdl, owner="handle")
            if "lists" not in p.ghost:
                d.init(p)
            return Custom(d)
        raise Unsupported("pf." + name)

    def setattr(self, eng, p, name, v):
        p.ghost["pf_writes"] = list(p.ghost.get("pf_writes", [])) + ["." + name + " = ..."]

    def call_method(self, eng, p, name, args, kw, node):
        # nothing sorted_partitioned_columns has to call on the handle; any method may mutate it
        p.ghost["pf_writes"] = list(p.ghost.get("pf_writes", [])) + ["." + name + "()"]
        return [(p, Opaque(("pf_method", name, next(eng.counter))))]


class Filters(H):
    def __init__(self, mdl):
        self.mdl = mdl

    def truth(self, eng, p):
        return self.mdl.filters_truthy

    def is_none(self, eng, p):
        return z3.Not(self.mdl.filters_truthy)      # None and [] both take the `not filters` branch


def _model_fn(mdl):
    def mf(m):
        ev = lambda t, d=None: backends.model_value(m, t, d)
        n = min(int(ev(mdl.n_rg, 0) or 0), 6)
        ft = bool(ev(mdl.filters_truthy, False))
        msel = min(int(ev(mdl.m_sel, 0) or 0), 6)
        out = {"n_row_groups": n, "filters_given": ft}
        if ft:
            out["selected_row_groups"] = [ev(IDX(z3.IntVal(j))) for j in range(msel)]
        for s in ("min", "max"):
            o = mdl.orig(s, mdl.c0)
            ln = min(int(ev(o.n, 0) or 0), 6)
            out["statistics_" + s] = [None if ev(o.at(z3.IntVal(j)).isnone) else ev(o.at(z3.IntVal(j)).val.z) for j in range(ln)]
        return out
    return mf


def run_sorted(funcs, timeout, n_rg, m_sel, collapsed="symbolic", paths_only=False):
    res = Results()
    mdl = Model(n_rg, m_sel, collapsed)
    sink = []
    pf, filters, stats = PF(mdl, sink), Filters(mdl), StatsD(mdl)

    def h_statistics(eng, p, args, kw, node):
        if not (len(args) == 1 and isinstance(args[0], Custom) and args[0].h is pf):
            raise Unsupported("statistics() of something that is not pf")
        stats.init(p)
        return [(p, Custom(stats))]

    def h_frg(eng, p, args, kw, node):
        a = list(args) + [None] * 3
        as_idx = kw.get("as_idx", a[2])
        fl = kw.get("filters", a[1])
        ok = (isinstance(a[0], Custom) and a[0].h is pf and isinstance(fl, Custom) and fl.h is filters
              and isinstance(as_idx, PyB) and z3.is_true(z3.simplify(as_idx.z)))
        eng.oblige(p, f"{eng.cur_func}.filter_row_groups_called_with(pf, filters, as_idx=True)", "post", z3.BoolVal(ok), node)
        if not ok:
            raise Unsupported("filter_row_groups called with other arguments")
        mdl.idx_facts(p)
        return [(p, Custom(LSeq(mdl.m_sel, lambda j: PyI(IDX(j)))))]
    handlers = {"statistics": h_statistics, "filter_row_groups": h_frg, "sorted": h_sorted, "zip": h_zip, "any": h_any,
                "all": h_all, "dict": h_dict, "listcomp": h_comp}
    eng = ListEngine(funcs=funcs, handlers=handlers, opaque_calls=False)
    p = Path()
    p.pc += [mdl.n_rg >= 0, mdl.m_sel >= 0]
    p.ghost["c0"] = mdl.c0
    BOUND[0] = (max(z3.simplify(mdl.n_rg).as_long(), z3.simplify(mdl.m_sel).as_long(), 1) + 1) if (
        z3.is_int_value(z3.simplify(mdl.n_rg)) and z3.is_int_value(z3.simplify(mdl.m_sel))) else None
    try:
        outs = eng.run("sorted_partitioned_columns", p, [Custom(pf), Custom(filters)])
    except BaseException:
        BOUND[0] = None
        raise
    mf = _model_fn(mdl)
    if paths_only:
        BOUND[0] = None
        return res, (0, 0, sink)
    for ob in eng.oblig:
        st, m, secs = discharge_inst(ob.pc, ob.axioms, ob.univ, ob.inexact, ob.goal, timeout)
        res.add("sorted_columns." + ob.name.split(".", 1)[-1], st, mf(m) if m is not None else None, secs, "z3", ob.note or ob.kind)
    a, b, j = z3.Int("ix_a_skolem"), z3.Int("ix_b_skolem"), z3.Int("ix_j_skolem")
    smin, smax = mdl.spec("min", mdl.c0), mdl.spec("max", mdl.c0)
    n_listed = 0
    for q in sink:
        dicts = [(k, v) for k, v in q.ghost.items() if isinstance(k, tuple) and k[0] == "dict"]
        stores = [(key, val) for _, its in dicts for key, val in its if isinstance(key, Custom) and isinstance(key.h, ColName)]
        if not stores:
            continue
        n_listed += 1
        univ, inexact = q.ghost.get("univ", []), bool(q.ghost.get("inexact"))
        key, val = stores[-1]
        # (1) the entry is {'min': min', 'max': max'} under the column's own name
        ok_shape = key.h.c.eq(mdl.c0) and isinstance(val, Custom) and isinstance(val.h, DictV) and \
            sorted(k.s for k, _ in val.h.items(q) if isinstance(k, Str)) == ["max", "min"] and len(val.h.items(q)) == 2
        if ok_shape:
            goal = z3.BoolVal(True)
            for nm, sp in (("min", smin), ("max", smax)):
                lst = val.h.getitem(eng, q, Str(nm), None)
                if not (isinstance(lst, Custom) and isinstance(lst.h, LSeq)):
                    goal = z3.BoolVal(False)
                    break
                goal = z3.And(goal, lst.h.n == sp.n,
                              z3.Implies(z3.And(0 <= j, j < sp.n), eng.equal(lst.h.at(j), sp.at(j), q, None)))
            st, m, secs = discharge_inst(q.pc, q.axioms, univ, inexact, goal, timeout)
        else:
            st, m, secs = REFUTED, None, 0.0
        res.add("sorted_columns.listed_entry_is_selected_statistics", st, dict(mf(m), differs_at=backends.model_value(m, j)) if m else None, secs,
                detail="out[c] == {'min': min', 'max': max'}: the column's statistics of exactly the selected row groups (same index list for both)")
        # lemma: a column whose lists were NOT re-sliced (the filter loop skips a list whose length is not the number of row groups) is never listed
        sk = q.ghost.get("skipped", {})
        lemma = z3.And(*[z3.Not(c) for c in (sk.get("min"), sk.get("max")) if c is not None]) if sk else z3.BoolVal(True)
        st, m, secs = discharge_inst(q.pc, q.axioms, univ, inexact, lemma, timeout)
        res.add("sorted_columns.not_resliced_column_is_never_listed", st, mf(m) if m is not None else None, secs,
                detail="lemma for listed_entry_is_selected_statistics: listed => the filter branch did re-slice the column's min and max lists "
                       "(a list left alone has another length than pf.row_groups: by the contract of statistics() that is the collapsed [None], "
                       "and a None bound is never listed)")
        # (2..5) from the property text, over the spec lists
        goals = {
            "listed_implies_no_None_bound": (z3.And(smin.n == smax.n, z3.Implies(z3.And(0 <= j, j < smin.n), z3.And(z3.Not(smin.at(j).isnone), z3.Not(smax.at(j).isnone)))),
                                             "listed => no min / max of a selected row group is None (lists of equal length)"),
            "listed_implies_nonempty": (smin.n >= 1, "listed => at least one (selected) row group"),
            "listed_implies_disjoint_increasing": (z3.Implies(z3.And(0 <= a, a < b, b < smin.n), smax.at(a).val.z < smin.at(b).val.z),
                                                   "listed => for ALL row groups a < b: max[a] < min[b] (strictly increasing, ranges disjoint)"),
            "listed_implies_bounds_sorted": (z3.Implies(z3.And(0 <= a, a < b, b < smin.n), z3.And(smin.at(a).val.z <= smin.at(b).val.z, smax.at(a).val.z <= smax.at(b).val.z)),
                                             "listed => min and max are each ascending across row groups"),
        }
        for nm, (goal, detail) in goals.items():
            st, m, secs = discharge_inst(q.pc, q.axioms, univ, inexact, goal, timeout)
            res.add("sorted_columns." + nm, st, dict(mf(m), a=backends.model_value(m, a), b=backends.model_value(m, b), j=backends.model_value(m, j)) if m else None,
                    secs, detail=detail)
    # converse: a column whose selected statistics are None-free, non-empty, each ascending and strictly increasing from one row
    # group to the next IS listed.  Posed on every path of the arbitrary iteration that does NOT store the column: the spec
    # condition (universal facts, instantiated like the others) must contradict the path.
    def nn(v):
        return z3.Not(v.isnone)
    spec_univ = [Univ(1, lambda t: z3.Implies(z3.And(0 <= t, t < smin.n), z3.And(nn(smin.at(t)), nn(smax.at(t))))),
                 Univ(2, lambda t, u: z3.Implies(z3.And(0 <= t, t < u, u < smin.n),
                                                 z3.And(smin.at(t).val.z <= smin.at(u).val.z, smax.at(t).val.z <= smax.at(u).val.z))),
                 Univ(1, lambda t: z3.Implies(z3.And(0 <= t, t + 1 < smin.n), smax.at(t).val.z < smin.at(t + 1).val.z))]
    spec_plain = [smin.n >= 1, smin.n == smax.n]
    if _is_const_int(mdl.n_rg) and _is_const_int(mdl.m_sel):       # bounded run: the spec condition is expanded completely
        K = max(z3.simplify(mdl.n_rg).as_long(), z3.simplify(mdl.m_sel).as_long(), 1) + 1
        for u in spec_univ:
            spec_plain += [u.inst(z3.IntVal(t)) for t in range(K)] if u.arity == 1 else \
                [u.inst(z3.IntVal(t), z3.IntVal(t2)) for t in range(K) for t2 in range(K)]
    for q in sink:
        if any(isinstance(k, tuple) and k[0] == "dict" and any(isinstance(kk, Custom) and isinstance(kk.h, ColName) for kk, _ in its)
               for k, its in q.ghost.items()):
            continue
        st, m, secs = discharge_inst(q.pc, [*q.axioms, *spec_plain], q.ghost.get("univ", []) + spec_univ, bool(q.ghost.get("inexact")),
                                     z3.BoolVal(False), timeout)
        res.add("sorted_columns.disjoint_increasing_implies_listed", st, mf(m) if m is not None else None, secs,
                detail="converse: selected statistics None-free, non-empty, min / max ascending and max[i] < min[i+1] for all i => the column is listed")
    n_ret = 0
    for q in outs:
        if q.ctl[0] != "ret":
            continue
        n_ret += 1
        v = q.ctl[1]
        ok = isinstance(v, Custom) and isinstance(v.h, DictV) and not any(isinstance(k, Str) for k, _ in v.h.items(q))
        bad = [w for o, w in q.ghost.get("stat_stores", []) if o != "call"]
        res.add("sorted_columns.statistics_are_a_fresh_object_or_not_mutated", PROVED if not bad else REFUTED,
                None if not bad else {"stores_into_the_handles_cached_statistics": bad, "needs": "filters given (non-empty)"},
                0.0, "trace", "frame: every store into a statistics structure (" + str(len(q.ghost.get("stat_stores", []))) + " on this path) targets the object "
                "statistics(pf) built in this call, never pf.statistics / pf._statistics (the handle's cache, seen by every later call)")
        pw = q.ghost.get("pf_writes", [])
        res.add("sorted_columns.handle_not_mutated", PROVED if not pw else REFUTED, None if not pw else {"on_the_handle": pw}, 0.0, "trace",
                "no attribute of pf is assigned and no method is called on it")
        res.add("sorted_columns.returns_collected_dict", PROVED if ok else REFUTED, None, 0.0, "trace",
                "the value returned is the dict the column loop stores into")
    BOUND[0] = None
    return res, (n_listed, n_ret, sink)


BOUNDED = [(2, 1, (True, False)), (2, 1, (False, True)), (1, 1, (False, False)), (0, 0, (False, False)), (2, 2, (False, False)), (2, 1, (False, False)),
           (3, 2, (False, False)), (1, 1, (True, False)), (1, 1, (False, True)), (2, 2, (True, False)), (2, 2, (False, True)),
           (3, 2, (True, False)), (3, 2, (False, True))]


def check_sorted(ctx, funcs, timeout):
    fq = "api.sorted_partitioned_columns"
    n, m = z3.Int("n_row_groups"), z3.Int("n_selected")
    unb, (n_listed, n_ret, _) = run_sorted(funcs, timeout, n, m)
    ctx.vacuity["covers"] += n_listed
    if n_listed == 0 or n_ret == 0:
        ctx.engine_error(f"sorted_partitioned_columns: listed paths {n_listed}, returning paths {n_ret}")
    bounded = []
    open_names = {nm for nm in unb.order if unb.status(nm) != PROVED}
    # the same contract with every length a small constant: universal facts are expanded, `sat` answers are genuine.
    # Only consulted for obligations the unbounded run left undecided; stops as soon as each of them has a counter-model.
    for k, ms, c in BOUNDED:
        if not open_names:
            break
        br = run_sorted(funcs, timeout, k, ms, c)[0]
        bounded.append((f"{k} row groups, {ms} selected, collapsed(min,max)={c}", br))
        open_names -= {nm for nm in open_names if br.status(nm) == REFUTED}

    out = merge_and_record(ctx, fq, unb, bounded)
    # vacuity: with 2 row groups some path lists the column (the precondition and the listing condition are satisfiable),
    # and a must-fail obligation ("a listed column has min == max in both row groups") is refuted
    _, (_, _, sink) = run_sorted(funcs, 3000, 2, 2, (False, False), paths_only=True)
    listed = [q for q in sink if any(isinstance(k, tuple) and k[0] == "dict" and any(isinstance(kk, Custom) for kk, _ in its) for k, its in q.ghost.items())]
    if any(solve([*q.pc, *q.axioms], 3000)[0] == REFUTED for q in listed):
        ctx.vacuity["requires_sat"] += 1
        c0 = z3.Const("column_c", ColS)
        must_fail = z3.And(*[VAL["min"](c0, z3.IntVal(i)) == VAL["max"](c0, z3.IntVal(i)) for i in range(2)])
        if any(solve([*q.pc, *q.axioms, z3.Not(must_fail)], 3000)[0] == REFUTED for q in listed):
            ctx.vacuity["must_fail_sat"] += 1
        else:
            ctx.engine_error("sorted_partitioned_columns: must-fail obligation was not refuted")
    else:
        ctx.engine_error("sorted_partitioned_columns vacuity: no satisfiable path lists a column for 2 row groups")
    return out


# =================================================================================================
# statistics(<ColumnChunk>)
# =================================================================================================
FIELDS = ("max", "max_value", "min", "min_value", "null_count", "distinct_count")
ABSENT = {f: z3.Bool(f"s_{f}_is_None") for f in FIELDS}
FALSY = {f: z3.Bool(f"s_{f}_is_empty_bytes_or_zero") for f in FIELDS}       # present but b'' (bounds) / 0 (counts)
IS_BA = z3.Bool("md_type_is_BYTE_ARRAY")
HAS_STATS = z3.Bool("statistics_present_and_truthy")


class Field(H):
    """the value of s.<name> (when not None): an ARBITRARY bytes object (max / min / max_value / min_value) or int (the counts) -
    in particular possibly b'' / 0, which are falsy without being None"""

    def __init__(self, name):
        self.name = name

    def truth(self, eng, p):
        return z3.Not(FALSY[self.name])

    def is_none(self, eng, p):
        return z3.BoolVal(False)


class Decoded(H):
    """what the code derived from a statistics field: how = 'bytes' (ensure_bytes) | 'plain[0]' (read_plain(...)[0]) | 'plain'"""

    def __init__(self, name, how, args_ok=True):
        self.name, self.how, self.args_ok = name, how, args_ok

    def getitem(self, eng, p, i, node):
        if self.how == "plain" and isinstance(i, PyI) and z3.is_int_value(z3.simplify(i.z)) and z3.simplify(i.z).as_long() == 0:
            return Custom(Decoded(self.name, "plain[0]", self.args_ok))
        return Custom(Decoded(self.name, "other", False))


class PType(H):
    def eq(self, eng, p, other):
        if isinstance(other, Opaque) and str(other.tag).endswith("'BYTE_ARRAY')"):
            return IS_BA
        raise Unsupported("md.type compared with " + str(getattr(other, "tag", other)))


class StatsObj(H):
    def truth(self, eng, p):
        return HAS_STATS

    def is_none(self, eng, p):
        return z3.Not(HAS_STATS)

    def attr(self, eng, p, name):
        if name in FIELDS:
            if name in ("null_count", "distinct_count"):
                return Opt(ABSENT[name], Custom(Field(name)))
            return Opt(ABSENT[name], Custom(Field(name)))
        raise Unsupported("Statistics." + name)


class MetaData(H):
    def __init__(self):
        self.s = StatsObj()
        self.t = PType()

    def attr(self, eng, p, name):
        if name == "statistics":
            return Custom(self.s)
        if name == "type":
            return Custom(self.t)
        raise Unsupported("ColumnMetaData." + name)


class Chunk(H):
    def __init__(self):
        self.md = MetaData()

    def isinstance(self, eng, p, tn):
        return z3.BoolVal("ThriftObject" in tn)

    def attr(self, eng, p, name):
        if name == "thrift_name":
            return Str("ColumnChunk")
        if name == "meta_data":
            return Custom(self.md)
        raise Unsupported("ColumnChunk." + name)


def _field_of(v):
    if isinstance(v, Opt):
        v = v.val
    if isinstance(v, Custom) and isinstance(v.h, Field):
        return v.h.name
    return None


def check_statistics(ctx, funcs, timeout):
    fq = "api.statistics"
    res = Results()
    chunk = Chunk()

    def h_ensure_bytes(eng, p, args, kw, node):
        f = _field_of(args[0])
        return [(p, Custom(Decoded(f, "bytes") if f else Decoded("?", "other", False)))]

    def h_read_plain(eng, p, args, kw, node):
        src = args[0]
        f = src.h.name if isinstance(src, Custom) and isinstance(src.h, Decoded) and src.h.how == "bytes" else None
        a = list(args) + [None] * 3
        typ, cnt, stat = kw.get("type_", a[1]), kw.get("count", a[2]), kw.get("stat")
        ok = (f is not None and isinstance(typ, Custom) and typ.h is chunk.md.t
              and isinstance(cnt, PyI) and z3.is_true(z3.simplify(cnt.z == 1)) and isinstance(stat, PyB) and z3.is_true(z3.simplify(stat.z)))
        bad = p.fork()
        bad.ctl = ("raise", "Exception")
        bad.ghost["decode_failed"] = list(bad.ghost.get("decode_failed", [])) + [f]
        return [(p, Custom(Decoded(f or "?", "plain", ok))), (bad, Custom(Decoded("?", "other", False)))]
    handlers = {"ensure_bytes": h_ensure_bytes, "encoding.read_plain": h_read_plain, "read_plain": h_read_plain}
    eng = ListEngine(funcs=funcs, handlers=handlers, opaque_calls=False)
    outs = eng.run("statistics", Path(), [Custom(chunk)])
    res.add_engine_obligations(eng, "statistics.", timeout)
    n_ret = 0

    def mf(m):
        return {k: backends.model_value(m, v) for k, v in list((f"s.{f} is None", ABSENT[f]) for f in FIELDS) +
                list((f"s.{f} is b'' / 0", FALSY[f]) for f in FIELDS) + [("BYTE_ARRAY", IS_BA), ("statistics truthy", HAS_STATS)]}
    for q in outs:
        if q.ctl[0] != "ret":
            res.add("statistics.does_not_raise", REFUTED, {"raises": q.ctl[1]}, 0.0, "trace", "decoding errors are caught; statistics() does not raise")
            continue
        n_ret += 1
        rv = q.ctl[1]
        if not (isinstance(rv, Custom) and isinstance(rv.h, DictV)):
            res.add("statistics.returns_a_dict", REFUTED, None, 0.0, "trace")
            continue
        items = {k.s: v for k, v in rv.h.items(q) if isinstance(k, Str)}
        failed = q.ghost.get("decode_failed", [])
        base = list(q.pc)

        def ok_value(v, field):
            """v is what the property allows rv[...] to be when it has to come from `field`"""
            if isinstance(v, NoneV):
                return z3.BoolVal(field in failed)
            if isinstance(v, Custom) and isinstance(v.h, Decoded) and v.h.name == field and v.h.args_ok:
                return z3.If(IS_BA, z3.BoolVal(v.h.how == "bytes"), z3.BoolVal(v.h.how == "plain[0]"))
            return z3.BoolVal(False)
        goals = {"empty_when_no_statistics": z3.Implies(z3.Not(HAS_STATS), z3.BoolVal(not items))}
        for K in ("max", "min"):
            a1, a2 = ABSENT[K], ABSENT[K + "_value"]
            if K in items:
                g = z3.And(HAS_STATS, z3.Or(z3.And(z3.Not(a1), ok_value(items[K], K)),
                                            z3.And(a1, z3.Not(a2), ok_value(items[K], K + "_value"))))
            else:
                g = z3.Or(z3.Not(HAS_STATS), z3.And(a1, a2))
            goals[f"{K}_from_{K}_else_{K}_value"] = g
        for K in ("null_count", "distinct_count"):
            if K in items:
                g = z3.And(HAS_STATS, z3.Not(ABSENT[K]), z3.BoolVal(_field_of(items[K]) == K))
            else:
                g = z3.Or(z3.Not(HAS_STATS), ABSENT[K])
            goals[f"{K}_copied"] = g
        for K in ("max", "min"):
            goals[f"{K}_present_iff_field_not_None"] = z3.BoolVal(K in items) == z3.And(HAS_STATS, z3.Or(z3.Not(ABSENT[K]), z3.Not(ABSENT[K + "_value"])))
        for K in ("null_count", "distinct_count"):
            goals[f"{K}_present_iff_field_not_None"] = z3.BoolVal(K in items) == z3.And(HAS_STATS, z3.Not(ABSENT[K]))
        goals["no_other_keys"] = z3.BoolVal(set(items) <= {"max", "min", "null_count", "distinct_count"} and len(items) == len(rv.h.items(q)))
        details = {"max_from_max_else_max_value": "rv['max'] decoded (with the column's type) from s.max if set, else from s.max_value if set, else absent; None only if decoding raised",
                   "min_from_min_else_min_value": "rv['min'] decoded from s.min if set, else from s.min_value if set, else absent (never from a max field)",
                   "null_count_copied": "rv['null_count'] is s.null_count iff that is not None",
                   "distinct_count_copied": "rv['distinct_count'] is s.distinct_count iff that is not None",
                   "max_present_iff_field_not_None": "'max' in rv  <=>  s.max or s.max_value is not None - for ANY bytes value, including the empty string b''",
                   "min_present_iff_field_not_None": "'min' in rv  <=>  s.min or s.min_value is not None - for ANY bytes value, including the empty string b'' (minimum of a str column)",
                   "null_count_present_iff_field_not_None": "'null_count' in rv <=> s.null_count is not None (0 is a count, not an absence)",
                   "distinct_count_present_iff_field_not_None": "'distinct_count' in rv <=> s.distinct_count is not None",
                   "no_other_keys": "no key besides max / min / null_count / distinct_count",
                   "empty_when_no_statistics": "no statistics object => {}"}
        for nm, g in goals.items():
            st, m, secs = solve(base + [z3.Not(g)], timeout)
            res.add("statistics." + nm, st, dict(mf(m), returned={k: (type(v.h).__name__ + ":" + getattr(v.h, "name", "") + ":" + getattr(v.h, "how", "")) if isinstance(v, Custom) else type(v).__name__ for k, v in items.items()}) if m else None,
                    secs, detail=details[nm])
    ctx.vacuity["covers"] += n_ret
    if n_ret < 8:
        ctx.engine_error(f"statistics(ColumnChunk): only {n_ret} returning paths")
    # vacuity: some path returns a 'max' decoded from max_value (the else-branch is reachable)
    if any(q.ctl[0] == "ret" and any(isinstance(v, Custom) and isinstance(v.h, Decoded) and v.h.name == "max_value"
                                       for _, v in q.ctl[1].h.items(q)) and solve(list(q.pc), 2000)[0] == REFUTED
           for q in outs if isinstance(q.ctl[1], Custom) and isinstance(q.ctl[1].h, DictV)):
        ctx.vacuity["must_fail_sat"] += 1
    else:
        ctx.engine_error("statistics(ColumnChunk): no satisfiable path takes 'max' from max_value")
    return merge_and_record(ctx, fq, res)


def check(ctx, timeout):
    """-> list of (obligation name, model) refuted outside known findings"""
    funcs, _, _ = parse_module("fastparquet/api.py")
    for fn in ("sorted_partitioned_columns", "statistics"):
        ctx.function("api." + fn, funcs[fn].sha, funcs[fn].report)
    out = []
    for part in (check_sorted, check_statistics):
        try:
            out += list(part(ctx, funcs, timeout))
        except Unsupported as ex:
            ctx.obligation(f"{part.__name__.replace('check_', '')}.out_of_reach", "api." + ("statistics" if "stat" in part.__name__ else "sorted_partitioned_columns"),
                           UNKNOWN, "engine", 0.0, detail=str(ex), sample=True)
    return out
