"""C10 - the ThriftObject class of cencoding.pyx (+ from_buffer, dict_eq, parquet_thrift.__getattr__) under contract, from the
real .pyx source (vc.front_cy through contracts/cy.py).  This is the layer between the byte-level functions (c10_thrift.py /
c10_read.py) and the Python code of writer.py / api.py / util.py that builds and edits metadata.

MODEL.  Python objects are terms of an uninterpreted sort PyObj with `Kind` (None, bool, int, float, bytes, str, list, dict,
ThriftObject), `Val` (abstract value of a scalar / text), immutable lists (`ListLen`, `ListItem` - the class never mutates a
list), ThriftObjects with the four cdef attributes as functions (`thrift_name`, `thrift_spec`, `thrift_children`, `thrift_data`:
assigned once, in __init__ - obligation `class.fields_assigned_only_in_init`) and ONE MUTABLE HEAP OF DICTS
`H : PyObj -> (Key -> PyObj)` (absent key = the pseudo value <absent>; integer key k = 2k, string key = 2*sid+1).  Two handles are
the same dict iff the terms are equal, so sharing / copying / mutation through an alias are statements about H, posed on the whole
heap (`H' == Store(H, d, Store(H[d], key, v))`: a store anywhere else fails).  The tables `specs` / `children` are symbolic
(`SpecId`, `IsField`, `ChildType`, `HasChild`): every proof holds for any table content, the content itself is compared with the
IDL in c10_tables.py; `child_wrapping_type_is_idl_child[S.f]` instantiates the real tables per IDL child field.
Loops (from_fields, dict_eq, _asdict) run ONE ARBITRARY iteration with every assigned local and the dict being built arbitrary;
comprehensions run for one arbitrary index j (facts only for that j = universal direction); callee contracts as cuts:
write_thrift / read_thrift (c10_thrift.py, c10_read.py), copy.deepcopy, the recursive dict_eq call (structural induction).

OBLIGATIONS (names are what a VIOLATION reports); postconditions from the property text + compact protocol + IDL:
  init.binds_own_tables                         name, spec = specs[name], children = children.get(name), data = the dict given (shared)
  class.fields_assigned_only_in_init
  thriftobj.getattr_returns_field_under_spec_id     declared field: data.get(spec[item]) (the very object) / None when absent
  thriftobj.child_wrapping_shares_dict              child struct: a ThriftObject whose data IS the stored dict (no copy); list<struct>:
                                                    a list of the same length, element j wraps element j's dict
  thriftobj.child_wrapping_type_is_table_child      wrapper type == children[type][item], its own tables are those of that type
  thriftobj.child_wrapping_type_is_idl_child[S.f]   ... == the struct the IDL declares for S.f (real tables, every IDL child field)
  getattr.undeclared_name_raises_AttributeError / getattr.heap_unchanged
  setattr.stores_under_spec_id_and_nowhere_else     whole-heap frame
  setattr.unwraps_thrift_value_to_its_dict          ThriftObject -> its dict (shared), list of ThriftObjects -> list of their dicts
  setattr.unchecked_cast_is_ThriftObject            (safety, C12 too) `<ThriftObject>v` is an UNCHECKED cast: every list element must be one
  setattr.undeclared_name_raises_and_stores_nothing
  setattr.present_int_field_keeps_wire_type / setattr.new_int_field_gets_idl_wire_type   integer-width marker bookkeeping
  thriftobj.getattr_setattr_roundtrip[scalar|struct|list]
  thriftobj.mutation_through_wrapper_reaches_parent[struct|list]   rg.columns[j].meta_data.x = v reaches the parent's dicts
  callsites.no_inplace_mutation_of_getattr_list     (enumeration over the .py files) a list<struct> attribute is a NEW list per access
  delattr.* setitem.* getitem.* delitem.* get.*     raw-id access: exact heap effect
  from_fields.*                                     one arbitrary field stored under its id (unwrapped), frame, loop over own spec, markers
                                                    'i32' / 'i32list' stored exactly as given, result wraps the dict built, unknown kwarg
  copy.* deepcopy.* contents.* thrift_name.*
  to_bytes.returns_exactly_written_prefix / to_bytes.serialises_own_data_into_fresh_buffer
  from_buffer.wraps_read_thrift_result_in_named_type / from_buffer.without_name_returns_the_dict
  reduce.reconstructs_via_from_buffer_of_to_bytes / pickle.roundtrip_equal_under_hypotheses
  dict_eq.key_verdict_matches_spec / dict_eq.symmetric_per_key / dict_eq.list_elements_symmetric / dict_eq.marker_keys_immaterial /
  dict_eq.returns_True_iff_no_key_differs / eq.compares_data_dicts / eq.other_type_is_False
  asdict.one_entry_per_declared_field
"""
import ast
import itertools
import os
import time

import z3

from vc import backends

from spec import thrift_idl
from vc.symexec import (Engine, Path, CI, PyI, PyB, Ref, View, LoopSpec, Unsupported, NONE, NoneV, Opaque, Custom, Str, Tup, Opt,
                        BUILTINS, AbstractComp)
from vlib.common import REPO, PROVED, REFUTED, UNKNOWN
from . import cy
from .c10_tables import parse_tables, PY_FILES
from .kernels import KResults, post, mv
from .util import solve

ASSUMED = [
    "CPython dict / list semantics: d[k] = v stores one item, d.get / d.pop / del d[k] / d.copy() / `k in d` as documented; a list "
    "comprehension builds a NEW list with one element per element of the source; `x is None` identifies None",
    "the cdef attributes name / spec / children / data of a ThriftObject are private C fields: assigned only in __init__ (posed "
    "syntactically as class.fields_assigned_only_in_init), so the class invariant spec == specs[name], children == children.get(name), "
    "data is a dict holds for every instance (init.binds_own_tables proves __init__ establishes it)",
    "copy.deepcopy(d) returns a structure equal to d that shares no mutable object with it (library contract)",
    "write_thrift(data, o) / read_thrift(buf) behave as their byte-level contracts (c10_thrift.py, c10_read.py) state; the lifting from "
    "per-field lemmas to whole structures is argued there.  pickle.roundtrip_equal_under_hypotheses lists the hypotheses of that "
    "composition explicitly: no field id >= 14 present (finding C10-P-field-id-14-outside-loop), the serialisation fits the buffer "
    "to_bytes sized (C10-P-to-bytes-capacity), every integer field has the width its marker declares and none is i8/i16 "
    "(C10-narrow-int-written-as-i64, C10-P-i8-parsed-unsigned), equality of text fields is taken modulo str/bytes",
    "`==` on scalars: numbers compare by value (True == 1), bytes == bytes and str == str by content, str == bytes is False; no NaN "
    "occurs in metadata (parquet.thrift has no double field reachable from FileMetaData / PageHeader)",
    "dict_eq: the recursive call on a nested struct satisfies the same per-key specification and symmetry (structural induction on "
    "finite trees); metadata structures are finite trees (no dict is its own child)",
    "two structures compared / a value assigned follow the IDL shape of their field: struct <-> dict, list <-> list, binary <-> "
    "bytes or str, integer / bool / enum <-> int or bool (dict_eq on differently shaped values raises TypeError: outside the contract)",
]

# ------------------------------------------------------------------------------------------------
# object universe
# ------------------------------------------------------------------------------------------------
Obj = z3.DeclareSort("PyObj")
I, B = z3.IntSort(), z3.BoolSort()
Kind = z3.Function("Kind", Obj, I)
Val = z3.Function("Val", Obj, I)
LLen = z3.Function("ListLen", Obj, I)
LItem = z3.Function("ListItem", Obj, I, Obj)
TName = z3.Function("thrift_name", Obj, I)
TSpec = z3.Function("thrift_spec", Obj, I)
TChild = z3.Function("thrift_children", Obj, I)
TData = z3.Function("thrift_data", Obj, Obj)
IntObj = z3.Function("int_obj", I, Obj)
BoolObj = z3.Function("bool_obj", B, Obj)
StrObj = z3.Function("str_obj", I, Obj)
TypeStr = z3.Function("type_name_str", I, Obj)
Decode = z3.Function("bytes_decode", Obj, Obj)
TxtOf = z3.Function("utf8_text_of", I, I)
SLen = z3.Function("SizedLen", Obj, I)
Birth = z3.Function("Birth", Obj, I)
DeepEq = z3.Function("DeepEq", Obj, Obj, B)
DEQ = z3.Function("dict_eq_rec", Obj, Obj, B)
ListHasInt = z3.Function("ListHasInt", Obj, I, B)
# tables
IsStruct = z3.Function("IsStruct", I, B)
IsField = z3.Function("IsField", I, I, B)
SpecId = z3.Function("SpecId", I, I, I)
HasChild = z3.Function("HasChild", I, I, B)
ChildT = z3.Function("ChildType", I, I, I)
Idl32 = z3.Function("IdlDeclares32bit", I, I, B)
InKw = z3.Function("InKwargs", I, B)
KwVal = z3.Function("KwargValue", I, Obj)

K_NONE, K_BOOL, K_INT, K_FLOAT, K_BYTES, K_STR, K_LIST, K_DICT, K_THRIFT, K_ABSENT = range(10)
KNAMES = ["None", "bool", "int", "float", "bytes", "str", "list", "dict", "ThriftObject", "<absent>"]
NONEOBJ = z3.Const("NoneObj", Obj)
ABSENT = z3.Const("AbsentMark", Obj)
DictS = z3.ArraySort(I, Obj)
HeapS = z3.ArraySort(Obj, DictS)
BASE = [Kind(NONEOBJ) == K_NONE, Kind(ABSENT) == K_ABSENT]

_SID = {"i32": 0, "i32list": 1}


def sid_of(s):
    if s not in _SID:
        _SID[s] = len(_SID)
    return _SID[s]


def ikey(x):
    return 2 * x


def skey(s):
    return 2 * s + 1


KEY_I32, KEY_I32LIST = skey(z3.IntVal(0)), skey(z3.IntVal(1))


def real(t):
    """t is a real Python object (not the <absent> mark)"""
    return z3.And(Kind(t) >= K_NONE, Kind(t) <= K_THRIFT, LLen(t) >= 0, SLen(t) >= 0)


def nonelike(v):
    return z3.Or(v == ABSENT, Kind(v) == K_NONE)


def py_eq(a, b):
    """Python `a == b` on the modelled kinds"""
    ka, kb = Kind(a), Kind(b)
    num = lambda k: z3.Or(k == K_BOOL, k == K_INT, k == K_FLOAT)
    return z3.Or(a == b,
                 z3.And(num(ka), num(kb), Val(a) == Val(b)),
                 z3.And(ka == kb, z3.Or(ka == K_BYTES, ka == K_STR), Val(a) == Val(b)),
                 z3.And(ka == kb, z3.Or(ka == K_LIST, ka == K_DICT, ka == K_THRIFT), DeepEq(a, b)))


def Hof(p):
    return p.ghost["H"]


def dsel(p, d, key):
    return z3.Select(z3.Select(Hof(p), d), key)


def dstore(p, d, key, v):
    p.ghost["H"] = z3.Store(Hof(p), d, z3.Store(z3.Select(Hof(p), d), key, v))


def must(p, cond, timeout=800):
    s = z3.Solver()
    s.set("timeout", backends.scaled_timeout(timeout))
    s.add(*BASE)
    s.add(*p.pc)
    s.add(z3.Not(cond))
    return s.check() == z3.unsat


def may(p, cond, timeout=800):
    s = z3.Solver()
    s.set("timeout", backends.scaled_timeout(timeout))
    s.add(*BASE)
    s.add(*p.pc)
    s.add(cond)
    return s.check() != z3.unsat


_cnt = itertools.count()


def fresh_obj(eng, p, base, kind):
    """allocation: a NEW object - born now, so different from every object that existed before"""
    t = z3.Const(f"{base}!{next(eng.counter)}", Obj)
    clock = p.ghost.get("clock", 0) + 1
    p.ghost["clock"] = clock
    p.pc += [Kind(t) == kind, Birth(t) == clock]
    p.ghost["allocs"] = p.ghost.get("allocs", []) + [t]
    return t


def to_obj(eng, p, v):
    if isinstance(v, NoneV) or v is NONE:
        return NONEOBJ
    if isinstance(v, Custom) and isinstance(v.h, ObjV):
        return v.h.t
    if isinstance(v, PyB):
        t = BoolObj(v.z)
        p.pc += [Kind(t) == K_BOOL, Val(t) == z3.If(v.z, 1, 0)]
        return t
    if isinstance(v, (PyI, CI)):
        x = eng.as_int(v, p)
        t = IntObj(x)
        p.pc += [Kind(t) == K_INT, Val(t) == x]
        return t
    if isinstance(v, Str):
        t = StrObj(z3.IntVal(sid_of(v.s)))
        p.pc += [Kind(t) == K_STR, Val(t) == sid_of(v.s)]
        return t
    if isinstance(v, Opt):
        return z3.If(v.isnone, NONEOBJ, to_obj(eng, p, v.val))
    if isinstance(v, Custom) and isinstance(v.h, TypeNameV):
        t = TypeStr(v.h.tid)
        p.pc += [Kind(t) == K_STR]
        return t
    if isinstance(v, Custom) and isinstance(v.h, NameV):
        t = StrObj(v.h.sid)
        p.pc += [Kind(t) == K_STR, Val(t) == v.h.sid]
        return t
    if isinstance(v, Tup):
        t = fresh_obj(eng, p, "list_literal", K_LIST)
        p.pc.append(LLen(t) == len(v.items))
        for k, it in enumerate(v.items):
            p.pc.append(LItem(t, k) == to_obj(eng, p, it))
        return t
    if isinstance(v, Custom) and isinstance(v.h, SizedV):
        t = z3.Const(f"str_of!{next(eng.counter)}", Obj)
        p.pc += [Kind(t) == K_STR, SLen(t) == v.h.n]
        return t
    if isinstance(v, Opaque):
        key = ("obj", str(v.tag))
        if key not in p.opq:
            t = z3.Const(f"opaque_obj!{next(eng.counter)}", Obj)
            p.pc.append(real(t))
            p.opq[key] = t
        return p.opq[key]
    raise Unsupported(f"value of {type(v).__name__} ({type(getattr(v, 'h', None)).__name__}) stored as a Python object")


def to_key(eng, p, v):
    if isinstance(v, (PyI, CI)):
        return ikey(eng.as_int(v, p))
    if isinstance(v, PyB):
        return ikey(z3.If(v.z, 1, 0))
    if isinstance(v, Str):
        return skey(z3.IntVal(sid_of(v.s)))
    if isinstance(v, Custom) and isinstance(v.h, NameV):
        return skey(v.h.sid)
    if isinstance(v, Custom) and isinstance(v.h, KeyV):
        return v.h.k
    raise Unsupported(f"dict key of {type(v).__name__} ({type(getattr(v, 'h', None)).__name__})")


def raised(p, exc, node=None):
    q = p.fork()
    q.ctl = ("raise", exc)
    q.trace.append(("raise", getattr(node, "lineno", 0)))
    return q


def throw(eng, p, exc, node=None):
    """an exception leaves the expression being evaluated: the raising path is handed to the enclosing STATEMENT (TEngine.stmt), the
    expression itself continues on the non-raising path(s) only"""
    eng._alts.append(raised(p, exc, node))


def settle(eng, outs):
    """finished paths of an inlined callee -> [(path, value)] of the normal returns; its raising paths propagate to the statement"""
    res = []
    for r in outs:
        if isinstance(r.ctl, tuple) and r.ctl[0] == "ret":
            v = r.ctl[1]
            r.ctl = None
            res.append((r, v))
        else:
            eng._alts.append(r)
    return res


# ------------------------------------------------------------------------------------------------
# proof-script objects
# ------------------------------------------------------------------------------------------------
class TypeNameV:
    """a str that names a struct type"""
    tracked = False

    def __init__(self, tid):
        self.tid = tid

    def eq(self, eng, p, other):
        if isinstance(other, Str):
            return self.tid == TID(other.s)
        if isinstance(other, Custom) and isinstance(other.h, TypeNameV):
            return self.tid == other.h.tid
        if isinstance(other, Opt):
            return z3.And(z3.Not(other.isnone), self.eq(eng, p, other.val))
        return z3.BoolVal(False)

    def is_none(self, eng, p):
        return z3.BoolVal(False)

    def isinstance(self, eng, p, tn):
        return z3.BoolVal("str" in [x.strip() for x in tn.strip("()").split(",")])

    def truth(self, eng, p):
        return z3.BoolVal(True)


_TID = {}


def TID(name):
    """struct name -> type id (stable per run: position in the sorted table keys; unknown names get fresh negative ids)"""
    if name not in _TID:
        _TID[name] = -(len(_TID) + 2)
    return _TID[name]


class NameV:
    """an attribute / field name (a str): sid >= 0"""
    tracked = False

    def __init__(self, sid):
        self.sid = sid

    def eq(self, eng, p, other):
        if isinstance(other, Str):
            return self.sid == sid_of(other.s)
        if isinstance(other, Custom) and isinstance(other.h, NameV):
            return self.sid == other.h.sid
        return z3.BoolVal(False)

    def is_none(self, eng, p):
        return z3.BoolVal(False)

    def isinstance(self, eng, p, tn):
        return z3.BoolVal("str" in [x.strip() for x in tn.strip("()").split(",")])


class KeyV:
    """an arbitrary dict key (encoded: even = int, odd = str)"""
    tracked = False

    def __init__(self, k):
        self.k = k

    def isinstance(self, eng, p, tn):
        names = [x.strip() for x in tn.strip("()").split(",")]
        if "int" in names:
            return self.k % 2 == 0
        if "str" in names:
            return self.k % 2 == 1
        return z3.BoolVal(False)

    def eq(self, eng, p, other):
        try:
            return self.k == to_key(eng, p, other)
        except Unsupported:
            return z3.BoolVal(False)

    def is_none(self, eng, p):
        return z3.BoolVal(False)


class SpecsTable:
    """the module-level `specs`"""
    tracked = False

    def getitem_paths(self, eng, p, i, node):
        if isinstance(i, Opt):
            i = i.val
        if isinstance(i, Str):
            i = Custom(TypeNameV(z3.IntVal(TID(i.s))))
        if not (isinstance(i, Custom) and isinstance(i.h, TypeNameV)):
            raise Unsupported("specs[...] with a key that is not a type name")
        ok = IsStruct(i.h.tid)
        if may(p, z3.Not(ok)):
            throw(eng, p.fork(z3.Not(ok)), "KeyError", node)
        q = p.fork(ok)
        return [(q, Custom(SpecOf(i.h.tid)))]


class ChildrenTable:
    """the module-level `children`"""
    tracked = False

    def call_method(self, eng, p, name, args, kw, node):
        if name == "get":
            i = args[0].val if isinstance(args[0], Opt) else args[0]
            if isinstance(i, Str):
                i = Custom(TypeNameV(z3.IntVal(TID(i.s))))
            if isinstance(i, Custom) and isinstance(i.h, TypeNameV):
                return [(p, Custom(ChildrenOf(i.h.tid)))]
        raise Unsupported("children." + name)


class SpecOf:
    """specs[T]: field name -> id"""
    tracked = False

    def __init__(self, tid):
        self.tid = tid

    def contains(self, eng, p, item):
        if isinstance(item, Custom) and isinstance(item.h, NameV):
            return IsField(self.tid, item.h.sid)
        if isinstance(item, Str):
            return IsField(self.tid, z3.IntVal(sid_of(item.s)))
        raise Unsupported("`in spec` of a non-name")

    def getitem_paths(self, eng, p, i, node):
        if isinstance(i, Str):
            i = Custom(NameV(z3.IntVal(sid_of(i.s))))
        if not (isinstance(i, Custom) and isinstance(i.h, NameV)):
            raise Unsupported("spec[...] with a key that is not a name")
        ok = IsField(self.tid, i.h.sid)
        out = []
        if may(p, z3.Not(ok)):
            throw(eng, p.fork(z3.Not(ok)), "KeyError", node)
        if may(p, ok):
            q = p.fork(ok)
            out.append((q, spec_id_value(q, self.tid, i.h.sid)))
        return out

    def call_method(self, eng, p, name, args, kw, node):
        if name == "items" and not args:
            return [(p, Custom(SpecItems(self.tid)))]
        raise Unsupported("spec." + name)

    def is_none(self, eng, p):
        return z3.BoolVal(False)


def spec_id_value(p, tid, sid):
    x = SpecId(tid, sid)
    p.pc += [x >= 1, x <= 32767]           # a field id (table invariant: checked against the IDL in c10_tables)
    return CI(z3.Int2BV(x, 32), 32, True, x, (1, 32767))


class SpecItems:
    tracked = False

    def __init__(self, tid):
        self.tid = tid


class ChildrenOf:
    """children.get(T, {}): field name -> child struct name"""
    tracked = False

    def __init__(self, tid):
        self.tid = tid

    def _sid(self, item):
        if isinstance(item, Custom) and isinstance(item.h, NameV):
            return item.h.sid
        if isinstance(item, Str):
            return z3.IntVal(sid_of(item.s))
        raise Unsupported("children key that is not a name")

    def contains(self, eng, p, item):
        return HasChild(self.tid, self._sid(item))

    def call_method(self, eng, p, name, args, kw, node):
        if name == "get" and len(args) == 1:
            s = self._sid(args[0])
            return [(p, Opt(z3.Not(HasChild(self.tid, s)), Custom(TypeNameV(ChildT(self.tid, s)))))]
        raise Unsupported("children[T]." + name)

    def is_none(self, eng, p):
        return z3.BoolVal(False)


class KwArgs:
    """**kwargs of from_fields: membership and value per name"""
    tracked = False

    def contains(self, eng, p, item):
        if isinstance(item, Custom) and isinstance(item.h, NameV):
            return InKw(item.h.sid)
        raise Unsupported("`in kwargs` of a non-name")

    def getitem_paths(self, eng, p, i, node):
        if not (isinstance(i, Custom) and isinstance(i.h, NameV)):
            raise Unsupported("kwargs[...]")
        ok = InKw(i.h.sid)
        out = []
        if may(p, z3.Not(ok)):
            throw(eng, p.fork(z3.Not(ok)), "KeyError", node)
        q = p.fork(ok)
        t = KwVal(i.h.sid)
        q.pc.append(real(t))
        out.append((q, Custom(ObjV(t))))
        return out


class KeySetV:
    """set(d1).union(d2): the keys of the dicts"""
    tracked = False

    def __init__(self, dicts):
        self.dicts = dicts

    def call_method(self, eng, p, name, args, kw, node):
        if name == "union" and len(args) == 1:
            return [(p, Custom(KeySetV(self.dicts + [to_obj(eng, p, args[0])])))]
        raise Unsupported("set." + name)


class ZipV:
    """zip(l1, l2): element j of both"""
    tracked = False

    def __init__(self, a, b):
        self.a, self.b = a, b
        self.j = None

    def arbitrary(self, eng, p):
        j = z3.Int(f"zip_j!{next(eng.counter)}")
        self.j = j
        p.ghost["zip_j"] = j
        x, y = LItem(self.a, j), LItem(self.b, j)
        p.pc += [real(x), real(y)]
        return Tup([Custom(ObjV(x)), Custom(ObjV(y))])

    def rng(self):
        return z3.And(self.j >= 0, self.j < LLen(self.a), self.j < LLen(self.b))


class BufV:
    """np.empty(n, 'uint8')"""
    tracked = False

    def __init__(self, n):
        self.n = n


class BytesOf:
    """bytes(view) / an input byte string"""
    tracked = False

    def __init__(self, view=None, tag=None):
        self.view, self.tag = view, tag

    def isinstance(self, eng, p, tn):
        return z3.BoolVal("bytes" in [x.strip() for x in tn.strip("()").split(",")])

    def is_none(self, eng, p):
        return z3.BoolVal(False)


class SizedV:
    """str(x): only its length is used"""
    tracked = False

    def __init__(self, n):
        self.n = n

    def len(self, eng, p):
        return PyI(self.n)


KIND_BY_NAME = {"ThriftObject": [K_THRIFT], "list": [K_LIST], "dict": [K_DICT], "bytes": [K_BYTES], "str": [K_STR],
                "int": [K_INT, K_BOOL], "bool": [K_BOOL], "float": [K_FLOAT]}


class ObjV:
    """a Python object (term of sort PyObj)"""
    tracked = False

    def __init__(self, t):
        self.t = t

    # ---- tests ----
    def is_none(self, eng, p):
        return Kind(self.t) == K_NONE

    def isinstance(self, eng, p, tn):
        names = [x.strip() for x in tn.strip("()").split(",")]
        ks = []
        for n in names:
            if n not in KIND_BY_NAME:
                if n == "NumpyIO":
                    continue
                raise Unsupported("isinstance(..., %s)" % n)
            ks += KIND_BY_NAME[n]
        return z3.Or(*[Kind(self.t) == k for k in ks]) if ks else z3.BoolVal(False)

    def truth(self, eng, p):
        k = Kind(self.t)
        return z3.If(k == K_NONE, False,
                     z3.If(z3.Or(k == K_BOOL, k == K_INT), Val(self.t) != 0,
                           z3.If(k == K_LIST, LLen(self.t) > 0,
                                 z3.If(k == K_THRIFT, True, SLen(self.t) > 0))))

    def len(self, eng, p):
        eng.oblige(p, f"{eng.cur_func}.len_of_sized_object", "safety",
                   z3.Or(*[Kind(self.t) == k for k in (K_LIST, K_DICT, K_BYTES, K_STR)]), None, "len() of None / a number is a TypeError")
        p.pc += [LLen(self.t) >= 0, SLen(self.t) >= 0]
        return PyI(z3.If(Kind(self.t) == K_LIST, LLen(self.t), SLen(self.t)))

    def eq(self, eng, p, other):
        return py_eq(self.t, to_obj(eng, p, other))

    def contains(self, eng, p, item):
        # `key in dict`
        return dsel(p, self.t, to_key(eng, p, item)) != ABSENT

    # ---- dispatch on the run-time class ----
    def classes(self, eng, p, cands):
        """[(path, kind)] for the kinds of `cands` this object can have on p (forks when several are possible)"""
        for k in cands:
            if must(p, Kind(self.t) == k):
                return [(p, k)]
        out = []
        for k in cands:
            if may(p, Kind(self.t) == k):
                out.append((p.fork(Kind(self.t) == k), k))
        rest = z3.And(*[Kind(self.t) != k for k in cands])
        if may(p, rest):
            out.append((p.fork(rest), None))
        return out

    def attr(self, eng, p, name):
        if name == "data":
            t = TData(self.t)
            return Custom(ObjV(t))
        if name == "name":
            return Custom(TypeNameV(TName(self.t)))
        if name == "spec":
            return Custom(SpecOf(TSpec(self.t)))
        if name == "children":
            return Custom(ChildrenOf(TChild(self.t)))
        f = eng.funcs.get("ThriftObject." + name)
        if f is not None and "@property" in f.report.get("decorators_dropped", []):
            outs = eng.run(f.qualname, p, [Custom(self)])
            if len(outs) != 1 or outs[0].ctl[0] != "ret":
                raise Unsupported("forking property " + name)
            v = outs[0].ctl[1]
            outs[0].ctl = None
            return v
        raise Unsupported("attribute ." + name + " of a Python object")

    def setattr(self, eng, p, name, v):
        # only __init__ assigns the cdef attributes, once, on the object being constructed
        done = p.ghost.setdefault("assigned", [])
        key = (str(self.t), name)
        if key in done or str(self.t) not in [str(a) for a in p.ghost.get("allocs", [])]:
            raise Unsupported(f"cdef attribute .{name} assigned outside construction / twice")
        p.ghost["assigned"] = done + [key]
        if isinstance(v, Opt):
            eng.oblige(p, f"{eng.cur_func}.attribute_value_not_None", "safety", z3.Not(v.isnone), None)
            v = v.val
        if name == "name":
            if not (isinstance(v, Custom) and isinstance(v.h, TypeNameV)):
                raise Unsupported(".name = non type name")
            p.pc.append(TName(self.t) == v.h.tid)
        elif name == "spec":
            if not (isinstance(v, Custom) and isinstance(v.h, SpecOf)):
                raise Unsupported(".spec = something that is not specs[...]")
            p.pc.append(TSpec(self.t) == v.h.tid)
        elif name == "children":
            if not (isinstance(v, Custom) and isinstance(v.h, ChildrenOf)):
                raise Unsupported(".children = something that is not children.get(...)")
            p.pc.append(TChild(self.t) == v.h.tid)
        elif name == "data":
            p.pc.append(TData(self.t) == to_obj(eng, p, v))
        else:
            raise Unsupported("attribute store ." + name)

    def call_method(self, eng, p, name, args, kw, node):
        out = []
        for q, k in self.classes(eng, p, [K_THRIFT, K_DICT, K_BYTES, K_LIST]):
            if k == K_THRIFT:
                if ("ThriftObject." + name) not in eng.funcs:
                    throw(eng, q, "AttributeError", node)
                    continue
                if name == "_asdict" and eng.cur_func == "ThriftObject._asdict":
                    # recursion on a child: by the same contract (structural induction) - a new dict
                    n = fresh_obj(eng, q, "child_asdict", K_DICT)
                    q.ghost["asdict_calls"] = q.ghost.get("asdict_calls", []) + [(self.t, n)]
                    out.append((q, Custom(ObjV(n))))
                    continue
                out += settle(eng, eng.run("ThriftObject." + name, q, [Custom(self)] + list(args), kw))
            elif k == K_DICT:
                out += self.dict_method(eng, q, name, args, kw, node)
            elif k == K_BYTES and name == "decode":
                t = Decode(self.t)
                q.pc += [Kind(t) == K_STR, Val(t) == TxtOf(Val(self.t))]
                out.append((q, Custom(ObjV(t))))
            else:
                throw(eng, q, "AttributeError", node)
        return out

    def dict_method(self, eng, p, name, args, kw, node):
        d = self.t
        if name == "get":
            key = to_key(eng, p, args[0])
            dflt = to_obj(eng, p, args[1]) if len(args) > 1 else NONEOBJ
            v = dsel(p, d, key)
            p.pc.append(z3.Or(v == ABSENT, real(v)))
            return [(p, Custom(ObjV(z3.If(v == ABSENT, dflt, v))))]
        if name == "pop" and len(args) == 1:
            key = to_key(eng, p, args[0])
            v = dsel(p, d, key)
            out = []
            if may(p, v == ABSENT):
                throw(eng, p.fork(v == ABSENT), "KeyError", node)
            if may(p, v != ABSENT):
                q = p.fork(v != ABSENT)
                q.pc.append(real(v))
                dstore(q, d, key, ABSENT)
                out.append((q, Custom(ObjV(v))))
            return out
        if name == "copy" and not args:
            n = fresh_obj(eng, p, "dict_copy", K_DICT)
            p.ghost["H"] = z3.Store(Hof(p), n, z3.Select(Hof(p), d))
            return [(p, Custom(ObjV(n)))]
        raise Unsupported("dict." + name)

    # ---- subscripts (may raise: paths) ----
    def getitem_paths(self, eng, p, i, node):
        out = []
        for q, k in self.classes(eng, p, [K_THRIFT, K_DICT, K_LIST]):
            if k == K_THRIFT:
                out += settle(eng, eng.run("ThriftObject.__getitem__", q, [Custom(self), i]))
            elif k == K_DICT:
                key = to_key(eng, q, i)
                v = dsel(q, self.t, key)
                if may(q, v == ABSENT):
                    throw(eng, q.fork(v == ABSENT), "KeyError", node)
                if may(q, v != ABSENT):
                    r = q.fork(v != ABSENT)
                    r.pc.append(real(v))
                    out.append((r, Custom(ObjV(v))))
            elif k == K_LIST:
                j = eng.as_int(i, q)
                inr = z3.And(j >= -LLen(self.t), j < LLen(self.t))
                if may(q, z3.Not(inr)):
                    throw(eng, q.fork(z3.Not(inr)), "IndexError", node)
                if may(q, inr):
                    r = q.fork(inr)
                    x = LItem(self.t, z3.If(j < 0, j + LLen(self.t), j))
                    r.pc.append(real(x))
                    out.append((r, Custom(ObjV(x))))
            else:
                throw(eng, q, "TypeError", node)
        return out

    def setitem(self, eng, p, i, v, node=None):
        if not must(p, Kind(self.t) == K_DICT):
            raise Unsupported("subscript store on an object that is not known to be a dict")
        dstore(p, self.t, to_key(eng, p, i), to_obj(eng, p, v))

    def delitem_paths(self, eng, p, i, node):
        if not must(p, Kind(self.t) == K_DICT):
            raise Unsupported("del on an object that is not known to be a dict")
        key = to_key(eng, p, i)
        v = dsel(p, self.t, key)
        out = []
        if may(p, v == ABSENT):
            out.append(raised(p.fork(v == ABSENT), "KeyError", node))
        if may(p, v != ABSENT):
            q = p.fork(v != ABSENT)
            dstore(q, self.t, key, ABSENT)
            out.append(q)
        return out


# ------------------------------------------------------------------------------------------------
# engine
# ------------------------------------------------------------------------------------------------
class TEngine(Engine):
    """adds: exceptions out of expressions (KeyError / IndexError / AttributeError of the modelled objects, exceptions of inlined
    callees): the raising path leaves the expression and re-appears as an outcome of the enclosing STATEMENT (so `try/except`, loops
    and the caller see it where Python does); `del d[k]`, `{}` as a heap dict, `type(self)(...)`, the unchecked Cython cast
    `<ThriftObject>v` as a safety obligation, **kwargs as a proof-script object"""
    kwargs_obj = None

    def __init__(self, *a, **k):
        super().__init__(*a, **k)
        self._alts = []

    def stmt(self, st, p):
        saved, self._alts = self._alts, []
        try:
            outs = super().stmt(st, p)
            alts = self._alts
        finally:
            self._alts = saved
        return outs + alts

    def call_named(self, name, selfobj, e, p):
        out = []
        for q, v in super().call_named(name, selfobj, e, p):
            if q.ctl is not None:
                self._alts.append(q)          # an inlined callee raised
            else:
                out.append((q, v))
        return out

    def s_Delete(self, st, p):
        live = [p]
        for t in st.targets:
            if not isinstance(t, ast.Subscript):
                raise Unsupported("del of a non-subscript")
            nxt = []
            for q0 in live:
                if q0.ctl is not None:
                    nxt.append(q0)
                    continue
                for q, o in self.ev(t.value, q0):
                    for r, i in self.ev(t.slice, q):
                        if isinstance(o, Custom) and hasattr(o.h, "delitem_paths"):
                            nxt += o.h.delitem_paths(self, r, i, st)
                        else:
                            raise Unsupported("del on " + type(o).__name__)
            live = nxt
        return live

    def e_Subscript(self, e, p):
        if isinstance(e.slice, ast.Slice):
            return super().e_Subscript(e, p)
        out = []
        for q, o in self.ev(e.value, p):
            for r, i in self.ev(e.slice, q):
                if isinstance(o, Custom) and hasattr(o.h, "getitem_paths"):
                    out += o.h.getitem_paths(self, r, i, e)
                else:
                    out.append((r, self.load_sub(o, i, r, e)))
        return out

    def e_Dict(self, e, p):
        if e.keys:
            raise Unsupported("dict literal")
        n = fresh_obj(self, p, "new_dict", K_DICT)
        p.ghost["H"] = z3.Store(Hof(p), n, z3.K(I, ABSENT))
        return [(p, Custom(ObjV(n)))]

    def e_Call(self, e, p):
        fn = e.func
        if isinstance(fn, ast.Call) and isinstance(fn.func, ast.Name) and fn.func.id == "type" and len(fn.args) == 1:
            # type(self)(...): the class is final (@cython.final), type(self) is ThriftObject
            out = []
            for q, o in self.ev(fn.args[0], p):
                if not (isinstance(o, Custom) and isinstance(o.h, ObjV) and must(q, Kind(o.h.t) == K_THRIFT)):
                    raise Unsupported("type(x)(...) of something that is not a ThriftObject")
                for r, (args, kw) in self.ev_args(e, q):
                    out += self.handlers["ThriftObject"](self, r, args, kw, e)
            return out
        return super().e_Call(e, p)

    def cast(self, t, v, p, node):
        if " ".join(t.split()) == "ThriftObject":
            if isinstance(v, Custom) and isinstance(v.h, ObjV):
                g = Kind(v.h.t) == K_THRIFT
                self.oblige(p, f"{self.cur_func}.unchecked_cast_is_ThriftObject@L{getattr(node, 'lineno', 0)}", "safety", g, node,
                            "`<ThriftObject>v` is an unchecked cast in Cython: .data of anything else reads a foreign object's memory")
                p.pc.append(g)          # assert, then assume: the rest of the path describes the defined behaviour
                return v
            raise Unsupported("cast of " + type(v).__name__ + " to ThriftObject")
        return super().cast(t, v, p, node)

    def bind_params(self, f, p, args, kwargs):
        super().bind_params(f, p, args, kwargs)
        if f.tree.args.kwarg and self.kwargs_obj is not None:
            p.env[f.tree.args.kwarg.arg] = self.kwargs_obj


def h_thriftobject(eng, p, args, kw, node):
    """ThriftObject(name, indict): allocate, run the real __init__"""
    if len(args) != 2:
        raise Unsupported("ThriftObject(...) arity")
    w = fresh_obj(eng, p, "thrift_obj", K_THRIFT)
    return [(r, Custom(ObjV(w))) for r, _ in settle(eng, eng.run("ThriftObject.__init__", p, [Custom(ObjV(w)), args[0], args[1]]))]


def h_isinstance(eng, p, args, kw, node):
    v = args[0]
    tn = ast.unparse(node.args[1])
    if isinstance(v, Ref):
        return [(p, PyB(v.cls in [x.strip() for x in tn.strip("()").split(",")]))]
    if isinstance(v, Opt) and isinstance(v.val, Custom) and hasattr(v.val.h, "isinstance"):
        return [(p, PyB(z3.And(z3.Not(v.isnone), v.val.h.isinstance(eng, p, tn))))]
    return BUILTINS["isinstance"](eng, p, args, kw, node)


def h_getattr(eng, p, args, kw, node):
    o, name = args[0], args[1]
    if isinstance(o, Custom) and isinstance(o.h, ObjV) and must(p, Kind(o.h.t) == K_THRIFT):
        return settle(eng, eng.run("ThriftObject.__getattr__", p, [o, name]))
    raise Unsupported("getattr() of a non ThriftObject")


def h_str(eng, p, args, kw, node):
    n = eng.fresh_int("len_of_str")
    p.pc.append(n >= 0)
    p.ghost["str_of"] = p.ghost.get("str_of", []) + [(args[0], n)]
    return [(p, Custom(SizedV(n)))]


def h_listcomp(eng, p, e):
    """[elt for v in <list object>]: one arbitrary index J; the result is a NEW list of the same length whose element J is elt(J).
    (... for a, b in zip(l1, l2)): the engine's abstract comprehension, its guard restricted to the common index range"""
    if len(e.generators) != 1 or e.generators[0].ifs:
        return None
    g = e.generators[0]
    if isinstance(g.iter, ast.Call) and isinstance(g.iter.func, ast.Name) and g.iter.func.id == "zip":
        n0 = len(p.pc)
        inner = Engine.comp(eng, e, p, 0, [])
        preds, z = [], None
        for r, v in inner:
            if isinstance(v, Custom) and isinstance(v.h, AbstractComp) and isinstance(v.h.coll, Custom) and isinstance(v.h.coll.h, ZipV):
                z = v.h.coll.h
                v.h.guard = z3.And(v.h.guard, z.rng())
                preds.append((list(r.pc[n0:]), eng.truth(v.h.elt, r)))
        for r, v in inner:
            r.ghost["zip_pred"] = (z, preds)
        return inner
    res = []
    for q, coll in eng.ev(g.iter, p):
        if not (isinstance(coll, Custom) and isinstance(coll.h, ObjV)):
            raise Unsupported("comprehension over " + type(getattr(coll, "h", coll)).__name__)
        src = coll.h.t
        if not must(q, Kind(src) == K_LIST):
            raise Unsupported("comprehension over an object that is not known to be a list")
        q.pc.append(LLen(src) >= 0)
        if may(q, LLen(src) == 0):
            r = q.fork(LLen(src) == 0)
            n = fresh_obj(eng, r, "new_list", K_LIST)
            r.pc.append(LLen(n) == 0)
            r.ghost["comps"] = r.ghost.get("comps", []) + [(n, src, None)]
            res.append((r, Custom(ObjV(n))))
        if may(q, LLen(src) > 0):
            r = q.fork(LLen(src) > 0)
            j = J
            x = LItem(src, j)
            r.pc += [j >= 0, j < LLen(src), real(x)]
            for r2 in eng.assign(g.target, Custom(ObjV(x)), r):
                for r3, v in eng.ev(e.elt, r2):
                    n = fresh_obj(eng, r3, "new_list", K_LIST)
                    r3.pc += [LLen(n) == LLen(src), LItem(n, j) == to_obj(eng, r3, v)]
                    r3.ghost["comps"] = r3.ghost.get("comps", []) + [(n, src, j)]
                    res.append((r3, Custom(ObjV(n))))
    return res


# ONE Skolem index for every list-to-list comprehension of a run: each comprehension's fact holds for EVERY in-range index, so
# instantiating all of them at the same arbitrary J is sound; goals about element J of a mapped list then compose across calls
J = z3.Int("J")


def h_zip(eng, p, args, kw, node):
    if len(args) != 2:
        raise Unsupported("zip arity")
    a, b = to_obj(eng, p, args[0]), to_obj(eng, p, args[1])
    return [(p, Custom(ZipV(a, b)))]


def h_set(eng, p, args, kw, node):
    return [(p, Custom(KeySetV([to_obj(eng, p, args[0])])))]


def new_engine(loops=None, handlers=None):
    hs = {"ThriftObject": h_thriftobject, "isinstance": h_isinstance, "getattr": h_getattr, "str": h_str, "listcomp": h_listcomp,
          "zip": h_zip, "set": h_set}
    hs.update(handlers or {})
    funcs, fields, consts = cy.load()
    eng = TEngine(funcs=funcs, inline=("*",), loops=loops or {}, handlers=hs)
    eng.class_fields = fields
    eng.consts["specs"] = Custom(SpecsTable())
    eng.consts["children"] = Custom(ChildrenTable())
    return eng


def new_path():
    p = Path()
    p.ghost["H"] = z3.Const("heap0", HeapS)
    p.ghost["clock"] = 0
    p.pc += list(BASE)
    return p


def thrift_input(p, name, tid=None):
    """an existing ThriftObject satisfying the class invariant; -> (term, its data dict term, type id)"""
    s = z3.Const(name, Obj)
    t = z3.Int(name + "_type") if tid is None else tid
    d = TData(s)
    p.pc += [Kind(s) == K_THRIFT, TName(s) == t, TSpec(s) == t, TChild(s) == t, IsStruct(t), Kind(d) == K_DICT, Birth(s) <= 0, Birth(d) <= 0]
    return s, d, t


def inv_thrift(w, t=None):
    """class invariant of the ThriftObject w (of type t)"""
    cs = [Kind(w) == K_THRIFT, TSpec(w) == TName(w), TChild(w) == TName(w)]
    if t is not None:
        cs.append(TName(w) == t)
    return z3.And(*cs)


def kname(m, t):
    v = mv(m, Kind(t))
    try:
        return KNAMES[int(str(v))]
    except Exception:
        return str(v)


def rets(outs):
    return [q for q in outs if isinstance(q.ctl, tuple) and q.ctl[0] == "ret"]


def raises(outs, exc=None):
    return [q for q in outs if isinstance(q.ctl, tuple) and q.ctl[0] == "raise" and (exc is None or q.ctl[1] == exc)]


def obj_of(q):
    """the PyObj term of a returning path's value (None when it is not an object)"""
    v = q.ctl[1]
    if isinstance(v, NoneV) or v is NONE:
        return NONEOBJ
    if isinstance(v, Custom) and isinstance(v.h, ObjV):
        return v.h.t
    return None


def pcx(q):
    return list(BASE) + list(q.pc) + list(q.axioms)


def heap_same(q, Hexp, keep=()):
    """the heap of q equals Hexp up to the content of objects allocated during the run (a fresh `{}` default argument, a new dict:
    unreachable from the pre-state) - EXCEPT the objects in `keep` (the dict a function builds: its content is what is claimed)"""
    Hq = Hof(q)
    ks = [str(k) for k in keep]
    for n in q.ghost.get("allocs", []):
        if str(n) not in ks:
            Hq = z3.Store(Hq, n, z3.Select(Hexp, n))
    return Hq == Hexp


def requires_sat(res, name, paths, timeout=3000):
    """vacuity guard: the precondition + path condition of at least one path reaching the postconditions is satisfiable"""
    ok = any(solve(pcx(q), timeout)[0] == REFUTED for q in paths)
    res.addk(name + ".requires_sat", "functional", PROVED if ok else UNKNOWN, None, 0.0, "z3", "precondition and path condition are satisfiable (not vacuous)")


def guard(res, name, n, what):
    if n == 0:
        res.addk(name, "functional", UNKNOWN, None, 0.0, "engine", "no path reaches this obligation (vacuity guard): " + what)


# ------------------------------------------------------------------------------------------------
# tables of the real .pyx (type ids, the per-(S, f) ground facts)
# ------------------------------------------------------------------------------------------------
def load_tables():
    text = open(os.path.join(REPO, "fastparquet", "cencoding.pyx")).read()
    specs, children = parse_tables(text)
    _TID.clear()
    for k, name in enumerate(sorted(specs)):
        _TID[name] = k
    return specs, children


def table_inv(t, sid):
    """invariant of the two tables: a child entry belongs to a declared field and names a struct of `specs` (compared with the
    IDL by tables.children_match_idl / tables.ids_match_idl)"""
    return z3.Implies(HasChild(t, sid), z3.And(IsField(t, sid), IsStruct(ChildT(t, sid))))


def data_keys_inv(H, d, s):
    """the data dict of a ThriftObject has integer keys and the two marker keys only (what read_thrift / from_fields build)"""
    return z3.Implies(s >= 2, z3.Select(z3.Select(H, d), skey(s)) == ABSENT)


def rename(eng, mapping):
    for ob in eng.oblig:
        n = ob.name.split("@L")[0]
        for a, b in mapping.items():
            n = n.replace(a, b)
        ob.name = "x." + n


def run_method(eng, name, p, args, kw=None):
    return eng.run("ThriftObject." + name, p, args, kw or {})


def unwrapped(value, R=None):
    """what __setattr__ / from_fields must store for `value`"""
    return z3.If(Kind(value) == K_THRIFT, TData(value), value) if R is None else R


# ------------------------------------------------------------------------------------------------
# __init__, class fields
# ------------------------------------------------------------------------------------------------
def check_init(timeout):
    res = KResults()
    funcs, fields, _ = cy.load()
    bad = []
    for qn, f in funcs.items():
        if qn == "ThriftObject.__init__":
            continue
        for n in ast.walk(f.tree):
            if isinstance(n, ast.Attribute) and isinstance(n.ctx, (ast.Store, ast.Del)) and n.attr in fields.get("ThriftObject", {}) and \
                    (qn.startswith("ThriftObject.") or qn in ("from_buffer", "dict_eq")):
                bad.append(f"{qn}:L{n.lineno}:.{n.attr}")
    res.addk("class.fields_assigned_only_in_init", "functional", PROVED if not bad else REFUTED, {"stores": bad} if bad else None, 0.0, "ast",
             "name / spec / children / data are assigned in __init__ only (they are C fields: Python code cannot reach them)")
    eng = new_engine()
    p = new_path()
    t, d = z3.Int("type_name"), z3.Const("indict", Obj)
    p.pc += [IsStruct(t), Kind(d) == K_DICT, Birth(d) <= 0]
    H0 = Hof(p)
    mf = lambda m: {"type": mv(m, t)}
    try:
        outs = h_thriftobject(eng, p, [Custom(TypeNameV(t)), Custom(ObjV(d))], {}, None)
    except Unsupported as ex:
        res.addk("init.out_of_reach", "functional", UNKNOWN, None, 0.0, "engine", str(ex))
        return res
    n = 0
    for q in eng._alts:
        post(res, "init.binds_own_tables", pcx(q), z3.BoolVal(False), timeout, "a declared type name must not raise", mf)
    eng._alts = []
    for q, v in outs:
        n += 1
        w = v.h.t
        post(res, "init.binds_own_tables", pcx(q), z3.And(TName(w) == t, TSpec(w) == t, TChild(w) == t, TData(w) == d, heap_same(q, H0)), timeout,
             "name == the name given, spec == specs[name], children == children.get(name, {}), data IS the dict given (no copy), no dict touched", mf)
    guard(res, "init.binds_own_tables", n, "__init__ returns")
    rename(eng, {"ThriftObject.__init__.": "init."})
    res.take_engine(eng, "", timeout, mf)
    return res


# ------------------------------------------------------------------------------------------------
# __getattr__
# ------------------------------------------------------------------------------------------------
def _getattr_goals(q, r, v, t, sid):
    """(field goal, sharing goal, type goal) for a returning path of __getattr__ on a declared field whose stored value is v"""
    ch = ChildT(t, sid)
    comps = q.ghost.get("comps", [])
    wrapped = z3.And(HasChild(t, sid), z3.Or(Kind(v) == K_DICT, Kind(v) == K_LIST))
    plain = z3.And(z3.Not(nonelike(v)), z3.Not(wrapped))
    g_field = z3.And(z3.Implies(nonelike(v), Kind(r) == K_NONE), z3.Implies(plain, r == v))
    g_dict_share = z3.Implies(z3.And(HasChild(t, sid), Kind(v) == K_DICT), z3.And(Kind(r) == K_THRIFT, TData(r) == v))
    g_dict_type = z3.Implies(z3.And(HasChild(t, sid), Kind(v) == K_DICT), z3.And(TName(r) == ch, inv_thrift(r)))
    if comps:
        n, src, j = comps[-1]
        if j is None:
            g_list_share = z3.And(r == n, src == v, LLen(r) == 0, LLen(v) == 0)
            g_list_type = z3.BoolVal(True)
        else:
            x, y = LItem(v, j), LItem(r, j)
            g_list_share = z3.And(r == n, src == v, Kind(r) == K_LIST, LLen(r) == LLen(v),
                                  z3.If(Kind(x) == K_DICT, z3.And(Kind(y) == K_THRIFT, TData(y) == x), y == x))
            g_list_type = z3.Implies(Kind(x) == K_DICT, z3.And(TName(y) == ch, inv_thrift(y)))
    else:
        g_list_share = g_list_type = z3.BoolVal(False)
    is_list = z3.And(HasChild(t, sid), Kind(v) == K_LIST)
    return (g_field, z3.And(g_dict_share, z3.Implies(is_list, g_list_share)), z3.And(g_dict_type, z3.Implies(is_list, g_list_type)))


def check_getattr(timeout):
    res = KResults()
    specs, children = load_tables()
    eng = new_engine()
    p = new_path()
    s, sd, t = thrift_input(p, "self")
    sid = z3.Int("item")
    k2 = z3.Int("any_name")
    H0 = Hof(p)
    p.pc += [sid >= 0, table_inv(t, sid), data_keys_inv(H0, sd, sid)]
    fid = SpecId(t, sid)
    v = z3.Select(z3.Select(H0, sd), ikey(fid))
    mf = lambda m: {"type": mv(m, t), "item": mv(m, sid), "is_field": mv(m, IsField(t, sid)), "field_id": mv(m, fid),
                    "has_child": mv(m, HasChild(t, sid)), "stored_kind": kname(m, v)}
    try:
        outs = run_method(eng, "__getattr__", p, [Custom(ObjV(s)), Custom(NameV(sid))])
    except Unsupported as ex:
        res.addk("getattr.out_of_reach", "functional", UNKNOWN, None, 0.0, "engine", str(ex))
        return res
    n_f = n_u = 0
    for q in outs:
        post(res, "getattr.heap_unchanged", pcx(q), heap_same(q, H0), timeout, "reading an attribute modifies no dict", mf)
        if q.ctl[0] == "raise":
            n_u += 1
            post(res, "getattr.undeclared_name_raises_AttributeError", pcx(q), z3.And(z3.BoolVal(q.ctl[1] == "AttributeError"), z3.Not(IsField(t, sid))), timeout,
                 "only an undeclared name raises, and what it raises is AttributeError (hasattr / getattr(x, n, None) rely on it)", mf)
            continue
        r = obj_of(q)
        if r is None:
            res.addk("thriftobj.getattr_returns_field_under_spec_id", "functional", REFUTED, {"returned": type(q.ctl[1]).__name__}, 0.0, "engine",
                     "the value returned is not a Python object of the model")
            continue
        # undeclared names that return: only a marker key that is present
        mk = z3.Select(z3.Select(H0, sd), skey(sid))
        post(res, "getattr.undeclared_name_raises_AttributeError", pcx(q) + [z3.Not(IsField(t, sid))],
             z3.And(z3.Or(sid == 0, sid == 1), mk != ABSENT, r == mk), timeout,
             "an undeclared name returns only for the marker keys 'i32' / 'i32list' when present (their value); everything else raises", mf)
        n_f += 1
        gf, gs, gt = _getattr_goals(q, r, v, t, sid)
        hyp = pcx(q) + [IsField(t, sid)]
        post(res, "thriftobj.getattr_returns_field_under_spec_id", hyp, gf, timeout,
             "declared field: the object stored under spec[item] itself; None when the id is absent or holds None", mf)
        post(res, "thriftobj.child_wrapping_shares_dict", hyp, gs, timeout,
             "child struct: a ThriftObject whose data IS the stored dict (not a copy); list<struct>: a list of equal length whose element J "
             "wraps the dict at J (non-dict elements unchanged)", mf)
        post(res, "thriftobj.child_wrapping_type_is_table_child", hyp, gt, timeout,
             "the wrapper's type is children[type][item] and its spec / children tables are those of that type", mf)
    guard(res, "thriftobj.getattr_returns_field_under_spec_id", n_f, "a declared field is returned")
    guard(res, "getattr.undeclared_name_raises_AttributeError", n_u, "AttributeError is raised")
    # must-fail: the negated postcondition is satisfiable on some path (the obligation is not vacuous)
    sat_any = any(solve(pcx(q) + [IsField(t, sid), HasChild(t, sid), Kind(v) == K_DICT], 2000)[0] == REFUTED for q in rets(outs))
    res.addk("getattr.vacuity_guard", "functional", PROVED if sat_any else UNKNOWN, None, 0.0, "z3", "a path wrapping a child dict is feasible")
    # the real tables, per IDL child field
    idl = thrift_idl.load()
    reach = [x for x in idl.reachable(["FileMetaData", "PageHeader"]) if x in specs]
    for S in sorted(reach):
        for f in idl.structs[S]:
            k, x = idl.kind(f.type)
            is_l = k == "list"
            if is_l:
                k, x = idl.kind(x)
            if k != "struct":
                continue
            name = f"thriftobj.child_wrapping_type_is_idl_child[{S}.{f.name}]"
            if x not in _TID:
                continue        # child struct absent from `specs` (encryption structs): ThriftObject(x, ...) raises KeyError = refused (C10 assumption)
            fs = z3.IntVal(sid_of(f.name))
            ts = z3.IntVal(_TID[S])
            facts = [t == ts, sid == fs, IsField(ts, fs) == z3.BoolVal(f.name in specs[S]), SpecId(ts, fs) == specs[S].get(f.name, 0),
                     HasChild(ts, fs) == z3.BoolVal(f.name in children.get(S, {}))]
            chn = children.get(S, {}).get(f.name)
            if chn is not None:
                facts.append(ChildT(ts, fs) == TID(chn))
            st_all, model, secs = PROVED, None, 0.0
            for q in rets(outs):
                r = obj_of(q)
                if r is None:
                    continue
                if is_l:
                    comps = q.ghost.get("comps", [])
                    hyp = [Kind(v) == K_LIST, LLen(v) > 0, Kind(LItem(v, J)) == K_DICT, J >= 0, J < LLen(v)]
                    y = LItem(r, J)
                    goal = z3.And(Kind(r) == K_LIST, Kind(y) == K_THRIFT, TName(y) == _TID[x])
                else:
                    hyp = [Kind(v) == K_DICT]
                    goal = z3.And(Kind(r) == K_THRIFT, TName(r) == _TID[x])
                st, m, dt = solve(pcx(q) + facts + hyp + [z3.Not(goal)], timeout)
                secs += dt
                if st != PROVED:
                    st_all, model = st, m
                    break
            res.addk(name, "functional", st_all, {"struct": S, "field": f.name, "idl_child": x, "table_child": chn,
                                                  "wrapper_type": next((n_ for n_, i_ in _TID.items() if str(i_) == str(mv(model, TName(LItem(obj_of(q), J) if is_l else obj_of(q))))), None)}
                     if model is not None else None, secs, "z3",
                     f"reading {S}.{f.name} of a parsed structure gives ThriftObject(s) of type {x}, the struct the IDL declares for the field")
    rename(eng, {"ThriftObject.__getattr__.": "getattr.", "ThriftObject.__init__.": "getattr.wrapper_init."})
    res.take_engine(eng, "", timeout, mf)
    return res


# ------------------------------------------------------------------------------------------------
# __setattr__ (+ round trip with __getattr__, integer-width marker)
# ------------------------------------------------------------------------------------------------
def declared32(Hd, fid):
    """the wire-type rule write_thrift applies to an int field (write_thrift.header[int]): 32-bit iff listed in 'i32list' when that key
    exists, else iff the key 'i32' exists"""
    lst = z3.Select(Hd, KEY_I32LIST)
    return z3.If(lst != ABSENT, ListHasInt(lst, fid), z3.Select(Hd, KEY_I32) != ABSENT)


def _setattr_run(eng, p, s, sid, value):
    return run_method(eng, "__setattr__", p, [Custom(ObjV(s)), Custom(NameV(sid)), Custom(ObjV(value))])


def check_setattr(timeout):
    res = KResults()
    eng = new_engine()
    p = new_path()
    s, sd, t = thrift_input(p, "self")
    sid = z3.Int("item")
    value = z3.Const("value", Obj)
    H0 = Hof(p)
    p.pc += [sid >= 0, table_inv(t, sid), real(value), Birth(value) <= 0, LLen(value) >= 0]
    fid = SpecId(t, sid)
    old = z3.Select(z3.Select(H0, sd), ikey(fid))
    mf = lambda m: {"type": mv(m, t), "item": mv(m, sid), "is_field": mv(m, IsField(t, sid)), "field_id": mv(m, fid), "value_kind": kname(m, value),
                    "list_len": mv(m, LLen(value)), "element_J_kind": kname(m, LItem(value, J)), "J": mv(m, J),
                    "field_was_present": mv(m, old != ABSENT), "has_i32_key": mv(m, z3.Select(z3.Select(H0, sd), KEY_I32) != ABSENT),
                    "has_i32list_key": mv(m, z3.Select(z3.Select(H0, sd), KEY_I32LIST) != ABSENT), "idl_says_32bit": mv(m, Idl32(t, sid))}
    try:
        outs = _setattr_run(eng, p, s, sid, value)
    except Unsupported as ex:
        res.addk("setattr.out_of_reach", "functional", UNKNOWN, None, 0.0, "engine", str(ex))
        return res
    n_ok = n_raise = 0
    normal = []
    for q in outs:
        if q.ctl[0] == "raise":
            n_raise += 1
            post(res, "setattr.undeclared_name_raises_and_stores_nothing", pcx(q), z3.And(z3.Not(IsField(t, sid)), Hof(q) == H0), timeout,
                 "only an undeclared name raises (KeyError), and then no dict is modified", mf)
            continue
        n_ok += 1
        normal.append(q)
        post(res, "setattr.undeclared_name_raises_and_stores_nothing", pcx(q), IsField(t, sid), timeout, "an undeclared name must not store anything", mf)
        comps = q.ghost.get("comps", [])
        if comps:
            R, src, j = comps[-1]
            newv = R
            g_un = z3.And(Kind(value) == K_LIST, src == value, LLen(R) == LLen(value),
                          LItem(R, j) == TData(LItem(value, j)) if j is not None else LLen(value) == 0)
        else:
            newv = unwrapped(value)
            g_un = Kind(value) != K_LIST
        Hexp = z3.Store(H0, sd, z3.Store(z3.Select(H0, sd), ikey(fid), newv))
        post(res, "setattr.stores_under_spec_id_and_nowhere_else", pcx(q), Hof(q) == Hexp, timeout,
             "the heap afterwards == the heap before with data[spec[item]] replaced: no other key (marker keys included), no other dict", mf)
        post(res, "setattr.unwraps_thrift_value_to_its_dict", pcx(q), z3.And(g_un, z3.Select(z3.Select(Hof(q), sd), ikey(fid)) == newv), timeout,
             "a ThriftObject value is stored as ITS dict (shared), a list of ThriftObjects as a new list of their dicts (element J), anything else as is", mf)
        # integer-width marker
        Hd0, Hd1 = z3.Select(H0, sd), z3.Select(Hof(q), sd)
        isint = [Kind(value) == K_INT]
        post(res, "setattr.present_int_field_keeps_wire_type", pcx(q) + isint + [old != ABSENT, declared32(Hd0, fid) == Idl32(t, sid)],
             declared32(Hd1, fid) == Idl32(t, sid), timeout,
             "updating an integer field that was present (read from a foreign file with its width recorded) keeps the wire type the IDL declares", mf)
        post(res, "setattr.new_int_field_gets_idl_wire_type", pcx(q) + isint + [nonelike(old)],
             declared32(Hd1, fid) == Idl32(t, sid), timeout,
             "an integer field set for the first time is serialised with the wire type the IDL declares (i32 -> 5, i64 -> 6): the marker must "
             "declare it", mf)
        post(res, "setattr.new_int_field_gets_idl_wire_type[outside known region]", pcx(q) + isint + [nonelike(old), declared32(Hd0, fid) == Idl32(t, sid)],
             declared32(Hd1, fid) == Idl32(t, sid), timeout,
             "... holds when the marker the object already carries happens to declare the field's IDL width (region of C10-P-setattr-ignores-width-marker "
             "excluded): the assignment itself never spoils a marker", mf)
    guard(res, "setattr.stores_under_spec_id_and_nowhere_else", n_ok, "__setattr__ returns")
    requires_sat(res, "setattr", normal)
    guard(res, "setattr.undeclared_name_raises_and_stores_nothing", n_raise, "KeyError is raised")
    rename(eng, {"ThriftObject.__setattr__.": "setattr."})
    extra = []
    for ob in eng.oblig:
        if "unchecked_cast" in ob.name:
            import copy as _copy
            o2 = _copy.copy(ob)
            o2.name = ob.name + "[outside known region]"
            o2.pc = list(ob.pc) + [Kind(LItem(value, J)) == K_THRIFT]
            o2.note = "... holds for a list whose element J is a ThriftObject (the only lists writer.py / api.py / util.py assign)"
            extra.append(o2)
    eng.oblig += extra
    res.take_engine(eng, "", timeout, mf)
    # ---- round trip: getattr after setattr ----
    eng2 = new_engine()
    n_rt = {"scalar": 0, "struct": 0, "list": 0}
    for q0 in normal:
        q = q0.fork()
        q.ctl = None
        q.pc += [IsStruct(ChildT(t, sid)), Kind(TData(value)) == K_DICT, Kind(TData(LItem(value, J))) == K_DICT]
        try:
            outs2 = run_method(eng2, "__getattr__", q, [Custom(ObjV(s)), Custom(NameV(sid))])
        except Unsupported as ex:
            res.addk("thriftobj.getattr_setattr_roundtrip.out_of_reach", "functional", UNKNOWN, None, 0.0, "engine", str(ex))
            continue
        for q2 in outs2:
            if q2.ctl[0] != "ret":
                post(res, "thriftobj.getattr_setattr_roundtrip[scalar]", pcx(q2), z3.BoolVal(False), timeout, "reading back a field just set must not raise", mf)
                continue
            r = obj_of(q2)
            if r is None:
                continue
            scalar = z3.Or(*[Kind(value) == k for k in (K_BOOL, K_INT, K_FLOAT, K_BYTES, K_STR)])
            n_rt["scalar"] += 1
            post(res, "thriftobj.getattr_setattr_roundtrip[scalar]", pcx(q2) + [z3.Or(scalar, Kind(value) == K_NONE)],
                 z3.If(Kind(value) == K_NONE, Kind(r) == K_NONE, r == value), timeout, "o.f = v; o.f is v  (None reads back as None)", mf)
            st = solve(pcx(q2) + [HasChild(t, sid), Kind(value) == K_THRIFT], 2000)[0]
            if st == REFUTED:
                n_rt["struct"] += 1
            post(res, "thriftobj.getattr_setattr_roundtrip[struct]", pcx(q2) + [HasChild(t, sid), Kind(value) == K_THRIFT],
                 z3.And(Kind(r) == K_THRIFT, TData(r) == TData(value), TName(r) == ChildT(t, sid)), timeout,
                 "o.child = ThriftObject c; o.child is a ThriftObject of the child type over THE SAME dict as c (so later edits of c are seen)", mf)
            comps = q2.ghost.get("comps", [])
            hypl = pcx(q2) + [HasChild(t, sid), Kind(value) == K_LIST, LLen(value) > 0, Kind(LItem(value, J)) == K_THRIFT]
            if solve(hypl, 2000)[0] == REFUTED:
                n_rt["list"] += 1
            y = LItem(r, J)
            post(res, "thriftobj.getattr_setattr_roundtrip[list]", hypl,
                 z3.And(Kind(r) == K_LIST, LLen(r) == LLen(value), Kind(y) == K_THRIFT, TData(y) == TData(LItem(value, J)), TName(y) == ChildT(t, sid)), timeout,
                 "o.children = [ThriftObjects]; o.children has the same length and element J wraps the dict of the J-th object given", mf)
    for k_, n_ in n_rt.items():
        guard(res, f"thriftobj.getattr_setattr_roundtrip[{k_}]", n_, "set-then-get path of this kind")
    return res


def check_mutation(timeout):
    """rg.columns[J].meta_data.x = v / fmd.child.x = v: the assignment through the wrapper(s) lands in the parent's structure"""
    res = KResults()
    for shape in ("struct", "list"):
        eng = new_engine()
        p = new_path()
        s, sd, t = thrift_input(p, "parent")
        a, b = z3.Int("child_field"), z3.Int("field_of_child")
        value = z3.Const("value", Obj)
        H0 = Hof(p)
        ida = SpecId(t, a)
        v = z3.Select(z3.Select(H0, sd), ikey(ida))
        tc = ChildT(t, a)
        p.pc += [a >= 0, b >= 0, table_inv(t, a), table_inv(tc, b), IsField(t, a), HasChild(t, a), real(value), Kind(value) != K_LIST, Kind(value) != K_THRIFT,
                 Birth(value) <= 0]
        child = v if shape == "struct" else LItem(v, J)
        if shape == "struct":
            p.pc += [Kind(v) == K_DICT, v != sd]
        else:
            p.pc += [Kind(v) == K_LIST, LLen(v) > 0, J >= 0, J < LLen(v), Kind(child) == K_DICT, child != sd]
        name = f"thriftobj.mutation_through_wrapper_reaches_parent[{shape}]"
        mf = lambda m: {"parent_type": mv(m, t), "child_field": mv(m, a), "field_of_child": mv(m, b), "J": mv(m, J)}
        try:
            outs = run_method(eng, "__getattr__", p, [Custom(ObjV(s)), Custom(NameV(a))])
            n = 0
            for q in rets(outs):
                r = obj_of(q)
                w = r if shape == "struct" else LItem(r, J)
                q.ctl = None
                if not must(q, Kind(w) == K_THRIFT):
                    post(res, name, pcx(q), Kind(w) == K_THRIFT, timeout, "the child is handed out as a ThriftObject", mf)
                    continue
                for q2 in run_method(eng, "__setattr__", q, [Custom(ObjV(w)), Custom(NameV(b)), Custom(ObjV(value))]):
                    if q2.ctl[0] != "ret":
                        continue                  # b is not a field of the child type: KeyError, covered by setattr.undeclared...
                    n += 1
                    H1 = Hof(q2)
                    pv = z3.Select(z3.Select(H1, sd), ikey(ida))
                    pch = pv if shape == "struct" else LItem(pv, J)
                    idb = SpecId(tc, b)
                    post(res, name, pcx(q2), z3.And(z3.Select(z3.Select(H1, pch), ikey(idb)) == value, z3.Select(H1, sd) == z3.Select(H0, sd),
                                                   heap_same(q2, z3.Store(H0, child, z3.Store(z3.Select(H0, child), ikey(idb), value)))), timeout,
                         "after `parent.child.x = v` (resp. `parent.children[J].x = v`) the dict reachable from the parent's data under the child's id "
                         "holds v under x's id in the CHILD type's spec; the parent's own dict and every other dict are unchanged "
                         "(needs: the child dict is not the parent's own dict - metadata are trees)", mf)
            guard(res, name, n, "get child, then set a field of it")
        except Unsupported as ex:
            res.addk(name + ".out_of_reach", "functional", UNKNOWN, None, 0.0, "engine", str(ex))
        rename(eng, {"ThriftObject.__setattr__.": "mutation.setattr.", "ThriftObject.__getattr__.": "mutation.getattr.", "ThriftObject.__init__.": "mutation.init."})
        res.take_engine(eng, "", timeout, mf)
    return res


LIST_MUTATORS = ("append", "extend", "remove", "insert", "pop", "sort", "clear", "reverse")


def check_callsites(timeout):
    """`obj.<list<struct> field>` is a NEW list of wrappers at every access: in-place mutation of it never reaches the parent. Every
    call site must assign the list back (what writer.py / api.py / util.py do): enumeration over the .py sources."""
    res = KResults()
    specs, children = load_tables()
    idl = thrift_idl.load()
    listfields = set()
    for S, ch in children.items():
        for f in ch:
            fl = idl.fields_by_name(S).get(f) if S in idl.structs else None
            if fl is not None and idl.kind(fl.type)[0] == "list":
                listfields.add(f)
    bad, n_files = [], 0
    for rel in PY_FILES:
        path = os.path.join(REPO, rel)
        if not os.path.exists(path):
            continue
        n_files += 1
        tree = ast.parse(open(path).read())
        for n in ast.walk(tree):
            if isinstance(n, ast.Call) and isinstance(n.func, ast.Attribute) and n.func.attr in LIST_MUTATORS and \
                    isinstance(n.func.value, ast.Attribute) and n.func.value.attr in listfields:
                o = n.func.value.value
                if isinstance(o, ast.Name) and o.id == "self":
                    continue              # ParquetFile.row_groups etc.: a plain Python attribute of the API object, not a ThriftObject
                bad.append(f"{rel}:{n.lineno}: {ast.unparse(n)[:80]}")
            tg = []
            if isinstance(n, (ast.Assign, ast.AugAssign, ast.Delete)):
                tg = n.targets if not isinstance(n, ast.AugAssign) else [n.target]
            for t_ in tg:
                if isinstance(t_, ast.Subscript) and isinstance(t_.value, ast.Attribute) and t_.value.attr in listfields and \
                        not (isinstance(t_.value.value, ast.Name) and t_.value.value.id == "self"):
                    bad.append(f"{rel}:{n.lineno}: {ast.unparse(n)[:80]}")
    st = PROVED if not bad and n_files else (UNKNOWN if not n_files else REFUTED)
    res.addk("callsites.no_inplace_mutation_of_getattr_list", "functional", st, {"sites": bad} if bad else None, 0.0, "enum",
             f"no `x.<{'|'.join(sorted(listfields))}>.append/extend/remove/...(...)` or item assignment on a ThriftObject attribute: such a list is "
             "a fresh list of wrappers, the change would be lost (all sites take the list, change it, and assign it back)")
    return res


# ------------------------------------------------------------------------------------------------
# raw-id access
# ------------------------------------------------------------------------------------------------
def check_raw(timeout):
    res = KResults()
    eng = new_engine()

    def setup():
        p = new_path()
        s, sd, t = thrift_input(p, "self")
        key = z3.Int("raw_key")
        value = z3.Const("value", Obj)
        p.pc += [real(value)]
        return p, s, sd, t, key, value
    mfk = lambda key, H0, sd: (lambda m: {"key_encoded(2k=int,2s+1=str)": mv(m, key), "present": mv(m, z3.Select(z3.Select(H0, sd), key) != ABSENT)})
    try:
        # __setitem__
        p, s, sd, t, key, value = setup()
        H0 = Hof(p)
        outs = run_method(eng, "__setitem__", p, [Custom(ObjV(s)), Custom(KeyV(key)), Custom(ObjV(value))])
        for q in outs:
            post(res, "setitem.stores_under_the_raw_key_and_nowhere_else", pcx(q),
                 z3.And(z3.BoolVal(q.ctl[0] == "ret"), Hof(q) == z3.Store(H0, sd, z3.Store(z3.Select(H0, sd), key, value))), timeout,
                 "obj[k] = v: data[k] is v (stored as given), nothing else changes", mfk(key, H0, sd))
        guard(res, "setitem.stores_under_the_raw_key_and_nowhere_else", len(outs), "returns")
        # __getitem__ / get
        for meth, dflt in (("__getitem__", None), ("get", None), ("get", "given")):
            p, s, sd, t, key, value = setup()
            H0 = Hof(p)
            args = [Custom(ObjV(s)), Custom(KeyV(key))] + ([Custom(ObjV(value))] if dflt else [])
            outs = run_method(eng, meth, p, args)
            nm = f"{meth.strip('_')}.returns_value_or_default" + ("[default given]" if dflt else "")
            for q in outs:
                r = obj_of(q) if q.ctl[0] == "ret" else None
                v = z3.Select(z3.Select(H0, sd), key)
                d_ = value if dflt else NONEOBJ
                post(res, nm, pcx(q), z3.And(z3.BoolVal(r is not None), z3.If(v == ABSENT, r == d_, r == v), Hof(q) == H0) if r is not None else z3.BoolVal(False),
                     timeout, "the object stored under the key itself, the default (None) when the key is absent; nothing modified", mfk(key, H0, sd))
            guard(res, nm, len(outs), "returns")
        # __delitem__ / __delattr__
        p, s, sd, t, key, value = setup()
        H0 = Hof(p)
        outs = run_method(eng, "__delitem__", p, [Custom(ObjV(s)), Custom(KeyV(key))])
        for q in outs:
            v = z3.Select(z3.Select(H0, sd), key)
            if q.ctl[0] == "raise":
                post(res, "delitem.removes_exactly_the_key", pcx(q), z3.And(v == ABSENT, Hof(q) == H0), timeout, "raises only when the key is absent; nothing modified then",
                     mfk(key, H0, sd))
            else:
                post(res, "delitem.removes_exactly_the_key", pcx(q), z3.And(v != ABSENT, Hof(q) == z3.Store(H0, sd, z3.Store(z3.Select(H0, sd), key, ABSENT))), timeout,
                     "del obj[k]: the key is gone, nothing else changes", mfk(key, H0, sd))
        guard(res, "delitem.removes_exactly_the_key", len(rets(outs)), "returns")
        p, s, sd, t, key, value = setup()
        sid = z3.Int("item")
        p.pc.append(sid >= 0)
        H0 = Hof(p)
        fid = SpecId(t, sid)
        outs = run_method(eng, "__delattr__", p, [Custom(ObjV(s)), Custom(NameV(sid))])
        mfd = lambda m: {"type": mv(m, t), "item": mv(m, sid), "is_field": mv(m, IsField(t, sid)), "present": mv(m, z3.Select(z3.Select(H0, sd), ikey(fid)) != ABSENT)}
        for q in outs:
            v = z3.Select(z3.Select(H0, sd), ikey(fid))
            if q.ctl[0] == "raise":
                post(res, "delattr.removes_exactly_the_field_id", pcx(q), z3.And(z3.Or(z3.Not(IsField(t, sid)), v == ABSENT), Hof(q) == H0), timeout,
                     "raises only for an undeclared name or an absent field; nothing modified then", mfd)
            else:
                post(res, "delattr.removes_exactly_the_field_id", pcx(q),
                     z3.And(IsField(t, sid), Hof(q) == z3.Store(H0, sd, z3.Store(z3.Select(H0, sd), ikey(fid), ABSENT))), timeout,
                     "del obj.f: the key spec[f] is gone (the field reads None, write_thrift skips it), nothing else changes", mfd)
        guard(res, "delattr.removes_exactly_the_field_id", len(rets(outs)), "returns")
        # contents / thrift_name
        p, s, sd, t, key, value = setup()
        H0 = Hof(p)
        for q in run_method(eng, "contents", p.fork(), [Custom(ObjV(s))]):
            r = obj_of(q)
            post(res, "contents.is_the_data_dict_itself", pcx(q), z3.And(r == sd, Hof(q) == H0) if r is not None else z3.BoolVal(False), timeout,
                 "contents IS the data dict (what dict_eq and the writer's `fmd.contents` see; not a copy)")
        for q in run_method(eng, "thrift_name", p.fork(), [Custom(ObjV(s))]):
            v = q.ctl[1]
            ok = isinstance(v, Custom) and isinstance(v.h, TypeNameV)
            post(res, "thrift_name.is_the_type_name", pcx(q), v.h.tid == t if ok else z3.BoolVal(False), timeout, "thrift_name is the struct name given at construction")
    except Unsupported as ex:
        res.addk("raw.out_of_reach", "functional", UNKNOWN, None, 0.0, "engine", str(ex))
    rename(eng, {"ThriftObject.": "raw."})
    res.take_engine(eng, "", timeout)
    return res


# ------------------------------------------------------------------------------------------------
# from_fields (+ parquet_thrift.__getattr__)
# ------------------------------------------------------------------------------------------------
def check_from_fields(timeout):
    res = KResults()
    state = {}
    tname = z3.Int("thrift_name")
    i32 = z3.Bool("i32_given_truthy")
    lst = z3.Const("i32list", Obj)

    def hook(eng, st, p):
        it = eng.ev1(st.iter, p)
        tid = it.h.tid if isinstance(it, Custom) and isinstance(it.h, SpecItems) else None
        ov = p.env.get("out")
        if tid is None or not (isinstance(ov, Custom) and isinstance(ov.h, ObjV)):
            raise Unsupported("from_fields: the loop is not `for k, i in <spec>.items()` filling the dict `out`")
        out = ov.h.t
        state.update(iter_tid=tid, out=out, H_entry=Hof(p), pc_entry=pcx(p), allocs_entry=[str(a) for a in p.ghost.get("allocs", [])])
        # one arbitrary iteration: the dict being built and every assigned local arbitrary (cut: every OTHER dict is as on entry -
        # re-established by from_fields.iteration_frame)
        q = p.fork()
        q.ghost["H"] = z3.Store(Hof(q), out, z3.Const("out_content_before_iteration", DictS))
        ks = z3.Int("field_k")
        q.pc += [ks >= 0, IsField(tid, ks)]
        for nm in ("v", "it"):
            q.env.pop(nm, None)
        for r in eng.assign(st.target, Tup([Custom(NameV(ks)), spec_id_value(q, tid, ks)]), q):
            q = r
        Hb = Hof(q)
        outs = eng.block(st.body, [q])
        state["body"] = (ks, Hb, outs)
        ex = p.fork()
        ex.ghost["H"] = z3.Store(Hof(ex), out, z3.Const("out_content_after_loop", DictS))
        ex.ghost["H_exit"] = Hof(ex)
        for nm in ("v", "it", "k", "i"):
            ex.env.pop(nm, None)
        return [ex] + [b for b in outs if isinstance(b.ctl, tuple)]

    eng = new_engine(loops={("ThriftObject.from_fields", 0): LoopSpec("hook", inv=hook)})
    eng.kwargs_obj = Custom(KwArgs())
    p = new_path()
    p.pc += [IsStruct(tname), z3.Or(Kind(lst) == K_NONE, Kind(lst) == K_LIST), LLen(lst) >= 0, Birth(lst) <= 0]
    H0 = Hof(p)
    u = z3.Int("some_kwarg")
    mf = lambda m: {"type": mv(m, tname), "i32": mv(m, i32), "i32list_kind": kname(m, lst), "i32list_len": mv(m, LLen(lst)),
                    "field_k": mv(m, state["body"][0]) if "body" in state else None, "kwarg_given": mv(m, InKw(state["body"][0])) if "body" in state else None,
                    "value_kind": kname(m, KwVal(state["body"][0])) if "body" in state else None, "some_kwarg": mv(m, u),
                    "some_kwarg_is_field": mv(m, IsField(tname, u))}
    try:
        outs = run_method(eng, "from_fields", p, [Custom(TypeNameV(tname)), PyB(i32), Custom(ObjV(lst))])
    except Unsupported as ex:
        res.addk("from_fields.out_of_reach", "functional", UNKNOWN, None, 0.0, "engine", str(ex))
        return res
    if "body" not in state:
        res.addk("from_fields.field_stored_under_its_id", "functional", UNKNOWN, None, 0.0, "engine", "field loop not reached")
        return res
    out = state["out"]
    post(res, "from_fields.loop_is_over_own_spec", state["pc_entry"],
         z3.And(state["iter_tid"] == tname, z3.Select(state["H_entry"], out) == z3.K(I, ABSENT), z3.BoolVal(str(out) in state["allocs_entry"]),
                heap_same(_P(state["H_entry"], [out]), H0)), timeout,
         "the field loop runs over specs[thrift_name].items() (so ids increase with the table order) and fills a NEW, empty dict; nothing else touched", mf)
    ks, Hb, bouts = state["body"]
    kv = KwVal(ks)
    fid = SpecId(tname, ks)
    n_b = 0
    for b in bouts:
        if b.ctl not in (None, "continue"):
            post(res, "from_fields.field_stored_under_its_id", pcx(b), z3.BoolVal(False), timeout, "a field iteration must not raise / leave the loop", mf)
            continue
        n_b += 1
        comps = b.ghost.get("comps", [])
        if comps:
            R, src, j = comps[-1]
            newv = R
            g_un = z3.And(Kind(kv) == K_LIST, src == kv, LLen(R) == LLen(kv), LItem(R, j) == TData(LItem(kv, j)) if j is not None else LLen(kv) == 0)
        else:
            newv = unwrapped(kv)
            g_un = z3.Or(Kind(kv) != K_LIST, LLen(kv) == 0, Kind(LItem(kv, 0)) != K_THRIFT)
        Hexp = z3.If(InKw(ks), z3.Store(Hb, out, z3.Store(z3.Select(Hb, out), ikey(fid), newv)), Hb)
        post(res, "from_fields.field_stored_under_its_id", pcx(b), z3.Select(z3.Select(Hof(b), out), ikey(fid)) == z3.If(InKw(ks), newv, z3.Select(z3.Select(Hb, out), ikey(fid))),
             timeout, "a keyword argument naming a field of the struct is stored under spec[name]; a field not given stays absent", mf)
        post(res, "from_fields.unwraps_thrift_values", pcx(b) + [InKw(ks)], g_un, timeout,
             "a ThriftObject argument is stored as its dict (shared), a list of ThriftObjects as a new list of their dicts, anything else as given", mf)
        post(res, "from_fields.iteration_frame", pcx(b), heap_same(b, Hexp, keep=[out]), timeout, "one iteration changes at most the key spec[name] of the dict being built", mf)
    guard(res, "from_fields.field_stored_under_its_id", n_b, "field loop body")
    n_r = 0
    for q in rets(outs):
        Hx = q.ghost.get("H_exit")
        if Hx is None:
            continue
        n_r += 1
        r = obj_of(q)
        d0 = z3.Select(Hx, out)
        one = z3.Const("one_obj", Obj)
        d1 = z3.Store(d0, KEY_I32, z3.If(i32, one, z3.Select(d0, KEY_I32)))
        lst_truthy = z3.And(Kind(lst) == K_LIST, LLen(lst) > 0)
        d2 = z3.Store(d1, KEY_I32LIST, z3.If(lst_truthy, lst, z3.Select(d0, KEY_I32LIST)))
        post(res, "from_fields.markers_stored_as_given", pcx(q) + [Kind(one) == K_INT, Val(one) == 1, one == IntObj(z3.IntVal(1))],
             heap_same(q, z3.Store(Hx, out, d2), keep=[out]), timeout,
             "after the field loop: key 'i32' := 1 iff i32 is truthy, key 'i32list' := THE list given iff it is non-empty; no field key and no other dict "
             "changes (the loop itself never touches a string key: from_fields.iteration_frame)", mf)
        post(res, "from_fields.result_wraps_built_dict", pcx(q),
             z3.And(Kind(r) == K_THRIFT, TName(r) == tname, TData(r) == out, inv_thrift(r)) if r is not None else z3.BoolVal(False), timeout,
             "the result is a ThriftObject of the named type whose data IS the dict built", mf)
        post(res, "from_fields.unknown_kwarg_rejected", pcx(q) + [u >= 0], z3.Implies(InKw(u), IsField(tname, u)), timeout,
             "a keyword argument that names no field of the struct is not silently dropped (normal return => every kwarg is a field)", mf)
    guard(res, "from_fields.markers_stored_as_given", n_r, "from_fields returns")
    requires_sat(res, "from_fields", [q for q in rets(outs) if q.ghost.get("H_exit") is not None] + [b for b in bouts if b.ctl in (None, "continue")])
    rename(eng, {"ThriftObject.from_fields.": "from_fields.", "ThriftObject.__init__.": "from_fields.init."})
    for ob in eng.oblig:
        if "unchecked_cast" in ob.name:
            # precondition (IDL shape): a list argument is homogeneous - what its first element is, every element is
            ob.pc = list(ob.pc) + [Kind(LItem(kv, J)) == Kind(LItem(kv, 0))]
    res.take_engine(eng, "", timeout, mf)
    # parquet_thrift.__getattr__: partial(ThriftObject.from_fields, thrift_name=name) for capitalised names
    src = open(os.path.join(REPO, "fastparquet", "parquet_thrift", "__init__.py")).read()
    tree = ast.parse(src)
    ok = False
    for fn in tree.body:
        if isinstance(fn, ast.FunctionDef) and fn.name == "__getattr__":
            for n in ast.walk(fn):
                if isinstance(n, ast.Return) and isinstance(n.value, ast.Call) and ast.unparse(n.value.func) == "partial" and \
                        len(n.value.args) == 1 and ast.unparse(n.value.args[0]) == "ThriftObject.from_fields" and \
                        [(k.arg, ast.unparse(k.value)) for k in n.value.keywords] == [("thrift_name", fn.args.args[0].arg)]:
                    ok = True
    res.addk("parquet_thrift.getattr_is_from_fields_of_that_name", "functional", PROVED if ok else REFUTED, None if ok else {"source": src[-300:]}, 0.0, "ast",
             "parquet_thrift.X(...) == ThriftObject.from_fields(thrift_name='X', ...): the attribute name is passed unchanged as the type name")
    return res


class _P:
    """a minimal path-like holder for heap_same"""

    def __init__(self, H, allocs):
        self.ghost = {"H": H, "allocs": allocs}


# ------------------------------------------------------------------------------------------------
# copy / __copy__ / __deepcopy__
# ------------------------------------------------------------------------------------------------
def check_copy(timeout):
    res = KResults()
    for meth in ("copy", "__copy__"):
        eng = new_engine()
        p = new_path()
        s, sd, t = thrift_input(p, "self")
        H0 = Hof(p)
        kk = z3.Int("any_key")
        mf = lambda m: {"type": mv(m, t), "key_encoded": mv(m, kk)}
        tag = "" if meth == "copy" else "[__copy__]"
        try:
            outs = run_method(eng, meth, p, [Custom(ObjV(s))])
        except Unsupported as ex:
            res.addk(f"copy{tag}.out_of_reach", "functional", UNKNOWN, None, 0.0, "engine", str(ex))
            continue
        for q in outs:
            r = obj_of(q) if q.ctl[0] == "ret" else None
            if r is None:
                post(res, f"copy.data_dict_is_copied_not_shared{tag}", pcx(q), z3.BoolVal(False), timeout, "copy must return a ThriftObject", mf)
                continue
            nd = TData(r)
            post(res, f"copy.data_dict_is_copied_not_shared{tag}", pcx(q), z3.And(Kind(r) == K_THRIFT, r != s, nd != sd, Kind(nd) == K_DICT, Birth(nd) > 0), timeout,
                 "the copy has its OWN data dict (a new object): `c = copy(x); c.f = v` leaves x untouched (what ParquetFile.__getitem__, merge and "
                 "write_common_metadata rely on)", mf)
            post(res, f"copy.keeps_every_key_incl_width_markers{tag}", pcx(q), z3.Select(z3.Select(Hof(q), nd), kk) == z3.Select(z3.Select(H0, sd), kk), timeout,
                 "every key of the data dict - field ids and the 'i32' / 'i32list' markers - maps to the same object in the copy (one level: nested "
                 "structs are shared)", mf)
            post(res, f"copy.keeps_type_name{tag}", pcx(q), z3.And(TName(r) == t, inv_thrift(r)), timeout, "same struct type, own tables", mf)
            post(res, f"copy.frame{tag}", pcx(q), heap_same(q, H0), timeout, "no existing dict is modified", mf)
        guard(res, f"copy.data_dict_is_copied_not_shared{tag}", len(rets(outs)), "copy returns")
        rename(eng, {"ThriftObject.": "copy."})
        res.take_engine(eng, "", timeout, mf)
    # __deepcopy__
    calls = []

    def h_deepcopy(eng, p, args, kw, node):
        a = to_obj(eng, p, args[0])
        n = fresh_obj(eng, p, "deep_copy", K_DICT)
        calls.append((a, n))
        return [(p, Custom(ObjV(n)))]
    eng = new_engine(handlers={"copy.deepcopy": h_deepcopy})
    p = new_path()
    s, sd, t = thrift_input(p, "self")
    memo = z3.Const("memodict", Obj)
    p.pc += [Kind(memo) == K_DICT]
    H0 = Hof(p)
    try:
        outs = run_method(eng, "__deepcopy__", p, [Custom(ObjV(s)), Custom(ObjV(memo))])
        for q in outs:
            r = obj_of(q) if q.ctl[0] == "ret" else None
            ok = r is not None and len(calls) == 1
            post(res, "deepcopy.deep_copies_own_data_keeps_type", pcx(q),
                 z3.And(calls[0][0] == sd, Kind(r) == K_THRIFT, r != s, TData(r) == calls[0][1], TName(r) == t, inv_thrift(r), heap_same(q, H0)) if ok else z3.BoolVal(False),
                 timeout, "copy.deepcopy is applied to the object's own data dict (once), the result wraps that deep copy under the same type name; nothing modified")
        guard(res, "deepcopy.deep_copies_own_data_keeps_type", len(rets(outs)), "__deepcopy__ returns")
    except Unsupported as ex:
        res.addk("deepcopy.out_of_reach", "functional", UNKNOWN, None, 0.0, "engine", str(ex))
    rename(eng, {"ThriftObject.": "deepcopy."})
    res.take_engine(eng, "", timeout)
    return res


# ------------------------------------------------------------------------------------------------
# to_bytes / from_buffer / __reduce_ex__ (pickle)
# ------------------------------------------------------------------------------------------------
def _io_handlers(rec):
    def h_empty(eng, p, args, kw, node):
        n = eng.as_int(args[0], p)
        rec.setdefault("empty", []).append(n)
        return [(p, Custom(BufV(n)))]

    def h_numpyio(eng, p, args, kw, node):
        b = args[0]
        k = len(rec.setdefault("ios", []))
        name = f"io{k}"
        if isinstance(b, Custom) and isinstance(b.h, BufV):
            size, src = b.h.n, ("np.empty", b.h)
        elif isinstance(b, Custom) and isinstance(b.h, BytesOf):
            size, src = (b.h.view.n if b.h.view is not None else z3.Int(f"buffer_len!{next(eng.counter)}")), ("bytes", b.h)
        else:
            raise Unsupported("NumpyIO(...) over " + type(getattr(b, "h", b)).__name__)
        p.pc += [size >= 0, size < 2 ** 31]
        nb = CI(z3.Int2BV(size, 32), 32, False, size, (0, 2 ** 31 - 1))
        ref = cy.new_io(p, name, loc=CI(z3.BitVecVal(0, 32), 32, False, z3.IntVal(0), (0, 0)), nbytes=nb)
        rec["ios"].append((name, src))
        return [(p, ref)]

    def h_write_thrift(eng, p, args, kw, node):
        d, o = args
        if not isinstance(o, Ref):
            raise Unsupported("write_thrift into a non NumpyIO")
        k = next(eng.counter)
        loc0 = cy.loc(p, o.oid)
        loc1 = CI.var(f"written_len!{k}", 32, False)
        p.heap[o.oid] = dict(p.heap[o.oid], loc=loc1)
        p.mem[o.oid] = z3.Const(f"serialised!{k}", cy.MemSort)
        p.pc += [loc1.range_constraint(), loc1.iv >= loc0, loc1.iv <= cy.nbytes(p, o.oid)]       # by contract, under to_bytes.capacity
        rec.setdefault("writes", []).append((to_obj(eng, p, d), o.oid, loc0, loc1.iv, p.mem[o.oid]))
        return [(p, NONE)]

    def h_read_thrift(eng, p, args, kw, node):
        b = args[0]
        if not isinstance(b, Ref):
            raise Unsupported("read_thrift of a non NumpyIO")
        rt = fresh_obj(eng, p, "parsed_dict", K_DICT)
        rec.setdefault("reads", []).append((b.oid, cy.loc(p, b.oid), rt))
        return [(p, Custom(ObjV(rt)))]

    def h_bytes(eng, p, args, kw, node):
        v = args[0]
        if not isinstance(v, View):
            raise Unsupported("bytes(...) of " + type(v).__name__)
        return [(p, Custom(BytesOf(view=v)))]
    return {"np.empty": h_empty, "NumpyIO": h_numpyio, "write_thrift": h_write_thrift, "read_thrift": h_read_thrift, "bytes": h_bytes}


def _to_bytes_pre(p, sd, t):
    """required fields are present (IDL): RowGroup.columns, FileMetaData.schema / row_groups are lists"""
    H0 = Hof(p)
    g = lambda k: z3.Select(z3.Select(H0, sd), ikey(z3.IntVal(k)))
    p.pc += [z3.Implies(t == TID("RowGroup"), Kind(g(1)) == K_LIST), z3.Implies(t == TID("FileMetaData"), z3.And(Kind(g(4)) == K_LIST, Kind(g(2)) == K_LIST))]


def _prefix_goal(v, region, written):
    return z3.And(z3.BoolVal(isinstance(v, View) and v.region == region), v.off == 0, v.n == written) if isinstance(v, View) else z3.BoolVal(False)


def check_to_bytes(timeout):
    res = KResults()
    load_tables()
    rec = {}
    eng = new_engine(handlers=_io_handlers(rec))
    p = new_path()
    s, sd, t = thrift_input(p, "self")
    _to_bytes_pre(p, sd, t)
    H0 = Hof(p)
    mf = lambda m: {"type": next((n for n, i in _TID.items() if str(i) == str(mv(m, t))), str(mv(m, t))),
                    "buffer_size": mv(m, rec["empty"][-1]) if rec.get("empty") else None, "written": mv(m, rec["writes"][-1][3]) if rec.get("writes") else None}
    try:
        outs = run_method(eng, "to_bytes", p, [Custom(ObjV(s))])
    except Unsupported as ex:
        res.addk("to_bytes.out_of_reach", "functional", UNKNOWN, None, 0.0, "engine", str(ex))
        return res
    n = 0
    for q in outs:
        if q.ctl[0] != "ret":
            post(res, "to_bytes.returns_exactly_written_prefix", pcx(q), z3.BoolVal(False), timeout, "to_bytes must not raise on a structure with its required list fields", mf)
            continue
        n += 1
        ws = rec.get("writes", [])
        # the write recorded on THIS path: the last one whose cursor symbol occurs in the path (one call per path)
        mine = [w for w in ws if any(str(w[3]) in str(c) for c in q.pc[-6:])] or ws[-1:]
        v = q.ctl[1]
        if len(mine) != 1:
            res.addk("to_bytes.serialises_own_data_into_fresh_buffer", "functional", REFUTED, {"write_thrift_calls": len(mine)}, 0.0, "engine", "exactly one write_thrift call")
            continue
        d, oid, loc0, loc1, _ = mine[0]
        src = dict(rec["ios"]).get(oid)
        post(res, "to_bytes.serialises_own_data_into_fresh_buffer", pcx(q),
             z3.And(d == sd, loc0 == 0, z3.BoolVal(src is not None and src[0] == "np.empty"), cy.nbytes(q, oid) == (src[1].n if src else 0), heap_same(q, H0)), timeout,
             "write_thrift is called once, on the object's own data dict, into a NumpyIO over the freshly allocated buffer with the cursor at 0; no dict modified", mf)
        post(res, "to_bytes.returns_exactly_written_prefix", pcx(q), _prefix_goal(v, oid, loc1), timeout,
             "the result is the view [0, loc) of that buffer - exactly the bytes written, not the whole (mostly uninitialised) buffer: its length is "
             "what writer.write_thrift reports as the footer size", mf)
    guard(res, "to_bytes.returns_exactly_written_prefix", n, "to_bytes returns")
    requires_sat(res, "to_bytes", rets(outs))
    rename(eng, {"ThriftObject.to_bytes.": "to_bytes.", "ThriftObject.__getitem__.": "to_bytes.getitem.", "NumpyIO.so_far.": "to_bytes.so_far."})
    res.take_engine(eng, "", timeout, mf)
    return res


def check_from_buffer(timeout):
    res = KResults()
    for src_kind in ("bytes", "NumpyIO"):
        for named in (True, False):
            rec = {}
            eng = new_engine(handlers=_io_handlers(rec))
            p = new_path()
            tn = z3.Int("name")
            p.pc.append(IsStruct(tn))
            H0 = Hof(p)
            if src_kind == "bytes":
                buf = Custom(BytesOf(tag="input"))
            else:
                buf = cy.new_io(p, "given_io")
            tag = f"[{src_kind}]"
            try:
                outs = eng.run("from_buffer", p, [buf, Custom(TypeNameV(tn)) if named else NONE])
            except Unsupported as ex:
                res.addk(f"from_buffer{tag}.out_of_reach", "functional", UNKNOWN, None, 0.0, "engine", str(ex))
                continue
            nm = "from_buffer.wraps_read_thrift_result_in_named_type" + tag if named else "from_buffer.without_name_returns_the_dict" + tag
            for q in outs:
                r = obj_of(q) if q.ctl[0] == "ret" else None
                rd = rec.get("reads", [])
                if r is None or len(rd) != 1:
                    res.addk(nm, "functional", REFUTED, {"read_thrift_calls": len(rd), "path": str(q.ctl[0])}, 0.0, "engine", "exactly one read_thrift call, an object returned")
                    continue
                oid, loc, rt = rd[0]
                if src_kind == "bytes":
                    io_src = dict(rec.get("ios", [])).get(oid)
                    on_input = z3.And(z3.BoolVal(io_src is not None and io_src[0] == "bytes" and io_src[1] is buf.h), loc == 0)
                else:
                    on_input = z3.And(z3.BoolVal(oid == "given_io"), loc == cy.loc(p, "given_io"))
                if named:
                    goal = z3.And(on_input, Kind(r) == K_THRIFT, TName(r) == tn, TData(r) == rt, inv_thrift(r), heap_same(q, H0))
                else:
                    goal = z3.And(on_input, r == rt, heap_same(q, H0))
                post(res, nm, pcx(q), goal, timeout,
                     "read_thrift runs once, at the start of the given bytes (or at the given NumpyIO's cursor); its dict is wrapped - not copied - in a "
                     "ThriftObject of the named type" if named else "without a name the parsed dict itself is returned")
            guard(res, nm, len(rets(outs)), "from_buffer returns")
            rename(eng, {"from_buffer.": "from_buffer.", "ThriftObject.__init__.": "from_buffer.init."})
            res.take_engine(eng, "", timeout)
    return res


HYPS = {"hyp_no_field_id_ge_14": "C10-P-field-id-14-outside-loop / C10-field-id-14-dropped",
        "hyp_serialisation_fits_buffer": "C10-P-to-bytes-capacity / C10-to-bytes-fixed-buffer-overflow",
        "hyp_int_fields_have_marker_width_and_none_is_i8_i16": "C10-narrow-int-written-as-i64 / C10-P-i8-parsed-unsigned / C10-P-setattr-ignores-width-marker",
        "hyp_text_fields_hold_bytes": "C10-dict-eq-asymmetric-str-bytes (a str written comes back as bytes)"}


def check_pickle(timeout):
    res = KResults()
    load_tables()
    rec = {}
    eng = new_engine(handlers=_io_handlers(rec))
    p = new_path()
    s, sd, t = thrift_input(p, "self")
    _to_bytes_pre(p, sd, t)
    H0 = Hof(p)
    try:
        outs = run_method(eng, "__reduce_ex__", p, [Custom(ObjV(s)), PyI(4)])
    except Unsupported as ex:
        res.addk("reduce.out_of_reach", "functional", UNKNOWN, None, 0.0, "engine", str(ex))
        return res
    n = 0
    hyps = [z3.Bool(h) for h in HYPS]
    for q in outs:
        if q.ctl[0] != "ret":
            post(res, "reduce.reconstructs_via_from_buffer_of_to_bytes", pcx(q), z3.BoolVal(False), timeout, "pickling must not raise")
            continue
        n += 1
        v = q.ctl[1]
        ok = isinstance(v, Tup) and len(v.items) == 2 and isinstance(v.items[0], Opaque) and v.items[0].tag == "func:from_buffer" and \
            isinstance(v.items[1], Tup) and len(v.items[1].items) == 2 and isinstance(v.items[1].items[0], Custom) and isinstance(v.items[1].items[0].h, BytesOf) and \
            isinstance(v.items[1].items[1], Custom) and isinstance(v.items[1].items[1].h, TypeNameV)
        ws = rec.get("writes", [])
        mine = [w for w in ws if any(str(w[3]) in str(c) for c in q.pc[-8:])] or ws[-1:]
        if not ok or len(mine) != 1:
            res.addk("reduce.reconstructs_via_from_buffer_of_to_bytes", "functional", REFUTED, {"shape_ok": ok, "write_thrift_calls": len(mine)}, 0.0, "engine",
                     "(from_buffer, (bytes(self.to_bytes()), self.name))")
            continue
        d, oid, loc0, loc1, mem1 = mine[0]
        bts, nmv = v.items[1].items
        post(res, "reduce.reconstructs_via_from_buffer_of_to_bytes", pcx(q),
             z3.And(d == sd, _prefix_goal(bts.h.view, oid, loc1), nmv.h.tid == t, heap_same(q, H0)), timeout,
             "the pickle is (from_buffer, (b, name)) with b == exactly the bytes to_bytes wrote for the object's own data and name == its type name")
        # composition: unpickling = from_buffer(b, name); read_thrift by contract on the bytes write_thrift produced
        rec2 = {}
        hs = _io_handlers(rec2)

        def h_read_contract(eng_, p_, args, kw, node, d=d, oid=oid, loc1=loc1, mem1=mem1, bts=bts):
            out = hs_read(eng_, p_, args, kw, node)
            io, loc, rt = rec2["reads"][-1]
            src = dict(rec2.get("ios", [])).get(io)
            if src is not None and src[0] == "bytes" and src[1] is bts.h:
                # the input IS the serialisation of d (whole, from its first byte): the byte-level contracts give an equal structure
                p_.pc.append(z3.Implies(z3.And(loc == 0, *hyps), z3.And(DEQ(rt, d), DEQ(d, rt))))
            return out
        hs_read = hs["read_thrift"]
        hs["read_thrift"] = h_read_contract
        eng2 = new_engine(handlers=hs)
        q2 = q.fork()
        q2.ctl = None
        try:
            outs2 = eng2.run("from_buffer", q2, [bts, nmv])
        except Unsupported as ex:
            res.addk("pickle.out_of_reach", "functional", UNKNOWN, None, 0.0, "engine", str(ex))
            continue
        for q3 in outs2:
            r = obj_of(q3) if q3.ctl[0] == "ret" else None
            post(res, "pickle.roundtrip_equal_under_hypotheses", pcx(q3) + hyps,
                 z3.And(Kind(r) == K_THRIFT, TName(r) == t, DEQ(TData(r), sd), DEQ(sd, TData(r)), heap_same(q3, H0)) if r is not None else z3.BoolVal(False), timeout,
                 "pickle.loads(pickle.dumps(x)): a ThriftObject of the same type whose data dict_eq-equals x's, GIVEN the hypotheses of the byte-level "
                 "round trip: " + "; ".join(f"{h} [{k}]" for h, k in HYPS.items()))
            st = solve(pcx(q3) + [z3.Not(z3.And(DEQ(TData(r), sd)))], 2000)[0] if r is not None else UNKNOWN
            res.addk("pickle.hypotheses_are_needed(must-fail)", "functional", PROVED if st == REFUTED else UNKNOWN, None, 0.0, "z3",
                     "without the hypotheses the round-trip equality is not derivable (the contract is not vacuous)")
    guard(res, "reduce.reconstructs_via_from_buffer_of_to_bytes", n, "__reduce_ex__ returns")
    rename(eng, {"ThriftObject.__reduce_ex__.": "reduce.", "ThriftObject.to_bytes.": "reduce.to_bytes.", "ThriftObject.__getitem__.": "reduce.getitem.",
                 "NumpyIO.so_far.": "reduce.so_far."})
    res.take_engine(eng, "", timeout)
    return res


# ------------------------------------------------------------------------------------------------
# dict_eq / __eq__
# ------------------------------------------------------------------------------------------------
S_STRUCT, S_LIST, S_BIN, S_SCALAR, S_OTHER = range(5)


def shape(v):
    k = Kind(v)
    return z3.If(k == K_DICT, S_STRUCT, z3.If(k == K_LIST, S_LIST, z3.If(z3.Or(k == K_BYTES, k == K_STR), S_BIN,
                 z3.If(z3.Or(k == K_BOOL, k == K_INT, k == K_FLOAT), S_SCALAR, S_OTHER))))


def txt(v):
    return z3.If(Kind(v) == K_BYTES, TxtOf(Val(v)), Val(v))


def leaf_agree(a, b):
    """binary / scalar values agree (specification): same bytes / same text when one side is str and the other bytes (both are the
    IDL's `binary`/`string`); numbers by value"""
    return z3.If(shape(a) == S_BIN, z3.If(Kind(a) == Kind(b), Val(a) == Val(b), txt(a) == txt(b)), Val(a) == Val(b))


def _dict_eq_run(first, second, kk, H, pre, as_thrift=False):
    """run dict_eq(first, second) with the loop cut at ONE ARBITRARY key kk; -> (state, outs, eng)"""
    state = {"rec": []}

    def hook(eng, st, p):
        it = eng.ev1(st.iter, p)
        state["iter"] = it.h.dicts if isinstance(it, Custom) and isinstance(it.h, KeySetV) else None
        d1v, d2v = p.env.get("d1"), p.env.get("d2")
        state["locals"] = (to_obj(eng, p, d1v), to_obj(eng, p, d2v))
        q = p.fork()
        a, b = state["locals"]
        q.pc.append(z3.Or(dsel(q, a, kk) != ABSENT, dsel(q, b, kk) != ABSENT))
        q.env["k"] = Custom(KeyV(kk))
        q.env.pop("s", None)
        n0 = len(q.pc)
        outs = eng.block(st.body, [q])
        state["body"] = (n0, outs)
        ex = p.fork()
        ex.env.pop("k", None)
        ex.env.pop("s", None)
        ex.ghost["exit"] = True
        return [ex] + [b_ for b_ in outs if isinstance(b_.ctl, tuple)]

    def h_rec(eng, p, args, kw, node):
        a, b = to_obj(eng, p, args[0]), to_obj(eng, p, args[1])
        state["rec"].append((a, b))
        return [(p, PyB(DEQ(a, b)))]
    eng = new_engine(loops={("dict_eq", 0): LoopSpec("hook", inv=hook)}, handlers={"dict_eq": h_rec})
    p = new_path()
    p.ghost["H"] = H
    p.pc += pre
    outs = eng.run("dict_eq", p, [Custom(ObjV(first)), Custom(ObjV(second))])
    return state, outs, eng


def _verdicts(state):
    """(differ, agree, error) as formulas over the iteration's own branch conditions"""
    n0, outs = state["body"]
    D, A, E = [], [], []
    for b in outs:
        f = z3.And(*(list(b.pc[n0:]) + list(b.axioms))) if (len(b.pc) > n0 or b.axioms) else z3.BoolVal(True)
        if b.ctl in (None, "continue"):
            A.append(f)
        elif isinstance(b.ctl, tuple) and b.ctl[0] == "ret":
            D.append(f)
        else:
            E.append(f)
    o = lambda xs: z3.Or(*xs) if xs else z3.BoolVal(False)
    return o(D), o(A), o(E)


def check_dict_eq(timeout):
    res = KResults()
    d1, d2 = z3.Const("d1", Obj), z3.Const("d2", Obj)
    kk = z3.Int("key")
    H = z3.Const("heap0", HeapS)
    v1, v2 = z3.Select(z3.Select(H, d1), kk), z3.Select(z3.Select(H, d2), kk)
    dec = lambda x: z3.And(Kind(Decode(x)) == K_STR, Val(Decode(x)) == TxtOf(Val(x)))
    pre = [Kind(d1) == K_DICT, Kind(d2) == K_DICT, z3.Or(v1 == ABSENT, real(v1)), z3.Or(v2 == ABSENT, real(v2)), dec(v1), dec(v2),
           DEQ(v1, v2) == DEQ(v2, v1)]
    n1, n2 = nonelike(v1), nonelike(v2)
    same_shape = z3.Implies(z3.And(z3.Not(n1), z3.Not(n2)), z3.And(shape(v1) == shape(v2), shape(v1) != S_OTHER))
    mf = lambda m: {"key_encoded(2k=int,2s+1=str)": mv(m, kk), "d1[k]": "<absent>" if str(mv(m, v1 == ABSENT)) == "True" else kname(m, v1),
                    "d2[k]": "<absent>" if str(mv(m, v2 == ABSENT)) == "True" else kname(m, v2),
                    "same_utf8_text": mv(m, txt(v1) == txt(v2)), "same_value": mv(m, Val(v1) == Val(v2)), "rec_dict_eq": mv(m, DEQ(v1, v2))}
    try:
        st12, outs12, eng12 = _dict_eq_run(d1, d2, kk, H, pre)
        st21, outs21, eng21 = _dict_eq_run(d2, d1, kk, H, pre)
    except Unsupported as ex:
        res.addk("dict_eq.out_of_reach", "functional", UNKNOWN, None, 0.0, "engine", str(ex))
        return res
    if "body" not in st12 or "body" not in st21:
        res.addk("dict_eq.key_verdict_matches_spec", "functional", UNKNOWN, None, 0.0, "engine", "key loop not reached")
        return res
    it = st12.get("iter") or []
    post(res, "dict_eq.loop_covers_keys_of_both", list(BASE) + pre, z3.And(z3.BoolVal(len(it) == 2), z3.Or(z3.And(it[0] == d1, it[1] == d2), z3.And(it[0] == d2, it[1] == d1)))
         if len(it) == 2 else z3.BoolVal(False), timeout, "the loop runs over the keys of d1 AND of d2 (a field present on one side only is compared)", mf)
    n0, bouts = st12["body"]
    nA = nD = 0
    for b in bouts:
        hyp = pcx(b) + [same_shape]
        is_int = kk % 2 == 0
        if b.ctl in (None, "continue"):
            nA += 1
            zp = b.ghost.get("zip_pred")
            if zp is not None and zp[0] is not None:
                z = zp[0]
                a_, b_ = LItem(z.a, z.j), LItem(z.b, z.j)
                elem_pre = [z.a == v1, z.b == v2, z3.Implies(z.rng(), z3.And(shape(a_) == shape(b_), shape(a_) != S_OTHER, shape(a_) != S_LIST))]
                lists = z3.And(LLen(v1) == LLen(v2), z3.Implies(z.rng(), z3.If(Kind(a_) == K_DICT, DEQ(a_, b_), leaf_agree(a_, b_))))
            else:
                elem_pre, lists = [], z3.BoolVal(False)
            agree = z3.If(z3.Or(n1, n2), z3.And(n1, n2),
                          z3.If(shape(v1) == S_STRUCT, DEQ(v1, v2), z3.If(shape(v1) == S_LIST, lists, leaf_agree(v1, v2))))
            for sfx, xh in (("", []), ("[outside known region]", [z3.Not(z3.And(Kind(v1) == K_BYTES, Kind(v2) == K_STR))])):
                post(res, "dict_eq.key_verdict_matches_spec" + sfx, hyp + elem_pre + xh, z3.Implies(is_int, agree), timeout,
                     "the iteration for an integer key passes on (no `return False`) only if the two values agree: both None/absent; nested struct: "
                     "recursive dict_eq; list: same length and element J agrees; binary: same bytes - or same text when one side is str and the other "
                     "bytes; number: same value", mf)
        elif isinstance(b.ctl, tuple) and b.ctl[0] == "ret":
            nD += 1
            v = b.ctl[1]
            isF = isinstance(v, PyB) and z3.is_false(z3.simplify(v.z))
            differ = z3.If(z3.Or(n1, n2), z3.Not(z3.And(n1, n2)),
                           z3.If(shape(v1) == S_STRUCT, z3.Not(DEQ(v1, v2)), z3.If(shape(v1) == S_LIST, True, z3.Not(leaf_agree(v1, v2)))))
            post(res, "dict_eq.key_verdict_matches_spec", hyp, z3.And(z3.BoolVal(isF), is_int, differ), timeout,
                 "the iteration returns False only for an integer key whose two values differ (binary: different text; a str on one side and the same "
                 "text as bytes on the other are the SAME value of an IDL string/binary field)", mf)
            post(res, "dict_eq.key_verdict_matches_spec[outside known region]", hyp + [z3.Not(z3.And(Kind(v1) == K_BYTES, Kind(v2) == K_STR))],
                 z3.And(z3.BoolVal(isF), is_int, differ), timeout,
                 "... holds unless the left value is bytes and the right one str (region of C10-P-dict-eq-asymmetric-str-bytes excluded)", mf)
            post(res, "dict_eq.marker_keys_immaterial", pcx(b), is_int, timeout, "a string key ('i32', 'i32list') never makes two structures unequal", mf)
        else:
            post(res, "dict_eq.key_verdict_matches_spec", hyp, z3.BoolVal(False), timeout, "no exception on two structures of the same IDL shape [" + str(b.ctl) + "]", mf)
    guard(res, "dict_eq.key_verdict_matches_spec", min(nA, nD), "an agreeing and a differing iteration")
    res.addk("dict_eq.requires_sat", "functional", PROVED if any(solve(pcx(b) + [same_shape], 3000)[0] == REFUTED for b in bouts) else UNKNOWN, None, 0.0, "z3",
             "precondition (same IDL shape) and a path condition are satisfiable (not vacuous)")
    # exit: True
    nX = 0
    for q in rets(outs12):
        if q.ghost.get("exit"):
            nX += 1
            v = q.ctl[1]
            post(res, "dict_eq.returns_True_iff_no_key_differs", pcx(q), z3.BoolVal(isinstance(v, PyB) and z3.is_true(z3.simplify(v.z))), timeout,
                 "when no iteration returned False the result is True", mf)
    guard(res, "dict_eq.returns_True_iff_no_key_differs", nX, "loop exit")
    # symmetry per key (values that are not lists) and per list element
    D12, A12, E12 = _verdicts(st12)
    D21, A21, E21 = _verdicts(st21)
    hyp = list(BASE) + pre + [same_shape, z3.Or(v1 != ABSENT, v2 != ABSENT), z3.Or(n1, n2, shape(v1) != S_LIST)]
    post(res, "dict_eq.symmetric_per_key", hyp, z3.And(D12 == D21, z3.Not(E12), z3.Not(E21)), timeout,
         "dict_eq(d1, d2) and dict_eq(d2, d1) decide every key alike (an equivalence is symmetric: `parsed == given` must hold whenever "
         "`given == parsed` does)", mf)
    mixed = z3.And(z3.Not(n1), z3.Not(n2), shape(v1) == S_BIN, Kind(v1) != Kind(v2))
    post(res, "dict_eq.symmetric_per_key[outside known region]", hyp + [z3.Not(mixed)], z3.And(D12 == D21, z3.Not(E12), z3.Not(E21)), timeout,
         "... holds whenever the two values are not one str and one bytes (region of C10-P-dict-eq-asymmetric-str-bytes excluded)", mf)
    post(res, "dict_eq.reflexive_per_key", list(BASE) + pre + [v1 == v2, v1 != ABSENT, z3.Or(n1, z3.And(shape(v1) != S_LIST, shape(v1) != S_OTHER)), DEQ(v1, v1)],
         z3.And(z3.Not(D12), z3.Not(E12)), timeout, "a key whose two values are the same object never makes the structures unequal (non-list values; lists: "
         "element test `a != a` / the recursive call)", mf)
    zs12 = [b.ghost["zip_pred"] for b in st12["body"][1] if b.ghost.get("zip_pred") and b.ghost["zip_pred"][0] is not None]
    zs21 = [b.ghost["zip_pred"] for b in st21["body"][1] if b.ghost.get("zip_pred") and b.ghost["zip_pred"][0] is not None]
    if zs12 and zs21:
        (za, pa), (zb, pb) = zs12[0], zs21[0]
        jj = za.j
        a_, b_ = LItem(v1, jj), LItem(v2, jj)
        e12 = z3.Or(*[z3.And(*(c + [t_])) for c, t_ in pa])
        e21 = z3.substitute(z3.Or(*[z3.And(*(c + [t_])) for c, t_ in pb]), (zb.j, jj))
        hyp = list(BASE) + pre + [za.a == v1, za.b == v2, zb.a == v2, zb.b == v1, real(a_), real(b_), shape(a_) == shape(b_), shape(a_) != S_OTHER, shape(a_) != S_LIST,
                                  DEQ(a_, b_) == DEQ(b_, a_)]
        post(res, "dict_eq.list_elements_symmetric", hyp, e12 == e21, timeout,
             "the per-element test of two lists gives the same answer with the operands exchanged (with equal lengths this makes list fields symmetric)", mf)
    else:
        res.addk("dict_eq.list_elements_symmetric", "functional", UNKNOWN, None, 0.0, "engine", "element comparison of list values not found")
    # ThriftObject arguments are unwrapped
    try:
        o1 = z3.Const("t1", Obj)
        stT, outsT, engT = _dict_eq_run(o1, d2, kk, H, [Kind(o1) == K_THRIFT, Kind(TData(o1)) == K_DICT, Kind(d2) == K_DICT])
        loc = stT.get("locals")
        post(res, "dict_eq.unwraps_thrift_arguments", list(BASE) + [Kind(o1) == K_THRIFT], z3.And(loc[0] == TData(o1), loc[1] == d2) if loc else z3.BoolVal(False), timeout,
             "a ThriftObject argument is compared through its data dict")
    except Unsupported as ex:
        res.addk("dict_eq.unwraps_thrift_arguments", "functional", UNKNOWN, None, 0.0, "engine", str(ex))
    for e_ in (eng12,):
        rename(e_, {"dict_eq.": "dict_eq."})
        for ob in e_.oblig:
            ob.pc = list(ob.pc) + [same_shape]
        res.take_engine(e_, "", timeout, mf)
    return res


def check_eq(timeout):
    res = KResults()
    calls = []

    def h_de(eng, p, args, kw, node):
        a, b = to_obj(eng, p, args[0]), to_obj(eng, p, args[1])
        calls.append((a, b))
        return [(p, PyB(DEQ(a, b)))]
    eng = new_engine(handlers={"dict_eq": h_de})
    p = new_path()
    s, sd, t = thrift_input(p, "self")
    other = z3.Const("other", Obj)
    p.pc += [real(other)]
    H0 = Hof(p)
    mf = lambda m: {"other_kind": kname(m, other)}
    try:
        outs = run_method(eng, "__eq__", p, [Custom(ObjV(s)), Custom(ObjV(other))])
    except Unsupported as ex:
        res.addk("eq.out_of_reach", "functional", UNKNOWN, None, 0.0, "engine", str(ex))
        return res
    for q in outs:
        v = q.ctl[1] if q.ctl[0] == "ret" else None
        if not isinstance(v, PyB):
            post(res, "eq.compares_data_dicts", pcx(q), z3.BoolVal(False), timeout, "__eq__ returns a bool", mf)
            continue
        want = z3.If(Kind(other) == K_THRIFT, DEQ(sd, TData(other)), z3.If(Kind(other) == K_DICT, DEQ(sd, other), False))
        post(res, "eq.compares_data_dicts", pcx(q), z3.And(v.z == want, heap_same(q, H0)), timeout,
             "x == y is dict_eq(x's data, y's data) for a ThriftObject y, dict_eq(x's data, y) for a dict y (own data on the LEFT), False for anything "
             "else; nothing is modified", mf)
    guard(res, "eq.compares_data_dicts", len(rets(outs)), "__eq__ returns")
    rename(eng, {"ThriftObject.__eq__.": "eq."})
    res.take_engine(eng, "", timeout, mf)
    return res


# ------------------------------------------------------------------------------------------------
# _asdict
# ------------------------------------------------------------------------------------------------
def check_asdict(timeout):
    res = KResults()
    state = {}

    def hook(eng, st, p):
        it = eng.ev1(st.iter, p)
        tid = it.h.tid if isinstance(it, Custom) and isinstance(it.h, SpecOf) else None
        ov = p.env.get("out")
        if tid is None or not (isinstance(ov, Custom) and isinstance(ov.h, ObjV)):
            raise Unsupported("_asdict: the loop is not `for k in self.spec` filling `out`")
        out = ov.h.t
        q = p.fork()
        q.ghost["H"] = z3.Store(Hof(q), out, z3.Const("out_content_before_iteration", DictS))
        ks = z3.Int("field_k")
        q.pc += [ks >= 0, IsField(tid, ks), table_inv(tid, ks)]
        sd_ = TData(to_obj(eng, q, q.env["self"]))
        v_ = dsel(q, sd_, ikey(SpecId(tid, ks)))
        # IDL shape of the stored value: a child field holds nothing, a dict or a list of dicts
        q.pc += [z3.Implies(HasChild(tid, ks), z3.Or(nonelike(v_), Kind(v_) == K_DICT, z3.And(Kind(v_) == K_LIST, Kind(LItem(v_, J)) == K_DICT)))]
        q.env["k"] = Custom(NameV(ks))
        for nm in ("lower", "l"):
            q.env.pop(nm, None)
        Hb = Hof(q)
        outs = eng.block(st.body, [q])
        state.update(tid=tid, out=out, ks=ks, Hb=Hb, outs=outs, entry_H=Hof(p), entry_pc=pcx(p), allocs=[str(a) for a in p.ghost.get("allocs", [])])
        ex = p.fork()
        ex.ghost["H"] = z3.Store(Hof(ex), out, z3.Const("out_content_after_loop", DictS))
        ex.ghost["exit"] = True
        return [ex] + [b for b in outs if isinstance(b.ctl, tuple)]
    eng = new_engine(loops={("ThriftObject._asdict", 0): LoopSpec("hook", inv=hook)})
    p = new_path()
    s, sd, t = thrift_input(p, "self")
    try:
        outs = run_method(eng, "_asdict", p, [Custom(ObjV(s))])
    except Unsupported as ex:
        res.addk("asdict.out_of_reach", "functional", UNKNOWN, None, 0.0, "engine", str(ex))
        return res
    if "outs" not in state:
        res.addk("asdict.one_entry_per_declared_field", "functional", UNKNOWN, None, 0.0, "engine", "field loop not reached")
        return res
    ks, Hb, out = state["ks"], state["Hb"], state["out"]
    fid = SpecId(t, ks)
    v = z3.Select(z3.Select(Hb, sd), ikey(fid))
    mf = lambda m: {"type": mv(m, t), "field_k": mv(m, ks), "has_child": mv(m, HasChild(t, ks)), "stored_kind": kname(m, v)}
    n = 0
    for b in state["outs"]:
        if b.ctl not in (None, "continue"):
            post(res, "asdict.one_entry_per_declared_field", pcx(b) + [out != sd, out != v], z3.BoolVal(False), timeout, "no exception for a declared field [" + str(b.ctl) + "]", mf)
            continue
        n += 1
        X = z3.Select(z3.Select(Hof(b), out), skey(ks))
        plain = z3.And(z3.Not(HasChild(t, ks)), Kind(v) != K_BYTES, Kind(v) != K_LIST)
        post(res, "asdict.one_entry_per_declared_field", pcx(b) + [out != sd],
             z3.And(state["tid"] == t, heap_same(b, z3.Store(Hb, out, z3.Store(z3.Select(Hb, out), skey(ks), X)), keep=[out]), X != ABSENT,
                    z3.Implies(nonelike(v), Kind(X) == K_NONE), z3.Implies(z3.And(plain, z3.Not(nonelike(v))), X == v)), timeout,
             "one iteration per field NAME of the own spec: exactly out[name] is set (None for an absent field, the stored object for a plain value), "
             "nothing else changes", mf)
    guard(res, "asdict.one_entry_per_declared_field", n, "field loop body")
    for q in rets(outs):
        if q.ghost.get("exit"):
            r = obj_of(q)
            post(res, "asdict.returns_the_dict_built", pcx(q), z3.And(r == out, z3.BoolVal(str(out) in [str(a) for a in q.ghost.get("allocs", [])])) if r is not None else z3.BoolVal(False),
                 timeout, "the new dict filled by the loop is returned", mf)
    rename(eng, {"ThriftObject._asdict.": "asdict.", "ThriftObject.__getattr__.": "asdict.getattr.", "ThriftObject.__init__.": "asdict.init."})
    res.take_engine(eng, "", timeout, mf)
    return res


# ------------------------------------------------------------------------------------------------
def check_markers(timeout):
    """frame of the integer-width side channel ('i32' / 'i32list' keys) over the Python code base: contracts/c10_markerframe.py"""
    from . import c10_markerframe
    return c10_markerframe.check(None, timeout)


def check_fieldwidth(timeout):
    """every thrift field the library's own Python code sets has a width the serialiser can emit: contracts/c10_fieldwidth.py"""
    from . import c10_fieldwidth
    return c10_fieldwidth.check(None, timeout)


TASKS = ["init", "getattr", "setattr", "mutation", "callsites", "raw", "from_fields", "copy", "to_bytes", "from_buffer", "pickle", "dict_eq", "eq", "asdict", "markers",
         "fieldwidth"]
FUNCTIONS = ["ThriftObject.__init__", "ThriftObject.__getattr__", "ThriftObject.__setattr__", "ThriftObject.__delattr__", "ThriftObject.__setitem__",
             "ThriftObject.__getitem__", "ThriftObject.__delitem__", "ThriftObject.get", "ThriftObject.to_bytes", "ThriftObject.__reduce_ex__",
             "ThriftObject.thrift_name", "ThriftObject.contents", "ThriftObject.copy", "ThriftObject.__copy__", "ThriftObject.__deepcopy__",
             "ThriftObject._asdict", "ThriftObject.__eq__", "ThriftObject.from_fields", "from_buffer", "dict_eq", "NumpyIO.so_far"]


def run_task(name, timeout):
    load_tables()
    return globals()["check_" + name](timeout)


def check(ctx, timeout):
    """all parts, sequentially (props/_thriftobj.py runs the same tasks in a process pool) -> [Results]"""
    if ctx is not None:
        cy.register(ctx, FUNCTIONS)
    return [run_task(t, timeout) for t in TASKS]
