"""C14 / C08 - `util.analyse_paths(file_list, root=False)` executed symbolically from its real source.

Model.  file_list: N >= 1 paths; `join_path(fn).split('/')` of path p is its list of LEN(p) >= 1 components COMP(p, 0..LEN(p)-1)
(component texts are compared by identity of an integer id; the last component is the file name).  Text operations are
uninterpreted with stated facts (ASSUMED): split('/') / '/'.join are inverse on component lists.  `root`: False, or a text whose
normalised components are RCOMP(0..RLEN-1).

root not given - with l = number of components of the returned basepath, for ALL paths p and levels i (Skolem pair):
  analyse_paths.basepath_is_longest_common_directory_prefix   basepath == '/'.join(COMP(0, 0..l-1));  l <= LEN(p) - 1 (the file name - at
        least one component - stays relative);  COMP(p, i) == COMP(0, i) for i < l (common);  and it cannot be longer: l == LEN(0) - 1,
        or some path q has its file name at level l or differs from path 0 at level l  (l is the FIRST level that is not common)
  analyse_paths.relative_paths_keep_every_differing_level     a level at which some path differs from the first one is never part of the
        base path: it stays in the relative paths (partition directories are not swallowed)
  analyse_paths.every_path_is_basepath_plus_relative          out[k] == '/'.join(COMP(k, l..LEN(k)-1)) and the base components are path
        k's first l components: components(basepath) ++ components(out[k]) == components(path k)
  analyse_paths.order_preserved                               len(out) == N and out[k] is made from path k
  carried by  path_loop / component_loop / output_loop .invariant_on_entry / .invariant_preserved  and  path_loop.covers_every_path
root given:
  analyse_paths.root_given_is_honoured[returns]   basepath == '/'.join(components of join_path(root)), every path starts with them
  analyse_paths.root_given_is_honoured[raises]    AssertionError only if some path does not start with the root's components
plus safety (index_in_range@L..: N >= 1 is the precondition of `path_parts_list[0]`).

Further families of this module (each in its own try/except; `enumeration (executed)` = the expression / function of the CURRENT source run on a
generated table, a bound):
  analyse_paths.executed_table[<shape>]              the real function on file lists (deeper level common / higher differs, depths, single, identical)
  ParquetFile.__init__.root_handed_to_metadata_from_many[list|glob|directory, root given|not given]     symbolic run: provenance of `root`
  ParquetFile.basepath / row_group_filename.*[<fn shape>]                                              executed
  hive_path.regex_and_split_agree[value: <shape> | key: <shape>]   util.ex_from_sep's pattern (api.filter_out_cats) == the split convention
  paths_to_cats.executed[key: <shape>]               api.paths_to_cats on oracle-spelled hive paths (backs contracts/c08_paths.py's symbolic families)
  _read_partitions.cats_are_exactly_paths_to_cats_of_current_row_groups (symbolic run, arbitrary prior cats) + _read_partitions.executed[...]
  part_id.number_is_that_of_the_file_name[<shape>]   api.PART_ID (precondition of c07_parts' find_max_part.fresh)
check() = analyse_paths + __init__ + basepath (props/_analyse.py: C08, C14); check_conventions(ctx, which) = the others (props/_pathconv.py).
"""
import ast

import z3

from vc import backends
from vc.front_py import parse_module
from vc.symexec import (Path, Opt, PyI, PyB, Str, Tup, Custom, Opaque, NoneV, NONE, Unsupported, BUILTINS)
from vlib.common import PROVED, REFUTED, UNKNOWN
from .c04_sorted import (H, LSeq, Univ, register, ix, discharge_inst, comp_over, h_all, h_any, ListEngine, merge_v, subst_v,
                         _assigned_names, _mentions)
from .c14_many import MList, NO_ELT
from .util import Results, solve

ASSUMED = [
    "analyse_paths: join_path(fn).split('/') is the list of the path's components (at least one: the file name); '/'.join(parts) and "
    "split('/') are inverse on component lists, so a path IS its component list and '/'.join(a) joined with '/'.join(b) is '/'.join(a + b)",
    "component texts are compared by an integer id (equal id <=> equal text); file_list is not empty (path_parts_list[0])",
    "loops are summarised by invariants proved on entry and after an arbitrary iteration from a havoc'd state; their universal parts "
    "are carried at the Skolem path / level of the postconditions, the 'cannot be longer' part by a ghost witness path",
]

I, B = z3.IntSort(), z3.BoolSort()
N = z3.Int("n_paths")
LEN = z3.Function("n_components", I, I)
COMP = z3.Function("component", I, I, I)
RLEN = z3.Int("n_root_components")
RCOMP = z3.Function("root_component", I, I)
STARTS = z3.Function("path_starts_with_root", I, B)
WI = z3.Function("level_where_path_leaves_root", I, I)
ROOT = -7          # pseudo path index of the root's component list
PS, IS, KS = z3.Int("ix_path_q"), z3.Int("ix_level_q"), z3.Int("ix_out_q")
TS = z3.Int("ix_position_q")


def comp(k, i):
    return RCOMP(i) if (isinstance(k, int) and k == ROOT) else COMP(k, i)


class PSeq(LSeq):
    """components [start, start + n) of path k (k == ROOT: of the normalised root)"""

    def __init__(self, k, start, n):
        if isinstance(k, int) and k != ROOT:
            k = z3.IntVal(k)
        self.k, self.start = k, (z3.simplify(start) if z3.is_expr(start) else z3.IntVal(start))
        super().__init__(n, lambda i: PyI(comp(self.k, z3.simplify(self.start + i))))

    def subst(self, pairs):
        s = lambda t: z3.simplify(z3.substitute(t, *pairs)) if z3.is_expr(t) else t
        out = PSeq(s(self.k), s(self.start), s(self.n))
        out.loop, out.slice_loop = self.loop, self.slice_loop
        return out

    def slice(self, eng, p, lo, hi, node):
        r = LSeq.slice(self, eng, p, lo, hi, node).h
        # LSeq.slice computed the clamped bounds: recover the start from the element function (component self.start + s0 + P)
        P = z3.Int("ix_probe")
        e0 = r.at(P)
        idx = e0.z.arg(e0.z.num_args() - 1)
        s0 = z3.simplify(z3.substitute(idx, (P, z3.IntVal(0))))
        if not z3.is_true(z3.simplify(idx == s0 + P)):
            raise Unsupported("slice of a component list with a non-affine start")
        out = PSeq(self.k, s0, r.n)
        out.loop, out.slice_loop = self.slice_loop, self.slice_loop
        return Custom(out)

    def eq(self, eng, p, other):
        # parts(k)[:l] == <root components>: same length and "path k agrees with the root on the levels both have" (defined at its uses)
        if isinstance(other, Custom) and isinstance(other.h, PSeq):
            a, b = (self, other.h) if isinstance(other.h.k, int) else (other.h, self)
            if isinstance(b.k, int) and b.k == ROOT and not isinstance(a.k, int) and z3.is_true(z3.simplify(a.start == 0)) \
                    and z3.is_true(z3.simplify(b.start == 0)) and z3.is_true(z3.simplify(b.n == RLEN)):
                return z3.And(a.n == b.n, STARTS(a.k))
        return LSeq.eq(self, eng, p, other)


def starts_def(k):
    """definition of STARTS at path k: agreement with the root on every level both have (the 'not' direction Skolemised by WI)"""
    w = WI(k)
    return z3.Implies(z3.Not(STARTS(k)), z3.And(0 <= w, w < RLEN, w < LEN(k), COMP(k, w) != RCOMP(w)))


class RelJ(H):
    """'/'.join(components [start, start + n) of path k)"""

    def __init__(self, k, start, n):
        self.k, self.start, self.n = k, start, n

    def ints(self):
        return (z3.IntVal(self.k) if isinstance(self.k, int) else self.k), self.start, self.n

    def merge(self, c, other):
        if not (isinstance(other, Custom) and isinstance(other.h, RelJ)):
            raise Unsupported("merge of a joined path with something else")
        a, b = self.ints(), other.h.ints()
        return RelJ(*[z3.If(c, x, y) for x, y in zip(a, b)])

    def subst(self, pairs):
        return RelJ(*[z3.simplify(z3.substitute(x, *pairs)) for x in self.ints()])


class PathT(H):
    def __init__(self, k):
        self.k = k

    def subst(self, pairs):
        return PathT(z3.simplify(z3.substitute(self.k, *pairs)))


class Norm(H):
    """join_path(x): the normalised text; only .split('/') is asked of it"""

    def __init__(self, k):
        self.k = k

    def call_method(self, eng, p, name, args, kw, node):
        if name == "split" and len(args) == 1 and isinstance(args[0], Str) and args[0].s == "/":
            if isinstance(self.k, int):
                return [(p, Custom(PSeq(ROOT, 0, RLEN)))]
            return [(p, Custom(PSeq(self.k, 0, LEN(self.k))))]
        raise Unsupported("text." + name)


class RootT(H):
    def truth(self, eng, p):
        return z3.BoolVal(True)


# =================================================================================================
# loops
# =================================================================================================
def path_of(item):
    """the path index of a loop item (a component list, possibly inside an enumerate tuple)"""
    if isinstance(item, Tup):
        for x in item.items:
            k = path_of(x)
            if k is not None:
                return k
        return None
    if isinstance(item, Custom) and isinstance(item.h, PSeq) and not isinstance(item.h.k, int):
        return item.h.k
    return None


def havoc_names(eng, p, st):
    for nm in _assigned_names(st.body) | {x.id for x in ast.walk(st.target) if isinstance(x, ast.Name)}:
        if nm in p.env:
            p.env[nm] = Opaque((nm, "havoc", next(eng.counter)))


def state_var(p, st, kind):
    """the one variable the loop carries: assigned in the body, alive before the loop, holding a component list / an int"""
    names = [nm for nm in sorted(_assigned_names(st.body)) if nm in p.env and
             ((kind == "list" and isinstance(p.env[nm], Custom) and isinstance(p.env[nm].h, PSeq)) or
              (kind == "int" and isinstance(p.env[nm], PyI)))]
    if len(names) != 1:
        raise Unsupported(f"loop with {len(names)} carried {kind} variables (expected one)")
    return names[0]


def base_inv(p, base, K, pidx):
    """the base path after the first K positions of the path loop (pidx: position -> path index):
    a prefix of path 0's directory levels, common to the processed paths (at the Skolem position TS / level IS), leaving every
    processed path its file name, and not extendable (ghost witness position p.ghost['wit'])"""
    if not (isinstance(base, Custom) and isinstance(base.h, PSeq)):
        return z3.BoolVal(False)
    b, q = base.h.n, pidx(TS)
    w = p.ghost["wit"]
    qw = pidx(w)
    return z3.And(base.h.k == 0 if not isinstance(base.h.k, int) else z3.BoolVal(False), base.h.start == 0, 0 <= b, b <= LEN(0) - 1,
                  z3.Implies(z3.And(0 <= TS, TS < K), z3.And(b <= LEN(q) - 1, z3.Implies(z3.And(0 <= IS, IS < b), COMP(q, IS) == COMP(0, IS)))),
                  z3.Or(b == LEN(0) - 1, z3.And(0 <= w, w < K, z3.Or(b == LEN(qw) - 1, COMP(qw, b) != COMP(0, b)))))


def classify(eng, p, st, item):
    q = p.fork()
    n_ob = len(eng.oblig)
    before = {k: q.ghost[k] for k in q.ghost if isinstance(k, tuple) and k[0] == "newlist"}
    try:
        ends = []
        for b in eng.assign(st.target, item, q):
            ends += eng.block(st.body, [b])
    finally:
        del eng.oblig[n_ob:]
    return {k for r in ends if r.ctl in (None, "continue") for k in before if r.ghost.get(k) is not before[k]}


def paths_loop(eng, p, st, seq):
    """a loop over the list of component lists (plain or enumerated, possibly a slice)"""
    P0 = z3.Int("ix_probe")
    if path_of(seq.at(P0)) is None:
        raise Unsupported("loop over something that is not the list of path component lists")
    pidx = lambda t: z3.simplify(z3.substitute(path_of(seq.at(P0)), (P0, t)))
    grown = classify(eng, p, st, seq.at(ix(eng, "trial")))
    if grown:
        return output_loop(eng, p, st, seq, pidx, grown)
    var = state_var(p, st, "list")
    p.ghost["wit"] = z3.IntVal(-1)
    eng.oblige(p, f"{eng.cur_func}.path_loop.invariant_on_entry", "inv", base_inv(p, p.env[var], z3.IntVal(0), pidx), st,
               note="before the first path: the first path's directory levels")
    eng.oblige(p, f"{eng.cur_func}.path_loop.covers_every_path", "inv", z3.And(seq.n == N, z3.Implies(z3.And(0 <= TS, TS < N), pidx(TS) == TS)), st,
               note="the loop visits every path of file_list")
    exit_path, body = p.fork(), p.fork()
    K = ix(eng, "path_pos")
    body.pc += [0 <= K, K < seq.n]
    for q, kk in ((body, K), (exit_path, seq.n)):
        havoc_names(eng, q, st)
        q.env[var] = Custom(PSeq(0, 0, eng.fresh_int("base_len")))
        q.ghost["wit"] = ix(eng, "wit_pos")
        q.pc.append(base_inv(q, q.env[var], kk, pidx))
    body.ghost["cur_pos"] = K
    if solve(list(body.pc), 3000)[0] != REFUTED or solve(list(exit_path.pc), 3000)[0] != REFUTED:
        raise Unsupported("path loop: the assumed invariant is not satisfiable (proof-script error)")
    outs = []
    for b in eng.assign(st.target, seq.at(K), body):
        for r in eng.block(st.body, [b]):
            if r.ctl in (None, "continue"):
                # 'cannot be longer': the witness is the old one or the position just processed
                goals = []
                for w in (r.ghost["wit"], K):
                    r2 = r.ghost["wit"]
                    r.ghost["wit"] = w
                    goals.append(base_inv(r, r.env.get(var), K + 1, pidx))
                    r.ghost["wit"] = r2
                eng.oblige(r, f"{eng.cur_func}.path_loop.invariant_preserved", "inv", z3.Or(*goals), st,
                           note="after an arbitrary path: still the longest prefix of the first path's directories common to the paths seen")
            elif r.ctl == "break":
                raise Unsupported("break in the path loop")
            else:
                outs.append(r)
    exit_path.ghost["cur_pos"] = None
    return [exit_path] + outs


def component_loop(eng, p, st, seq):
    """for k, (base_part, path_part) in enumerate(zip(base, parts)): ... break - invariant: the carried int is unchanged and the
    levels before k agree (at the Skolem level IS); a `break` leaves the loop from the arbitrary iteration"""
    var = state_var(p, st, "int")
    j0 = p.env[var].z
    KK = ix(eng, "level_pos")
    item = seq.at(KK)
    pair = item.items[1] if isinstance(item, Tup) and len(item.items) == 2 and isinstance(item.items[1], Tup) else item
    if not (isinstance(pair, Tup) and len(pair.items) == 2 and all(isinstance(x, PyI) for x in pair.items)):
        raise Unsupported("loop over something that is not (enumerate of) a zip of two component lists")
    pair_at = lambda t: [z3.substitute(x.z, (KK, t)) for x in pair.items]
    inv = lambda q, k: z3.And(q.env[var].z == j0 if isinstance(q.env.get(var), PyI) else z3.BoolVal(False),
                              z3.Implies(z3.And(0 <= IS, IS < k, IS < seq.n), pair_at(IS)[0] == pair_at(IS)[1]))
    exit_path, body = p.fork(), p.fork()
    body.pc += [0 <= KK, KK < seq.n]
    for q, kk in ((body, KK), (exit_path, seq.n)):
        havoc_names(eng, q, st)
        q.env[var] = PyI(j0)
        q.pc.append(inv(q, kk))
    outs = []
    for b in eng.assign(st.target, item, body):
        for r in eng.block(st.body, [b]):
            if r.ctl in (None, "continue"):
                eng.oblige(r, f"{eng.cur_func}.component_loop.invariant_preserved", "inv", inv(r, KK + 1), st,
                           note="a level that agrees changes nothing: the cut position is still the initial one and all levels so far agree")
            elif r.ctl == "break":
                r.ctl = None
                outs.append(r)          # leaves the loop in the state of the arbitrary iteration (levels before it agree)
            else:
                outs.append(r)
    return [exit_path] + outs


def output_loop(eng, p, st, seq, pidx, grown):
    """for parts in path_parts_list: out_list.append('/'.join(parts[l:])) - invariant: out has one entry per path seen, entry t is
    made from path t's components from level l0 on (l0: whatever `l` is when the loop starts)"""
    if len(grown) != 1:
        raise Unsupported("output loop growing several lists")
    (acc,) = grown
    lvar = [nm for nm in ("l",) if nm in p.env and isinstance(p.env[nm], PyI)]
    l0 = p.ghost.get("l_at_output")

    def inv(q, K):
        L = q.ghost[acc]
        e = L.at(TS)
        if e is NO_ELT:
            return L.n == K if z3.is_int_value(L.n) and L.n.as_long() == 0 else z3.BoolVal(False)
        if not (isinstance(e, Custom) and isinstance(e.h, RelJ)):
            return z3.BoolVal(False)
        k, s, n = e.h.ints()
        return z3.And(L.n == K, z3.Implies(z3.And(0 <= TS, TS < K), z3.And(k == pidx(TS), s == q.ghost["rel_start"](pidx(TS)), n == LEN(k) - s)))
    # the level the relative paths start at: read off the first trial element
    trial = p.fork()
    n_ob = len(eng.oblig)
    T = ix(eng, "trial_pos")
    try:
        ends = []
        for b in eng.assign(st.target, seq.at(T), trial):
            ends += eng.block(st.body, [b])
    finally:
        del eng.oblig[n_ob:]
    e = ends[0].ghost[acc].at(p.ghost[acc].n) if ends else None
    if not (isinstance(e, Custom) and isinstance(e.h, RelJ)):
        raise Unsupported("output loop that does not append '/'.join(parts[<level>:])")
    start_T, pT = e.h.ints()[1], pidx(T)
    if not (z3.is_const(pT) and pT.eq(T)):
        raise Unsupported("output loop over a shifted list of paths")
    # the level the relative path of path k starts at (Python slicing clamps it to the path's length): the trial's, with T := k
    p.ghost["rel_start"] = (lambda k: z3.substitute(start_T, (T, k)))
    eng.oblige(p, f"{eng.cur_func}.output_loop.invariant_on_entry", "inv", inv(p, z3.IntVal(0)), st, note="the output list starts empty")
    eng.oblige(p, f"{eng.cur_func}.output_loop.covers_every_path", "inv", z3.And(seq.n == N, z3.Implies(z3.And(0 <= TS, TS < N), pidx(TS) == TS)), st,
               note="one relative path per path of file_list, in order")
    exit_path, body = p.fork(), p.fork()
    K = ix(eng, "out_pos")
    body.pc += [0 <= K, K < seq.n]
    for q, kk in ((body, K), (exit_path, seq.n)):
        havoc_names(eng, q, st)
        t = next(eng.counter)
        hk, hs, hn = (z3.Function(f"out_{x}!{t}", I, I) for x in ("path", "start", "n"))
        q.ghost[acc] = LSeq(kk, lambda j, hk=hk, hs=hs, hn=hn: Custom(RelJ(hk(j), hs(j), hn(j))))
        q.pc.append(inv(q, kk))
    outs = []
    for b in eng.assign(st.target, seq.at(K), body):
        for r in eng.block(st.body, [b]):
            if r.ctl in (None, "continue"):
                eng.oblige(r, f"{eng.cur_func}.output_loop.invariant_preserved", "inv", inv(r, K + 1), st,
                           note="after an arbitrary path: its relative path was appended at its own position")
            elif r.ctl == "break":
                raise Unsupported("break in the output loop")
            else:
                outs.append(r)
    return [exit_path] + outs


# =================================================================================================
# the contract
# =================================================================================================
class PathsEngine(ListEngine):
    def s_Assert(self, st, p):
        """`assert c, msg` is a CHECK of the function: the failing branch raises AssertionError"""
        out = []
        for q, c in self.cond(st.test, p):
            ok, bad = q.fork(c), q.fork(z3.Not(c))
            if self.feasible(bad):
                bad.ctl = ("raise", "AssertionError")
                bad.trace.append(("raise", st.lineno))
                out.append(bad)
            if self.feasible(ok):
                out.append(ok)
        return out

    def identical(self, a, b, p):
        for x, y in ((a, b), (b, a)):
            if isinstance(x, Custom) and isinstance(x.h, RootT) and isinstance(y, PyB):
                return z3.BoolVal(False)
        return super().identical(a, b, p)


def run_paths(funcs, timeout, with_root):
    res = Results()
    tag = "root given" if with_root else "root not given"

    def set_loops(out):
        for q, v in out or []:
            if isinstance(v, Custom) and isinstance(v.h, LSeq):
                v.h.loop = v.h.slice_loop = paths_loop
        return out

    def h_listcomp(eng, p, e):
        if len(e.generators) != 1:
            return None
        rs = eng.ev(e.generators[0].iter, p)
        if len(rs) != 1:
            raise Unsupported("forking comprehension source")
        q, coll = rs[0]
        if isinstance(coll, Custom) and isinstance(coll.h, MList):
            coll = Custom(coll.h.cur(q))
        return set_loops(comp_over(eng, q, e, coll))

    def h_join_path(eng, p, args, kw, node):
        a = args[0]
        if len(args) == 1 and isinstance(a, Custom) and isinstance(a.h, PathT):
            return [(p, Custom(Norm(a.h.k)))]
        if len(args) == 1 and isinstance(a, Custom) and isinstance(a.h, RootT):
            return [(p, Custom(Norm(ROOT)))]
        raise Unsupported("join_path of something else")

    def h_join(eng, p, args, kw, node):
        sep, lst = args[0], args[1]
        if isinstance(sep, Str) and sep.s == "/" and isinstance(lst, Custom) and isinstance(lst.h, PSeq):
            return [(p, Custom(RelJ(lst.h.k, lst.h.start, lst.h.n)))]
        raise Unsupported("join of something that is not a run of one path's components")

    def h_zip(eng, p, args, kw, node):
        if len(args) == 2 and all(isinstance(a, Custom) and isinstance(a.h, LSeq) for a in args):
            a, b = args[0].h, args[1].h
            out = LSeq(z3.If(a.n <= b.n, a.n, b.n), lambda j: Tup([a.at(j), b.at(j)]))
            out.loop = component_loop
            return [(p, Custom(out))]
        raise Unsupported("zip")

    def h_enumerate(eng, p, args, kw, node):
        v = args[0]
        if isinstance(v, Custom) and isinstance(v.h, MList):
            v = Custom(v.h.cur(p))
        if isinstance(v, Custom) and isinstance(v.h, LSeq) and len(args) == 1:
            s = v.h
            out = LSeq(s.n, lambda j: Tup([PyI(j), s.at(j)]))
            out.loop = s.loop
            return [(p, Custom(out))]
        return BUILTINS["enumerate"](eng, p, args, kw, node)

    def h_emptylist(eng, p, e):
        key = ("newlist", next(eng.counter))
        p.ghost[key] = LSeq(0, lambda j: NO_ELT)
        return [(p, Custom(MList(key)))]
    handlers = {"listcomp": h_listcomp, "join_path": h_join_path, ".join": h_join, "zip": h_zip, "enumerate": h_enumerate,
                "emptylist": h_emptylist, "all": h_all, "any": h_any}
    eng = PathsEngine(funcs=funcs, handlers=handlers, opaque_calls=False)
    p = Path()
    p.pc += [N >= 1, RLEN >= 0]
    register(p, Univ(1, lambda t: z3.And(z3.Implies(z3.And(0 <= t, t < N), LEN(t) >= 1), starts_def(t))), False)
    register(p, Univ(2, lambda t, u: z3.Implies(z3.And(STARTS(t), 0 <= u, u < RLEN, u < LEN(t)), COMP(t, u) == RCOMP(u))), False)
    flist = LSeq(N, lambda k: Custom(PathT(k)))
    root = Custom(RootT()) if with_root else PyB(False)
    outs = eng.run("analyse_paths", p, [Custom(flist), root])

    def mf(m):
        ev = lambda t: backends.model_value(m, t)
        n = min(int(ev(N) or 0), 4)
        d = {"n_paths": ev(N), "path_q": ev(PS), "level_q": ev(IS)}
        for k in range(n):
            ln = min(int(ev(LEN(k)) or 0), 6)
            d[f"path{k}"] = [ev(COMP(k, i)) for i in range(ln)]
        if with_root:
            d["root"] = [ev(RCOMP(i)) for i in range(min(int(ev(RLEN) or 0), 6))]
        return d
    for ob in eng.oblig:
        st, m, secs = discharge_inst(ob.pc, ob.axioms, ob.univ, False, ob.goal, timeout)
        res.add(f"analyse_paths[{tag}]." + ob.name.split(".", 1)[-1], st, mf(m) if m is not None else None, secs, "z3", ob.note or ob.kind)
    n_ret = n_raise = 0
    for q in outs:
        univ = q.ghost.get("univ", [])

        def pose(name, goal, detail, extra=()):
            st, m, secs = discharge_inst([*q.pc, *extra], q.axioms, univ, False, goal, timeout)
            res.add(f"analyse_paths.{name}", st, mf(m) if m is not None else None, secs, "z3", detail)
        if q.ctl[0] == "raise":
            n_raise += 1
            if with_root and q.ctl[1] == "AssertionError":
                w = ix(eng, "w_bad_path")
                # the assertion failed => some path does not start with the root (witness: the all()'s Skolem member)
                cands = [c for c in backends_consts(q) if str(c).startswith("ix_w_all")]
                goal = z3.Or(*[z3.And(0 <= c, c < N, z3.Or(LEN(c) < RLEN, z3.Not(STARTS(c)))) for c in cands]) if cands else z3.BoolVal(False)
                pose("root_given_is_honoured[raises]", goal, "AssertionError only if some path does not start with the root's components")
            else:
                res.add(f"analyse_paths[{tag}].does_not_raise", REFUTED, {"raises": q.ctl[1]}, 0.0, "z3", "unexpected exception path")
            continue
        n_ret += 1
        v = q.ctl[1]
        ok = isinstance(v, Tup) and len(v.items) == 2 and isinstance(v.items[0], Custom) and isinstance(v.items[0].h, RelJ) \
            and isinstance(v.items[1], Custom) and isinstance(v.items[1].h, MList)
        if not ok:
            res.add(f"analyse_paths[{tag}].returns_basepath_and_list", UNKNOWN, None, 0.0, "engine", "return value has another shape: out of reach")
            continue
        bk, bs, l = v.items[0].h.ints()
        out = v.items[1].h.cur(q)
        e = out.at(KS)
        if not (isinstance(e, Custom) and isinstance(e.h, RelJ)):
            res.add(f"analyse_paths[{tag}].returns_basepath_and_list", UNKNOWN, None, 0.0, "engine", "output list elements are not joined component runs")
            continue
        ek, es, en = e.h.ints()
        inr = z3.And(0 <= PS, PS < N)
        # the invariants were carried at position TS == path TS: pose the postconditions for that path
        same = [TS == PS, KS == PS]
        if not with_root:
            w = q.ghost.get("wit", z3.IntVal(-1))
            common = z3.Implies(inr, z3.And(l <= LEN(PS) - 1, z3.Implies(z3.And(0 <= IS, IS < l), COMP(PS, IS) == COMP(0, IS))))
            longest = z3.Or(l == LEN(0) - 1, z3.And(0 <= w, w < N, z3.Or(l == LEN(w) - 1, COMP(w, l) != COMP(0, l))))
            pose("basepath_is_longest_common_directory_prefix", z3.And(bk == 0, bs == 0, 0 <= l, common, longest),
                 "basepath = the first path's levels [0, l): common to ALL paths, every path keeps its file name, and level l is not common (l is the FIRST such level)", same)
            pose("relative_paths_keep_every_differing_level",
                 z3.Implies(z3.And(inr, 0 <= IS, IS < LEN(PS), IS < LEN(0), COMP(PS, IS) != COMP(0, IS)), z3.And(l <= IS, z3.Implies(KS == PS, z3.And(es <= IS, IS < es + en)))),
                 "a level where some path differs from the first is not swallowed by the base path: it is a level of the relative paths", same)
        else:
            pose("root_given_is_honoured[returns]", z3.And(bk == ROOT, bs == 0, l == RLEN, z3.Implies(inr, z3.And(LEN(PS) >= RLEN, STARTS(PS)))),
                 "basepath = the normalised root's components, and (no AssertionError) every path starts with them", same)
        pose(f"every_path_is_basepath_plus_relative[{tag}]",
             z3.Implies(z3.And(inr, KS == PS), z3.And(ek == PS, es == l, en == LEN(PS) - l, en >= (0 if with_root else 1),
                                                       z3.Implies(z3.And(0 <= IS, IS < l), comp(ROOT if with_root else z3.IntVal(0), IS) == COMP(PS, IS)))),
             "out[k] = path k's components from level l on, the base path = its first l components: base ++ out[k] is path k", same)
        pose(f"order_preserved[{tag}]", z3.And(out.n == N, z3.Implies(z3.And(0 <= KS, KS < N), ek == KS)),
             "one relative path per given path, at the same position", [TS == KS])
    res.add(f"analyse_paths[{tag}].paths_reached", PROVED if n_ret >= 1 and (n_raise >= 1 or not with_root) else UNKNOWN, None, 0.0, "z3",
            f"returning paths {n_ret}, raising paths {n_raise}")
    # vacuity: every assumed invariant is satisfiable together with its path (checked where it was assumed: eng.assumed_paths) and
    # the returning path admits two paths in different partition directories; must-fail: "the base path is empty" is refuted
    vac = {"requires_sat": 0, "must_fail_sat": 0}
    sat_all = all(solve([*q.pc, *q.axioms], 3000)[0] == REFUTED for q in outs)
    for q in outs:
        if q.ctl[0] == "ret" and isinstance(q.ctl[1], Tup):
            l = q.ctl[1].items[0].h.ints()[2]
            if sat_all and solve([*q.pc, *q.axioms, N == 2, LEN(0) == 3, LEN(1) == 3] + ([COMP(0, 1) != COMP(1, 1)] if not with_root else []), 3000)[0] == REFUTED:
                vac["requires_sat"] = 1
            if discharge_inst(q.pc, q.axioms, q.ghost.get("univ", []), False, l == 0, 3000)[0] == REFUTED:
                vac["must_fail_sat"] = 1
    return res, n_ret, vac


def backends_consts(q):
    seen, out = set(), {}

    def walk(x):
        if x.get_id() in seen:
            return
        seen.add(x.get_id())
        if z3.is_const(x) and x.decl().kind() == z3.Z3_OP_UNINTERPRETED and x.sort() == I:
            out[str(x)] = x
        for c in x.children():
            walk(c)
    for f in [*q.pc, *q.axioms]:
        walk(f)
    return list(out.values())


# =================================================================================================================================
#  api.ParquetFile.__init__: which `root` reaches metadata_from_many / analyse_paths  (C08 / C14)
# =================================================================================================================================
ROOT_GIVEN, FN_IS_LIST, STAR_IN_FN = z3.Bool("root_given"), z3.Bool("fn_is_a_list"), z3.Bool("star_in_fn")
INIT_ASSUMED = [
    "ParquetFile.__init__ is run with a filesystem object fs (given, or derived from open_with): fs._strip_protocol(x) only removes a "
    "protocol prefix - it names the same directory as x; fs.find(d) lists the files below directory d, fs.glob(pattern) those matching",
    "with util.analyse_paths' contract (analyse_paths.root_given_is_honoured[returns], same module): the base path of the handle is the "
    "root it is given, so every directory level below that root is a partition level of the relative paths",
    "ParquetFile.basepath / row_group_filename are EXECUTED (their expressions compiled from the current source, util.join_path too) on a "
    "generated table of fn shapes: backend `enumeration (executed)`, a bound, not a proof; bases are non-root directories without "
    "backslash or trailing '/'",
]


class _Prov:
    """a value of __init__ identified by where it comes from"""
    tracked = False

    def __init__(self, what, truthy=None):
        self.what, self.truthy = what, truthy

    def truth(self, eng, p):
        return self.truthy if self.truthy is not None else z3.BoolVal(True)

    def is_none(self, eng, p):
        return z3.BoolVal(False)

    def isinstance(self, eng, p, tn):
        return FN_IS_LIST if self.what == "fn" and "list" in tn else z3.BoolVal(False)

    def contains(self, eng, p, item):
        if self.what == "fn" and isinstance(item, Str) and item.s == "*":
            return STAR_IN_FN
        raise Unsupported("membership test on " + str(self.what))

    def call_method(self, eng, p, name, args, kw, node):
        if name in ("endswith", "startswith"):
            return [(p, PyB(eng.fresh(name, B)))]
        return [(p, Opaque((str(self.what), name, next(eng.counter))))]

    def attr(self, eng, p, name):
        return Opaque((str(self.what), name))

    def arbitrary(self, eng, p):
        return Custom(_Prov(("member of", self.what)))

    def nonempty(self, eng, p):
        return z3.Bool("some file found")


class _SelfV:
    tracked = False

    def setattr(self, eng, p, name, v):
        pass

    def attr(self, eng, p, name):
        return Opaque(("self", name))

    def call_method(self, eng, p, name, args, kw, node):
        return [(p, NONE)]


class _FsV:
    tracked = False

    def truth(self, eng, p):
        return z3.BoolVal(True)

    def is_none(self, eng, p):
        return z3.BoolVal(False)

    def isinstance(self, eng, p, tn):
        return z3.BoolVal(True)

    def attr(self, eng, p, name):
        return Opaque(("fs", name))

    def call_method(self, eng, p, name, args, kw, node):
        a = args[0] if args else None
        pa = a.h if isinstance(a, Custom) and isinstance(a.h, _Prov) else None
        if name == "_strip_protocol":
            return [(p, Custom(_Prov(("strip_protocol", pa.what if pa else "?"), pa.truthy if pa else None)))]
        if name in ("isfile", "isdir", "exists"):
            return [(p, PyB(z3.Bool("fs." + name)))]
        if name in ("glob", "find"):
            return [(p, Custom(_Prov(("fs." + name, pa.what if pa else "?"))))]
        return [(p, Opaque(("fs", name, next(eng.counter))))]


ASSUMED += INIT_ASSUMED


def run_init_root(funcs, timeout):
    from .c08_paths import Eng
    from vc.symexec import AbstractComp

    class E2(Eng):
        def identical(self, a, b, p):
            try:
                return super().identical(a, b, p)
            except Unsupported:
                return self.fresh("is", B)
    res = Results()
    calls = []

    def h_mfm(eng, p, args, kw, node):
        calls.append((args[0] if args else kw.get("file_list"), kw.get("root", args[3] if len(args) > 3 else None), list(p.pc), node.lineno))
        return [(p, Tup([Opaque("basepath"), Opaque("fmd")]))]
    eng = E2(funcs=funcs, handlers={"metadata_from_many": h_mfm, "hasattr": lambda e, p, a, k, n: [(p, PyB(z3.Bool("fn_has_read")))]},
             opaque_calls=True)
    eng.run("ParquetFile.__init__", Path(), [Custom(_SelfV()), Custom(_Prov("fn"))],
            {"root": Custom(_Prov("root", ROOT_GIVEN)), "fs": Custom(_FsV()), "open_with": Opaque("default_open")})
    P = "ParquetFile.__init__."
    seen = set()
    for files, root, pc, line in calls:
        h = files.h if isinstance(files, Custom) else None
        if isinstance(h, _Prov) and h.what == "fn":
            kind = "list"
        elif isinstance(h, _Prov) and h.what == ("fs.glob", "fn"):
            kind = "glob"
        elif isinstance(h, AbstractComp) and isinstance(h.coll, Custom) and isinstance(h.coll.h, _Prov) and h.coll.h.what == ("fs.find", "fn"):
            kind = "directory"
        elif isinstance(h, _Prov) and h.what == ("fs.find", "fn"):
            kind = "directory"
        else:
            res.add(P + f"many_files_call_site_recognised@L{line}", UNKNOWN, None, 0.0, "symbolic run", "metadata_from_many is called with a file list of unknown origin")
            continue
        seen.add(kind)
        rw = root.h.what if isinstance(root, Custom) and isinstance(root.h, _Prov) else ("False" if isinstance(root, PyB) else type(getattr(root, "h", root)).__name__)
        for given in (True, False):
            if solve(pc + [ROOT_GIVEN if given else z3.Not(ROOT_GIVEN)], timeout)[0] == PROVED:
                continue                           # this path belongs to the other case
            tag = f"[{kind}, root {'given' if given else 'not given'}]"
            if given:
                want, detail = ("strip_protocol", "root"), "the user's root (protocol stripped) is what metadata_from_many / analyse_paths receives"
            elif kind == "directory":
                want, detail = ("strip_protocol", "fn"), ("a DIRECTORY name opened without a _metadata file is itself the root handed to metadata_from_many / "
                                                          "analyse_paths (root = root or fn): every directory level below the directory the user named is a "
                                                          "partition level - a top-level key with a single value is NOT swallowed by the common prefix")
            else:
                want, detail = "root", ("no root for a list of files / a glob pattern: the parameter's default (False) goes through and analyse_paths takes the "
                                        "longest common directory prefix - legitimate here, the user named no directory")
            ok = rw == want
            res.add(P + "root_handed_to_metadata_from_many" + tag, PROVED if ok else REFUTED, None if ok else {"root argument comes from": str(rw), "line": line},
                    0.0, "symbolic run", detail)
    for kind in ("list", "directory", "glob"):
        res.add(P + f"many_files_branch_reached[{kind}]", PROVED if kind in seen else UNKNOWN, None, 0.0, "symbolic run",
                "the symbolic run of __init__ reaches a metadata_from_many call for this kind of input")
    return res, len(calls)


# =================================================================================================================================
#  api.ParquetFile.basepath / row_group_filename: executed on a table of fn shapes  (C14 / C08)
# =================================================================================================================================
BASES = {"bare name (files share no directory)": [""], "one directory": ["d", "data.dir"], "nested": ["a/b", "a/b/c_d/e"],
         "absolute": ["/abs", "/abs/x/y"], "relative with dots": ["./d", "../up/d"], "name containing _metadata": ["a_metadata", "x/_metadata_old", "_metadata/sub"],
         "protocol-like": ["bucket/key=1"]}
RELS = ["part.0.parquet", "k=1/part.0.parquet", "a=x/b=2/part.10.parquet", "f0.parquet"]


def run_basepath(funcs_api, funcs_util):
    import re as _re
    import types
    res = Results()

    def compile_fn(f, name):
        node = ast.FunctionDef(name=name, args=f.tree.args, body=f.tree.body, decorator_list=[], returns=None, type_comment=None, type_params=[])
        mod = ast.Module(body=[node], type_ignores=[])
        ast.fix_missing_locations(mod)
        return compile(mod, f"<{name} from the current source>", "exec")
    ns = {"re": _re}
    exec(compile_fn(funcs_util["join_path"], "join_path"), ns)
    exec(compile_fn(funcs_api["ParquetFile.basepath"], "basepath"), ns)
    exec(compile_fn(funcs_api["ParquetFile.row_group_filename"], "row_group_filename"), ns)
    jp = ns["join_path"]
    Stub = type("HandleStub", (), {"basepath": property(ns["basepath"]), "row_group_filename": ns["row_group_filename"]})

    def rg_of(fp):
        return types.SimpleNamespace(columns=[types.SimpleNamespace(file_path=fp)] if fp is not ... else [])
    n = 0
    for shape, bases in BASES.items():
        bad_b, bad_r = None, None
        for base in bases:
            # the fn values __init__ produces: join_path(basepath, '_metadata') if basepath else '_metadata' (many files), join_path(dir, '_metadata')
            # (directory with a _metadata file), and the same with a trailing '/' (basepath's regex allows it)
            fns = [jp(base, "_metadata") if base else "_metadata"]
            fns += [fns[0] + "/"]
            for fn in fns:
                h = Stub()
                h.fn = fn
                n += 1
                try:
                    got = h.basepath
                except Exception as ex:
                    got = f"{type(ex).__name__}: {ex}"
                if got != base and bad_b is None:
                    bad_b = {"fn": fn, "basepath": got, "expected": base}
                for rel in RELS:
                    n += 1
                    try:
                        got = h.row_group_filename(rg_of(rel))
                    except Exception as ex:
                        got = f"{type(ex).__name__}: {ex}"
                    want = (base + "/" + rel) if base else rel
                    if got != want and bad_r is None:
                        bad_r = {"fn": fn, "file_path": rel, "row_group_filename": got, "expected (the path the file was listed under)": want}
        res.add(f"ParquetFile.basepath.is_the_directory_of_the_metadata_file[{shape}]", REFUTED if bad_b else PROVED, bad_b, 0.0, "enumeration (executed)",
                "for fn == '<base>/_metadata' ('_metadata' alone for the empty base; also with a trailing '/'): basepath == base exactly ('' for the bare name)")
        res.add(f"ParquetFile.row_group_filename.is_base_joined_with_the_relative_path[{shape}]", REFUTED if bad_r else PROVED, bad_r, 0.0, "enumeration (executed)",
                "row_group_filename(rg) == join_path(base, rg.columns[0].file_path) == the path the file was listed under (inverse of analyse_paths: "
                "base ++ relative == original path); the relative path alone for the empty base")
    bad = None
    for fn in ("data.parquet", "dir/data.parq", "/abs/one.parquet"):
        for rg in (rg_of(None), rg_of(...)):
            h = Stub()
            h.fn = fn
            n += 1
            try:
                got = h.row_group_filename(rg)
            except Exception as ex:
                got = f"{type(ex).__name__}: {ex}"
            if got != fn and bad is None:
                bad = {"fn": fn, "row_group_filename": got}
    res.add("ParquetFile.row_group_filename.single_file_is_fn_itself", REFUTED if bad else PROVED, bad, 0.0, "enumeration (executed)",
            "a row group without file_path (simple file) is read from self.fn")
    return res, n


# =================================================================================================================================
#  conventions shared by the path helpers - executed on generated tables (backend `enumeration (executed)`: a bound, not a proof)
# =================================================================================================================================
FID_KEY_REGEX = "C05-P-partition-key-regex-word-characters-only"
CONVENTION_ASSUMED = [
    "hive_path / part_id / analyse_paths[executed] / _read_partitions[executed]: the expressions are compiled from the CURRENT source (or the "
    "current tree is imported) and EXECUTED on generated tables of path texts; the tables are stated in the obligation details - a bound",
    "ORACLE for a hive path: every directory level that contains '=' is (text before the first '=', everything after it up to the next '/'); "
    "this is what api._path_to_cats / core.read_row_group obtain by split for texts without a further '=' (contracts/c08_paths.py)",
]
ASSUMED += CONVENTION_ASSUMED


def _compile_def(f, name):
    node = ast.FunctionDef(name=name, args=f.tree.args, body=f.tree.body, decorator_list=[], returns=None, type_comment=None, type_params=[])
    mod = ast.Module(body=[node], type_ignores=[])
    ast.fix_missing_locations(mod)
    return compile(mod, f"<{name} from the current source>", "exec")


VALUE_SHAPES = {
    "plain word": ["abc", "Zz_q9", "north"], "text with a space": ["north east", " lead", "trail "], "text with + : & % , ;": ["a+b", "12:30", "x&y", "50%", "a,b;c"],
    "non-ASCII text": ["été", "中文", "naïve café"], "dots and dashes": ["1.5", "a.b-c", "q-1_2.z"], "negative numbers": ["-3", "-0.5", "-1e-07"],
    "float texts": ["1e+22", "inf", "0.30000000000000004"], "timestamp with time of day": ["2021-06-01T12:30:00", "2021-06-01T12:00:00.123456789", "2021-06-01 12:30:00"],
    "value containing '='": ["a=b", "x==y"], "punctuation": ["*", "~", "[x]", "{y}", "q'\"", "#tag", "(1)", "@home", "!"],
    "empty value": [""],
}
KEY_SHAPES = {
    "word": ["k", "year_month", "K9", "_x", "1st"], "hyphen": ["run-id", "sensor-id"], "dot": ["a.b"], "space": ["my key"],
    "non-ASCII": ["région", "日付"], "other punctuation": ["k%", "a+b", "x:y"],
}


def hive_oracle(path):
    out = []
    for lvl in path.split("/")[:-1]:
        if "=" in lvl:
            k, v = lvl.split("=", 1)
            out.append((k, v))
    return out


def run_hive_convention(util_funcs):
    import re as _re
    res = Results()
    ns = {"re": _re, "seps": {}}
    exec(_compile_def(util_funcs["ex_from_sep"], "ex_from_sep"), ns)
    pat = ns["ex_from_sep"]("/")
    extra = []
    try:                       # the writer's own texts for timestamps: util.path_string of the current source on pandas Timestamps
        import pandas as pd
        ns2 = {"pd": pd}
        exec(_compile_def(util_funcs["path_string"], "path_string"), ns2)
        extra = [ns2["path_string"](pd.Timestamp(t)) for t in ("2021-06-01 12:30:00", "2021-06-01 12:00:00.123456789", "1999-12-31")]
    except Exception:
        pass
    n = 0

    def probe(pairs_list):
        nonlocal n
        for pairs in pairs_list:
            for tail in ("part.0.parquet", "part.12.parquet"):
                path = "/".join(f"{k}={v}" for k, v in pairs) + "/" + tail
                n += 1
                try:
                    got = [tuple(m) if isinstance(m, tuple) else m for m in pat.findall(path)]
                except Exception as ex:
                    got = f"{type(ex).__name__}: {ex}"
                want = hive_oracle(path)
                if got != want:
                    return {"path": path, "pattern": pat.pattern, "regex finds": str(got), "split convention": str(want)}
        return None
    for shape, vals in VALUE_SHAPES.items():
        vals = vals + (extra if shape.startswith("timestamp") else [])
        bad = probe([[("k", v)] for v in vals] + [[("a", v), ("b_2", "7")] for v in vals] + [[("a", "x"), ("b", v)] for v in vals])
        res.add(f"hive_path.regex_and_split_agree[value: {shape}]", REFUTED if bad else PROVED, bad, 0.0, "enumeration (executed)",
                "util.ex_from_sep('/') - the reader api.filter_out_cats uses - finds in '<key>=<value>/.../part.N.parquet' exactly the pairs (key, value "
                "up to the next '/') that the split convention of api._path_to_cats / core.read_row_group gives: both readers of a hive path see "
                "the same partition values (texts as util.path_string produces them for every value kind)")
    for shape, keys in KEY_SHAPES.items():
        bad = probe([[(k, "v1")] for k in keys] + [[(k, "7"), ("id", "3")] for k in keys] + [[("a", "1"), (k, "x y")] for k in keys])
        res.add(f"hive_path.regex_and_split_agree[key: {shape}]", REFUTED if bad else PROVED, bad, 0.0, "enumeration (executed)",
                "the same for the KEY: any column name without '/' and '=' is recovered whole by both readers")
    return res, n


# ---- api.PART_ID ------------------------------------------------------------------------------------------------------------------
PART_SHAPES = {
    "plain name": [("part.0.parquet", 0), ("part.7.parquet", 7)], "multi-digit": [("part.10.parquet", 10), ("part.123456.parquet", 123456), ("part.007.parquet", 7)],
    "nested directories": [("a=1/part.3.parquet", 3), ("a=1/b=x y/part.21.parquet", 21), ("/abs/ds/k=2/part.5.parquet", 5)],
    "directory named like a part file": [("src=part.0.parquet/part.5.parquet", 5), ("part.9.parquet/part.2.parquet", 2), ("x/part.1.parquet.d/k=part.33.parquet/part.4.parquet", 4)],
    "directory with digits and dots": [("v1.2.3/part.8.parquet", 8), ("2021.06/d=1.5/part.11.parquet", 11), ("k=part.x/part.6.parquet", 6)],
    "not a part file": [("_metadata", None), ("_common_metadata", None), ("data.parquet", None), ("part.x.parquet", None), ("part.1.parquet.tmp", None),
                        ("a=1/part.1.parquet/other.parquet", None), ("part.1.parq", None), ("part..parquet", None), ("a=part.3.parquet/data.parquet", None)],
}


def run_part_id(api_tree):
    import re as _re
    res = Results()
    node = next((n.value for n in api_tree.body if isinstance(n, ast.Assign) and any(isinstance(t, ast.Name) and t.id == "PART_ID" for t in n.targets)), None)
    if node is None:
        raise Unsupported("api.PART_ID is no longer a module-level assignment")
    pat = eval(compile(ast.Expression(body=node), "<PART_ID from the current source>", "eval"), {"re": _re})
    n = 0
    for shape, rows in PART_SHAPES.items():
        bad = None
        for path, want in rows:
            n += 1
            try:
                m = pat.match(path)                       # as api.part_ids uses it
                got = int(m["i"]) if m else None
            except Exception as ex:
                got = f"{type(ex).__name__}: {ex}"
            if got != want and bad is None:
                bad = {"path": path, "pattern": pat.pattern, "number found": got, "number of the file name": want}
        res.add(f"part_id.number_is_that_of_the_file_name[{shape}]", REFUTED if bad else PROVED, bad, 0.0, "enumeration (executed)",
                "PART_ID.match(path)['i'] (api.part_ids) is the integer of the LAST path component part.<n>.parquet - whatever the directory names "
                "look like - and there is no match for other file names: the precondition of find_max_part.fresh (contracts/c07_parts.py)")
    return res, n


# ---- util.analyse_paths: the real function on a table of file lists ---------------------------------------------------------------------
ANALYSE_TABLE = {
    "single file": [["d/e/part.0.parquet"], ["part.0.parquet"], ["/abs/x.parquet"]],
    "identical paths": [["d/a.parquet", "d/a.parquet"]],
    "flat directory": [["d/a.parquet", "d/b.parquet"], ["a.parquet", "b.parquet"], ["/r/s/a.parquet", "/r/s/b.parquet", "/r/s/c.parquet"]],
    "one partition level": [["ds/k=1/part.0.parquet", "ds/k=2/part.0.parquet"], ["ds/k=1/part.0.parquet", "ds/k=1/part.1.parquet", "ds/k=2/part.0.parquet"]],
    "deeper level common, higher level differs": [["ds/year=2023/kind=x/part.0.parquet", "ds/year=2024/kind=x/part.0.parquet"],
                                                  ["ds/a=1/b=z/c=1/p.parquet", "ds/a=2/b=z/c=1/p.parquet", "ds/a=1/b=z/c=2/p.parquet"],
                                                  ["x/1/same/f.parquet", "y/1/same/f.parquet"]],
    "top level has a single value": [["ds/year=2024/site=a/part.0.parquet", "ds/year=2024/site=b/part.0.parquet"]],
    "different depths": [["ds/part.0.parquet", "ds/k=1/part.1.parquet"], ["ds/a/b/f.parquet", "ds/a/g.parquet", "ds/h.parquet"], ["a/b/c.parquet", "a/b.parquet"]],
    "file name equal to a directory name of another path": [["ds/x/x", "ds/x/y/x"], ["ds/a", "ds/a/a"]],
    "no common directory": [["a/f.parquet", "b/f.parquet"], ["f.parquet", "d/f.parquet"]],
    "backslashes and trailing separators": [["ds\\k=1\\part.0.parquet", "ds/k=2/part.0.parquet"]],
}


def analyse_spec(paths):
    parts = [p.replace("\\", "/").rstrip("/").split("/") for p in paths]
    l = 0
    while all(len(p) - 1 > l for p in parts) and all(p[l] == parts[0][l] for p in parts):
        l += 1
    return "/".join(parts[0][:l]), ["/".join(p[l:]) for p in parts]


def run_analyse_table(util_funcs):
    res = Results()
    ns = {}
    exec(_compile_def(util_funcs["join_path"], "join_path"), ns)
    exec(_compile_def(util_funcs["analyse_paths"], "analyse_paths"), ns)
    fn = ns["analyse_paths"]
    n = 0
    for shape, lists in ANALYSE_TABLE.items():
        bad = None
        for paths in lists:
            for order in (paths, paths[::-1]):
                n += 1
                try:
                    got = fn(list(order))
                    got = (got[0], list(got[1]))
                except Exception as ex:
                    got = f"{type(ex).__name__}: {ex}"
                want = analyse_spec(order)
                if got != want and bad is None:
                    bad = {"file_list": list(order), "analyse_paths returns": str(got), "longest common LEADING directory prefix / relative paths": str(want)}
        res.add(f"analyse_paths.executed_table[{shape}]", REFUTED if bad else PROVED, bad, 0.0, "enumeration (executed)",
                "the real analyse_paths(file_list) on a table of file lists (both orders): base == the longest common LEADING directory prefix (a level "
                "below a differing level never joins the base), out[k] == path k without the base, same order - bounds whatever spelling the function has")
    return res, n


# ---- api.ParquetFile._read_partitions -------------------------------------------------------------------------------------------------
def run_read_partitions(api_funcs):
    """symbolic run of the real method: whatever the prior state of the handle, afterwards file_scheme / cats ARE the two results of ONE call
    paths_to_cats(<file_path of every current row group that has columns>, self.partition_meta) - nothing removed, added or reordered"""
    from .c08_paths import Eng, effects
    from vc.symexec import AbstractComp
    res = Results()

    class CatsResult:
        tracked = False

        def __init__(self, what):
            self.what = what

        def setitem(self, eng, p, i, v, node):
            effects(p).append(("mutated", self.what))

        def getitem(self, eng, p, i, node):
            return Opaque((self.what, "[]"))

        def call_method(self, eng, p, name, args, kw, node):
            if name in ("items", "keys", "values", "get", "copy"):
                return [(p, Custom(Items(self.what)))]
            effects(p).append(("mutated", self.what + "." + name))
            return [(p, NONE)]

        def iterate(self, eng, p):
            return [Opaque((self.what, "key"))]

        def truth(self, eng, p):
            return eng.fresh("nonempty", B)

        def contains(self, eng, p, item):
            return eng.fresh("in", B)

    class Items:
        tracked = False

        def __init__(self, what):
            self.what = what

        def iterate(self, eng, p):
            return [Tup([Opaque((self.what, "key")), Opaque((self.what, "value"))])]

    class RowGroups:
        tracked = False

        def arbitrary(self, eng, p):
            return Custom(RowGroup())

        def nonempty(self, eng, p):
            return z3.Bool("has_row_groups")

    class RowGroup:
        tracked = False

        def getitem(self, eng, p, i, node):
            return Custom(Field(("rg", str(i.z) if isinstance(i, PyI) else "?")))

        def attr(self, eng, p, name):
            return Custom(Field(("rg", name)))

    class Field:
        tracked = False

        def __init__(self, what):
            self.what = what

        def truth(self, eng, p):
            return z3.Bool("row_group_has_columns")

        def getitem(self, eng, p, i, node):
            return Custom(Field(self.what + (str(i.z) if isinstance(i, PyI) else "?",)))

        def attr(self, eng, p, name):
            return Custom(Field(self.what + (name,)))

        def call_method(self, eng, p, name, args, kw, node):
            return [(p, Custom(Field(self.what + (name,) + tuple(str(getattr(a, "z", getattr(a, "s", "?"))) for a in args))))]

    class SelfH:
        tracked = False

        def __init__(self):
            self.state = {"cats": Custom(CatsResult("PRIOR cats of the handle")), "file_scheme": Opaque("prior scheme")}

        def attr(self, eng, p, name):
            if name in self.state:
                return p.ghost.get("state:" + name, self.state[name])
            if name == "row_groups":
                return Custom(RowGroups())
            if name == "partition_meta":
                return Opaque("self.partition_meta")
            return Opaque(("self", name))

        def setattr(self, eng, p, name, v):
            p.ghost["state:" + name] = v
            effects(p).append(("set", name, v))

    def h_p2c(eng, p, args, kw, node):
        effects(p).append(("paths_to_cats", args[0] if args else None, args[1] if len(args) > 1 else kw.get("partition_meta")))
        return [(p, Tup([Opaque("RESULT scheme"), Custom(CatsResult("RESULT cats"))]))]

    def h_getattr(eng, p, args, kw, node):
        if len(args) >= 2 and isinstance(args[0], Custom) and isinstance(args[0].h, SelfH) and isinstance(args[1], Str):
            return [(p, args[0].h.attr(eng, p, args[1].s))]
        return [(p, Opaque(("getattr", next(eng.counter))))]
    me = SelfH()
    eng = Eng(funcs=api_funcs, handlers={"paths_to_cats": h_p2c, "getattr": h_getattr}, opaque_calls=True)
    outs = eng.run("ParquetFile._read_partitions", Path(), [Custom(me)])
    P = "_read_partitions."
    for q in outs:
        log = effects(q)
        calls = [e for e in log if e[0] == "paths_to_cats"]
        ok = len(calls) == 1 and q.ctl[0] == "ret"
        res.add(P + "calls_paths_to_cats_once", PROVED if ok else REFUTED, None if ok else {"calls": len(calls), "ends with": str(q.ctl[0])}, 0.0, "symbolic run",
                "one call, no exception")
        if calls:
            _, paths, meta = calls[0]
            h = paths.h if isinstance(paths, Custom) else None
            ok = isinstance(h, AbstractComp) and isinstance(h.coll, Custom) and isinstance(h.coll.h, RowGroups)
            res.add(P + "paths_are_those_of_the_current_row_groups", PROVED if ok else REFUTED, None, 0.0, "symbolic run",
                    "the paths handed over are one file_path per row group of self.row_groups AS IT IS NOW (filtered only by `the row group has columns`)")
            ok = isinstance(meta, Opaque) and meta.tag == "self.partition_meta"
            res.add(P + "partition_metadata_is_the_handles", PROVED if ok else REFUTED, None, 0.0, "symbolic run", "partition_meta == self.partition_meta")
        sets = {}
        for e in log:
            if e[0] == "set":
                sets[e[1]] = e[2]
        muts = [e[1] for e in log if e[0] == "mutated" and e[1].startswith("RESULT")]
        c_ok = isinstance(sets.get("cats"), Custom) and isinstance(sets["cats"].h, CatsResult) and sets["cats"].h.what == "RESULT cats" and not muts
        s_ok = isinstance(sets.get("file_scheme"), Opaque) and sets["file_scheme"].tag == "RESULT scheme"
        res.add(P + "cats_are_exactly_paths_to_cats_of_current_row_groups", PROVED if c_ok and s_ok else REFUTED,
                None if c_ok and s_ok else {"self.cats is": str(getattr(getattr(sets.get("cats"), "h", None), "what", type(sets.get("cats")).__name__)),
                                            "result changed afterwards by": muts, "self.file_scheme is the result": s_ok}, 0.0, "symbolic run",
                "after the call self.file_scheme, self.cats ARE the pair paths_to_cats returned - the object itself, not filtered / merged with what the handle "
                "held before (ARBITRARY prior self.cats): a partition value that appears with a new row group is a category of the handle")
    return res, len(outs)


def run_read_partitions_executed():
    """bounded backing: the method of the CURRENT tree on stub handles with prior cats that lack / exceed the current values"""
    from runtime.harness import import_fastparquet
    import types
    fp = import_fastparquet()
    from fastparquet import api
    res = Results()
    bad, n = None, 0
    for paths in (["k=a/part.0.parquet", "k=b/part.1.parquet"], ["k=a/x=1/part.0.parquet", "k=c/x=2/part.1.parquet", "k=a/x=2/part.2.parquet"],
                  ["part.0.parquet", "part.1.parquet"], ["abc/part.0.parquet", "de/part.1.parquet"]):
        for prior in (None, {}, {"k": ["a"]}, {"k": ["z", "a", "b", "c"]}, {"k": ["b", "a"], "x": [2]}, {"other": [1]}, {"dir0": ["abc"]}):
            n += 1
            rgs = [{1: [{1: p}]} for p in paths]
            h = types.SimpleNamespace(row_groups=rgs, partition_meta={})
            if prior is not None:
                h.cats, h.file_scheme = {k: list(v) for k, v in prior.items()}, "hive"
            try:
                api.ParquetFile._read_partitions(h)
                got = (h.file_scheme, {k: sorted(map(str, v)) for k, v in h.cats.items()}, list(h.cats))
            except Exception as ex:
                got = f"{type(ex).__name__}: {ex}"
            sch, cats = api.paths_to_cats(paths, {})
            want = (sch, {k: sorted(map(str, v)) for k, v in cats.items()}, list(cats))
            if got != want and bad is None:
                bad = {"paths": paths, "prior self.cats": prior, "after _read_partitions": str(got), "paths_to_cats(paths)": str(want)}
    res.add("_read_partitions.executed[prior cats lacking / exceeding the current values]", REFUTED if bad else PROVED, bad, 0.0, "enumeration (executed)",
            "the method of the current tree on stub handles: scheme, keys (in order) and value sets == paths_to_cats(current paths) for 7 prior states x 4 path lists")
    return res, n


def run_paths_to_cats_executed():
    """bounded backing of the symbolic paths_to_cats families: the function of the CURRENT tree on hive paths spelled by the oracle"""
    from runtime.harness import import_fastparquet
    import_fastparquet()
    from fastparquet import api
    res = Results()
    n = 0
    for shape, keys in KEY_SHAPES.items():
        bad = None
        for k in keys:
            for other in (None, "id", "z9"):
                for vals in (("a", "b"), ("x y", "p+q", "née")):          # plain texts: no re-typing involved
                    lv = (lambda v: f"{k}={v}") if other is None else (lambda v: f"{k}={v}/{other}=7")
                    paths = [lv(v) + f"/part.{i}.parquet" for i, v in enumerate(vals)]
                    n += 1
                    try:
                        sch, cats = api.paths_to_cats(paths, {})
                        got = (sch, list(cats), {kk: sorted(map(str, vv)) for kk, vv in cats.items()})
                    except Exception as ex:
                        got = f"{type(ex).__name__}: {ex}"
                    want_c = {k: sorted(vals)}
                    if other:
                        want_c[other] = ["7"]
                    want = ("hive", [k] + ([other] if other else []), want_c)
                    if got != want and bad is None:
                        bad = {"paths": paths, "paths_to_cats returns": str(got), "levels spelled as": str(want)}
        res.add(f"paths_to_cats.executed[key: {shape}]", REFUTED if bad else PROVED, bad, 0.0, "enumeration (executed)",
                "api.paths_to_cats of the current tree on hive paths '<key>=<value>[/<key2>=7]/part.N.parquet': scheme 'hive', the keys are the column "
                "names in directory order (ANY name without '/' and '='), one category per directory value")
    return res, n


def check_conventions(ctx, which):
    """`which`: subset of {'hive', 'part_id', 'read_partitions'} -> list of (name, model, detail, fid or None) refuted"""
    out = []

    def family(tag, function, thunk, known=None):
        try:
            res, n = thunk()
        except Unsupported as ex:
            ctx.obligation(tag + ".out_of_reach", function, UNKNOWN, "engine", 0.0, detail=str(ex), sample=True)
            return
        except Exception as ex:
            ctx.obligation(tag + ".out_of_reach", function, UNKNOWN, "engine", 0.0, detail=f"{type(ex).__name__}: {ex}", sample=True)
            return
        ctx.vacuity["covers"] += n
        for name in res.order:
            st = res.status(name)
            e = next((x for x in res.d[name] if x[0] == st), res.d[name][0])
            fid = known(name) if (known and st == REFUTED) else None
            if fid:             # the record of this property (same finding, one record per property it is selected for), else the C05 one
                fid = next((x for x in (fid.replace("C05-", ctx.prop + "-", 1), fid) if ctx.is_known(x)), None)
            if fid:
                ctx.obligation(name, function, "refuted-known", e[3], 0.0, detail=e[4], model=e[1], sample=True)
                ctx.known_finding(fid)
                continue
            ctx.obligation(name, function, st, e[3], 0.0, detail=e[4], model=e[1] if st == REFUTED else None, sample=st != PROVED)
            if st == REFUTED:
                out.append((name, e[1], e[4], function))
    ctx.assumptions += [a for a in CONVENTION_ASSUMED if a not in ctx.assumptions]
    if "hive" in which:
        u, _, _ = parse_module("fastparquet/util.py")
        ctx.function("util.ex_from_sep", u["ex_from_sep"].sha, u["ex_from_sep"].report)
        # keys outside [a-zA-Z_0-9] and the empty value: refuted on the unchanged tree = recorded finding (natively confirmed)
        family("hive_path", "util.ex_from_sep", lambda: run_hive_convention(u),
               known=lambda nm: FID_KEY_REGEX if (nm.startswith("hive_path.regex_and_split_agree[key: ") and "[key: word]" not in nm) or nm.endswith("[value: empty value]") else None)
    if "paths_to_cats" in which:
        family("paths_to_cats.executed", "api.paths_to_cats", run_paths_to_cats_executed)
    if "part_id" in which:
        family("part_id", "api.PART_ID", lambda: run_part_id(parse_module("fastparquet/api.py")[1]))
    if "read_partitions" in which:
        a, _, _ = parse_module("fastparquet/api.py")
        if "ParquetFile._read_partitions" in a:
            ctx.function("api.ParquetFile._read_partitions", a["ParquetFile._read_partitions"].sha, a["ParquetFile._read_partitions"].report)
        family("_read_partitions", "api.ParquetFile._read_partitions", lambda: run_read_partitions(a))
        family("_read_partitions.executed", "api.ParquetFile._read_partitions", run_read_partitions_executed)
    return out


def check(ctx, timeout):
    """-> list of (name, model, detail) refuted"""
    funcs, _, _ = parse_module("fastparquet/util.py")
    f = funcs["analyse_paths"]
    ctx.function("util.analyse_paths", f.sha, f.report)
    out = []
    for with_root in (False, True):         # each family in its own try/except
        tag = "root given" if with_root else "root not given"
        try:
            res, n_ret, vac = run_paths(funcs, timeout, with_root)
        except Unsupported as ex:
            ctx.obligation(f"analyse_paths[{tag}].out_of_reach", "util.analyse_paths", UNKNOWN, "engine", 0.0, detail=str(ex), sample=True)
            continue
        except Exception as ex:            # the proof script itself failed on this source: undecided, never a violation
            ctx.obligation(f"analyse_paths[{tag}].out_of_reach", "util.analyse_paths", UNKNOWN, "engine", 0.0,
                           detail=f"{type(ex).__name__}: {ex}", sample=True)
            continue
        ctx.vacuity["covers"] += n_ret
        for k_, v_ in vac.items():
            ctx.vacuity[k_] += v_
        if not all(vac.values()):
            ctx.engine_error(f"analyse_paths[{tag}]: vacuity guard failed {vac}")
        for name in res.order:
            st = res.status(name)
            e = next((x for x in res.d[name] if x[0] == st), res.d[name][0])
            ctx.obligation(name, "util.analyse_paths", st, e[3], sum(x[2] for x in res.d[name]), detail=e[4],
                           model=e[1] if st == REFUTED else None, sample=(st != PROVED or "longest" in name))
            if st == REFUTED:
                out.append((name, e[1], e[4]))
    # ---- ParquetFile.__init__ root provenance; basepath / row_group_filename executed on fn shapes -------------------------------------
    def family(tag, fn_names, thunk):
        try:
            api, _, _ = parse_module("fastparquet/api.py")
            for q in fn_names:
                if q not in api:
                    raise Unsupported(f"api.{q} no longer exists")
                ctx.function("api." + q, api[q].sha, api[q].report)
            res, n = thunk(api)
        except Unsupported as ex:
            ctx.obligation(tag + ".out_of_reach", "api." + fn_names[0], UNKNOWN, "engine", 0.0, detail=str(ex), sample=True)
            return
        except Exception as ex:
            ctx.obligation(tag + ".out_of_reach", "api." + fn_names[0], UNKNOWN, "engine", 0.0, detail=f"{type(ex).__name__}: {ex}", sample=True)
            return
        ctx.vacuity["covers"] += n
        for name in res.order:
            st = res.status(name)
            e = next((x for x in res.d[name] if x[0] == st), res.d[name][0])
            fnq = "api." + next((q for q in fn_names if q.split(".")[-1] in name), fn_names[0])
            ctx.obligation(name, fnq, st, e[3], 0.0, detail=e[4], model=e[1] if st == REFUTED else None, sample=st != PROVED)
            if st == REFUTED:
                out.append((name, e[1], e[4]))
    family("ParquetFile.__init__", ["ParquetFile.__init__"], lambda api: run_init_root(api, timeout))
    family("ParquetFile.basepath", ["ParquetFile.basepath", "ParquetFile.row_group_filename"], lambda api: run_basepath(api, funcs))
    family("analyse_paths.executed_table", ["ParquetFile.__init__"], lambda api: run_analyse_table(funcs))
    return out
