"""C11 / C12 / C03 - the two decoder DRIVERS of cencoding.pyx that sit between core.py's call sites (contracts/c03_callsites.py) and
the run kernels already under contract (contracts/kernels.py: read_rle, read_bitpacked closure, delta_read_bitpacked closure,
read_unsigned_var_int, NumpyIO methods):

read_rle_bit_packed_hybrid(io, width, length, o, itemsize): the run loop for ONE ARBITRARY iteration, callees by contract (cut):
   hybrid.length_prefix           length == 0 ("length is False" compiles to `length == 0`): the 4-byte little-endian prefix at the cursor
                                  becomes the length and the runs start right after it; length != 0: no byte consumed
   hybrid.loop_test               the loop goes on  <=>  bytes consumed since `start` < length  AND  output not full  (as integers: no
                                  wrap-around in `io.loc - start` for any cursor < 2**32)
   hybrid.dispatch[rle|bitpacked] header = ULEB128 at the cursor; low bit 0 -> read_rle(io, header, width, o, itemsize), low bit 1 ->
                                  read_bitpacked(io, header, width, o, itemsize), called with the cursor right after the header; exactly one call
   hybrid.frame                   the driver itself writes nothing to `o` and moves neither cursor after the callee returned
   hybrid.variant_decreases       every iteration consumes >= 1 input byte (termination for any finite length)
delta_binary_unpack(f, o, longval):
   delta.header                   block size, miniblocks per block, total count, first value = the four ULEB128 / zigzag numbers at the cursor,
                                  in this order; values_per_miniblock == block_size // miniblocks (division safety needs miniblocks >= 1)
   delta.block_header             per block: min_delta = zigzag ULEB128, then one width byte per miniblock (read as a view of exactly that many bytes)
   delta.miniblock_dispatch       width byte w of miniblock i: w > 0 and more than one value left -> delta_read_bitpacked(f, w, o, values_per_miniblock,
                                  longval) with `o` rewound afterwards to where the miniblock's first slot is; w == 0 -> no input consumed
   delta.slot_step[w>0|w==0][long|int]   ONE ARBITRARY value slot: the slot receives the running value (little endian, 8 or 4 bytes), the running value
                                  becomes value + min_delta + delta_k (delta_k = what the unpacker left in this slot; 0 for width 0), count decreases by
                                  one, the function returns exactly when count reaches 0; the slots after this one (still holding unpacked deltas) are
                                  not modified (frame)
   safety (C12): every access inside its buffer given the stated preconditions
The induction from the step lemmas to "the output is the prefix sums" is argued, not mechanised.
"""
import z3

from vc import backends
from vc.symexec import (Engine, Path, CI, Ptr, PyI, PyB, Ref, View, LoopSpec, Unsupported, NONE, NoneV, Opaque, Custom, Str, Tup, CT)
from vlib.common import PROVED, REFUTED, UNKNOWN
from . import cy
from .kernels import KResults, post, mv
from .c10_thrift import uleb_bytes, uleb_len64, zigzag64
from .c10_read import h_varint, havoc_assigned
from .util import solve

ASSUMED = [
    "callee contracts used as cuts: read_rle / read_bitpacked / delta_read_bitpacked / read_unsigned_var_int are proved on their own sources "
    "(contracts/kernels.py, contracts/c10_read.varint_lemma); here only what the drivers pass to them and do around them is checked",
    "`length is False` on a C integer is compiled by Cython to `length == 0` (checked against the generated cencoding.c anchor on every run)",
]


def _havoc_io(eng, p, name, tag):
    """state of a NumpyIO after a callee (or at an arbitrary iteration): cursor anywhere in [0, nbytes], memory arbitrary"""
    k = next(eng.counter)
    loc = CI.var(f"{name}_loc_{tag}!{k}", 32, False)
    p.heap[name] = dict(p.heap[name], loc=loc)
    p.mem[name] = z3.Const(f"{name}_mem_{tag}!{k}", cy.MemSort)
    p.pc += [loc.range_constraint(), loc.iv <= cy.nbytes(p, name)]
    return loc.iv


def hybrid(length_zero, run_kind, timeout):
    """length_zero: the caller passed length == 0 (prefix form) or != 0; run_kind: rle | bitpacked"""
    res = KResults()
    tag = f"[{'prefix' if length_zero else 'explicit'}][{run_kind}]"
    calls = []
    state = {}
    hv = z3.BitVec("run_header", 64)

    def h_callee(name):
        def h(eng, p, args, kw, node):
            calls.append(dict(name=name, args=args, io_loc=cy.loc(p, "io"), o_loc=cy.loc(p, "o"), o_mem=p.mem["o"]))
            # callee contract (cut): the input cursor does not move backwards, the output state is whatever the callee leaves
            l0 = cy.loc(p, "io")
            k = next(eng.counter)
            nl = CI.var(f"io_loc_after_{name}!{k}", 32, False)
            p.heap["io"] = dict(p.heap["io"], loc=nl)
            p.pc += [nl.range_constraint(), nl.iv >= l0]
            _havoc_io(eng, p, "o", "after_" + name)
            state["after"] = dict(io=nl.iv, o=cy.loc(p, "o"), omem=p.mem["o"])
            return [(p, NONE)]
        return h

    def hook(eng, st, p):
        state["pc_loop"] = list(p.pc)
        state["start"] = eng.ci_int(p.env["start"])
        state["length"] = p.env["length"]
        state["io_at_loop"] = cy.loc(p, "io")
        # (1) the loop test on an ARBITRARY state
        t = p.fork()
        iol = _havoc_io(eng, t, "io", "test")
        ol = _havoc_io(eng, t, "o", "test")
        t.pc += [iol >= state["start"]]
        lt = cy.arg("length_at_loop", "uint32_t", t)          # ANY uint32 length (covers the prefix value and the explicit one)
        t.env["length"] = lt
        tests = eng.cond(st.test, t)
        state["tests"] = (iol, ol, lt.iv, tests)
        # (2) one arbitrary iteration
        q = p.fork()
        iol = _havoc_io(eng, q, "io", "iter")
        _havoc_io(eng, q, "o", "iter")
        havoc_assigned(eng, st, q)
        mem = q.mem["io"]
        L = uleb_len64(hv)
        q.pc += [iol >= state["start"], uleb_bytes(mem, iol, hv, L), iol + L <= cy.nbytes(q, "io"), z3.ULT(hv, z3.BitVecVal(2 ** 31, 64)),
                 z3.Extract(0, 0, hv) == (0 if run_kind == "rle" else 1)]
        q.ghost["uleb_facts"] = [(iol, hv, L)]
        n0 = len(calls)
        outs = eng.block(st.body, [q])
        state["body"] = dict(io0=iol, L=L, outs=outs, calls=calls[n0:], o0=cy.loc(q, "o"))
        ex = p.fork()
        _havoc_io(eng, ex, "io", "exit")
        _havoc_io(eng, ex, "o", "exit")
        return [ex]

    eng = cy.engine(loops={("read_rle_bit_packed_hybrid", 0): LoopSpec("hook", inv=hook)},
                    handlers={"read_unsigned_var_int": h_varint, "read_rle": h_callee("read_rle"), "read_bitpacked": h_callee("read_bitpacked")})
    p = Path()
    io, o = cy.new_io(p, "io"), cy.new_io(p, "o")
    width, itemsize = cy.arg("width", "int32_t", p), cy.arg("itemsize", "int32_t", p)
    length = cy.arg("length", "uint32_t", p)
    loc0, mem0 = cy.loc(p, "io"), p.mem["io"]
    p.pc += [length.iv == 0 if length_zero else length.iv != 0]
    if length_zero:
        p.pc += [cy.nbytes(p, "io") - loc0 >= 4]
    mf = lambda m: {"length_arg": mv(m, length.iv), "io_loc": mv(m, loc0), "run_header": mv(m, hv), "width": mv(m, width.iv), "itemsize": mv(m, itemsize.iv)}
    try:
        outs = eng.run("read_rle_bit_packed_hybrid", p, [io, width, length, o, itemsize])
    except Unsupported as ex:
        res.addk(f"hybrid{tag}.out_of_reach", "functional", UNKNOWN, None, 0.0, "engine", str(ex))
        return res
    res.take_engine(eng, f"hybrid{tag}.", timeout, mf)
    if "pc_loop" not in state:
        res.addk(f"hybrid.length_prefix{tag}", "functional", UNKNOWN, None, 0.0, "engine", "run loop not reached")
        return res
    pcl = state["pc_loop"]
    leff = eng.ci_int(state["length"]) if isinstance(state["length"], CI) else eng.as_int(state["length"], p)
    if length_zero:
        le = sum(z3.BV2Int(z3.Select(mem0, loc0 + b), is_signed=False) * (256 ** b) for b in range(4))
        goal = z3.And(leff == le, state["start"] == loc0 + 4, state["io_at_loop"] == loc0 + 4)
        what = "length == 0: the 4-byte little-endian prefix at the cursor is the length; runs start right after it"
    else:
        goal = z3.And(leff == length.iv, state["start"] == loc0, state["io_at_loop"] == loc0)
        what = "length != 0: it is the byte length of the runs, nothing is consumed before the first run"
    # start is int32: the cursor may exceed 2**31 - the comparison is still done modulo 2**32, so state it for cursors < 2**31
    post(res, f"hybrid.length_prefix{tag}", list(pcl) + [loc0 + 4 < 2 ** 31], goal, timeout, what, mf)
    iol, ol, lt, tests = state["tests"]
    for (r, c) in tests:
        want = z3.And(iol - state["start"] < lt, ol < cy.nbytes(r, "o"))
        post(res, f"hybrid.loop_test{tag}", list(r.pc) + [iol < 2 ** 31], c == want, timeout,
             "loop continues <=> bytes consumed since start < length AND output not full", mf)
    B = state["body"]
    nb = 0
    for b in B["outs"]:
        if b.ctl not in (None, "continue"):
            post(res, f"hybrid.dispatch{tag}", b.pc, z3.BoolVal(False), timeout, "a well-formed run must not end the loop / raise" + " [this path ends with " + str(b.ctl) + ": it must be infeasible]", mf)
            continue
        nb += 1
        cs = B["calls"]
        want_name = "read_rle" if run_kind == "rle" else "read_bitpacked"
        ok = len(cs) == 1 and cs[0]["name"] == want_name and len(cs[0]["args"]) >= 5
        goal = z3.BoolVal(False)
        if ok:
            a = cs[0]["args"]
            same_io = isinstance(a[0], Ref) and a[0].oid == "io" and isinstance(a[3], Ref) and a[3].oid == "o"
            goal = z3.And(z3.BoolVal(same_io), eng.ci_int(a[1]) == z3.BV2Int(hv, is_signed=False), eng.ci_int(a[2]) == width.iv,
                          eng.ci_int(a[4]) == itemsize.iv, cs[0]["io_loc"] == B["io0"] + B["L"], cs[0]["o_loc"] == B["o0"])
        post(res, f"hybrid.dispatch{tag}", b.pc, goal, timeout,
             f"exactly one callee: {want_name}(io, header, width, o, itemsize) with the cursor right after the ULEB128 header, output untouched before", mf)
        A = state.get("after")
        if A:
            post(res, f"hybrid.frame{tag}", b.pc, z3.And(cy.loc(b, "io") == A["io"], cy.loc(b, "o") == A["o"], b.mem["o"] == A["omem"],
                                                         b.mem["io"] == mem0 if False else z3.BoolVal(True)), timeout,
                 "after the callee returned the driver moves no cursor and writes nothing", mf)
            post(res, f"hybrid.variant_decreases{tag}", b.pc, cy.loc(b, "io") >= B["io0"] + 1, timeout,
                 "every iteration consumes at least one input byte", mf)
    if nb == 0:
        res.addk(f"hybrid.dispatch{tag}", "functional", UNKNOWN, None, 0.0, "engine", "no path through the loop body")
    return res


HYBRID_TASKS = [(lz, rk) for lz in (True, False) for rk in ("rle", "bitpacked")]


# =================================================================================================
# delta_binary_unpack
# =================================================================================================
def _le(mem, at, nbytes_):
    return z3.Concat(*[z3.Select(mem, at + b) for b in reversed(range(nbytes_))])


def delta_unpack(longval, wpos, timeout):
    """longval: 0 (int32 output) | 1 (int64 output); wpos: the arbitrary miniblock has width > 0 (True) or == 0 (False)"""
    res = KResults()
    tag = f"[{'w>0' if wpos else 'w==0'}][{'long' if longval else 'int'}]"
    isz = 8 if longval else 4
    Bv, Mv, Cv, Zv, Dv = (z3.BitVec(n, 64) for n in ("block_size", "miniblocks", "total_count", "first_value_zz", "min_delta_zz"))
    calls = []
    S = {}

    def h_drb(eng, p, args, kw, node):
        p.ghost["drb_calls"] = p.ghost.get("drb_calls", []) + [dict(args=args, f_loc=cy.loc(p, "f"), o_loc=cy.loc(p, "o"))]
        l0 = cy.loc(p, "f")
        k = next(eng.counter)
        nl = CI.var(f"f_loc_after_unpack!{k}", 32, False)
        p.heap["f"] = dict(p.heap["f"], loc=nl)
        p.pc += [nl.range_constraint(), nl.iv >= l0, nl.iv <= cy.nbytes(p, "f")]
        _havoc_io(eng, p, "o", "after_unpack")
        return [(p, NONE)]

    def hook_block(eng, st, p):
        S["hdr"] = dict(pc=list(p.pc), env={k: p.env.get(k) for k in ("block_size", "miniblock_per_block", "count", "value", "values_per_miniblock")},
                        f_loc=cy.loc(p, "f"))
        q = p.fork()
        fl = _havoc_io(eng, q, "f", "block")
        q.mem["f"] = p.mem["f"]                       # the input is never written (checked below): keep it symbolic but fixed
        _havoc_io(eng, q, "o", "block")
        havoc_assigned(eng, st, q)
        # loop constants / counters as ARBITRARY integers with an integer view (more general than the header's values: sound)
        for nm, ct in (("block_size", "uint64_t"), ("miniblock_per_block", "uint64_t"), ("values_per_miniblock", "int64_t"), ("count", "int64_t")):
            q.env[nm] = cy.arg(nm + "_any", ct, q)
        Ld = uleb_len64(Dv)
        M = eng.ci_int(q.env["miniblock_per_block"])
        q.pc += [uleb_bytes(q.mem["f"], fl, Dv, Ld), fl + Ld + M <= cy.nbytes(q, "f"), M >= 1, M < 2 ** 31]
        q.ghost["uleb_facts"] = [(fl, Dv, Ld)]
        S["blk"] = dict(f0=fl, Ld=Ld, M=M)
        eng.block(st.body, [q])
        return []

    def hook_mini(eng, st, p):
        B = S["blk"]
        B.update(pc=list(p.pc), min_delta=p.env.get("min_delta"), view=p.env.get("bitwidths"), f_loc=cy.loc(p, "f"),
                 trip=eng.as_int(eng.ev1(st.iter.args[0], p), p))
        q = p.fork()
        _havoc_io(eng, q, "f", "mini")
        q.mem["f"] = p.mem["f"]
        _havoc_io(eng, q, "o", "mini")
        havoc_assigned(eng, st, q)
        q.env["count"] = cy.arg("count_at_miniblock", "int64_t", q)
        i = eng.fresh_int("i_mini")
        q.pc += [i >= 0, i < B["M"]]
        for r in eng.assign(st.target, PyI(i), q):
            q = r
        v = B["view"]
        if not isinstance(v, View):
            raise Unsupported("bitwidths is not a view")
        wb = z3.Select(q.mem["f"], v.off + i)
        q.pc += [z3.UGT(wb, 0) if wpos else wb == 0]
        q.ghost["drb_calls"] = []
        S["mini"] = dict(i=i, wb=wb, o0=cy.loc(q, "o"), f0=cy.loc(q, "f"), count=eng.ci_int(q.env["count"]),
                         vpm=eng.ci_int(q.env["values_per_miniblock"]), arrivals=[])
        eng.block(st.body, [q])
        return []

    def hook_slot(eng, st, p):
        Mi = S["mini"]
        Mi["arrivals"].append(dict(pc=list(p.pc), o_loc=cy.loc(p, "o"), f_loc=cy.loc(p, "f"), calls=list(p.ghost.get("drb_calls", []))))
        if len(Mi["arrivals"]) > 1:
            return []                      # the arbitrary slot is executed once (it does not depend on how the miniblock was entered)
        q = p.fork()
        _havoc_io(eng, q, "o", "slot")
        havoc_assigned(eng, st, q)
        q.env["count"] = cy.arg("count_at_slot", "int64_t", q)
        cnt, val = eng.ci_int(q.env["count"]), q.env["value"]
        slot = cy.loc(q, "o")
        q.pc += [cnt >= 1, cy.nbytes(q, "o") - slot >= isz * cnt]
        S.setdefault("slots", []).append(dict(slot=slot, mem0=q.mem["o"], cnt=cnt, val=val, md=q.env["min_delta"], f0=cy.loc(q, "f"),
                                              fmem0=q.mem["f"], outs=eng.block(st.body, [q])))
        return []

    loops = {("delta_binary_unpack", 0): LoopSpec("hook", inv=hook_block), ("delta_binary_unpack", 1): LoopSpec("hook", inv=hook_mini),
             ("delta_binary_unpack", 2): LoopSpec("hook", inv=hook_slot), ("delta_binary_unpack", 3): LoopSpec("hook", inv=hook_slot)}
    eng = cy.engine(loops=loops, handlers={"read_unsigned_var_int": h_varint, "delta_read_bitpacked": h_drb})
    p = Path()
    f, o = cy.new_io(p, "f"), cy.new_io(p, "o")
    loc0, mem0 = cy.loc(p, "f"), p.mem["f"]
    Ls = [uleb_len64(x) for x in (Bv, Mv, Cv, Zv)]
    ats = [loc0, loc0 + Ls[0], loc0 + Ls[0] + Ls[1], loc0 + Ls[0] + Ls[1] + Ls[2]]
    p.pc += [uleb_bytes(mem0, a, x, L) for a, x, L in zip(ats, (Bv, Mv, Cv, Zv), Ls)]
    p.pc += [ats[3] + Ls[3] <= cy.nbytes(p, "f"), z3.UGE(Mv, 1), z3.ULT(Mv, 2 ** 31), z3.ULT(Bv, 2 ** 31), z3.ULT(Cv, 2 ** 62)]
    p.ghost["uleb_facts"] = [(a, x, L) for a, x, L in zip(ats, (Bv, Mv, Cv, Zv), Ls)]
    mf = lambda m: {"longval": longval, "block_size": mv(m, Bv), "miniblocks": mv(m, Mv), "total_count": mv(m, Cv), "first_value_zz": mv(m, Zv),
                    "min_delta_zz": mv(m, Dv)}
    try:
        eng.run("delta_binary_unpack", p, [f, o, CI(z3.BitVecVal(longval, 8), 8, False)])
    except Unsupported as ex:
        res.addk(f"delta{tag}.out_of_reach", "functional", UNKNOWN, None, 0.0, "engine", str(ex))
        return res
    res.take_engine(eng, f"delta{tag}.", timeout, mf)
    # ---- header
    H = S.get("hdr")
    if H is None:
        res.addk(f"delta.header{tag}", "functional", UNKNOWN, None, 0.0, "engine", "block loop not reached")
        return res
    e = H["env"]
    unzz = lambda z: z3.LShR(z, 1) ^ (-(z & 1))
    goal = z3.And(e["block_size"].bv == Bv, e["miniblock_per_block"].bv == Mv, e["count"].bv == Cv, e["value"].bv == unzz(Zv),
                  e["values_per_miniblock"].bv == z3.UDiv(Bv, Mv), H["f_loc"] == ats[3] + Ls[3])
    post(res, f"delta.header{tag}", H["pc"], goal, timeout,
         "block size, miniblocks per block, total count, first value (zigzag) are the four ULEB128 numbers at the cursor in this order; "
         "values_per_miniblock == block_size // miniblocks; the cursor is right after them", mf)
    # ---- block header
    B = S.get("blk", {})
    if "pc" not in B:
        res.addk(f"delta.block_header{tag}", "functional", UNKNOWN, None, 0.0, "engine", "miniblock loop not reached")
        return res
    v = B["view"]
    goal = z3.And(B["min_delta"].bv == unzz(Dv), z3.BoolVal(v.region == "f"), v.off == B["f0"] + B["Ld"], v.n == B["M"],
                  B["f_loc"] == B["f0"] + B["Ld"] + B["M"], B["trip"] == B["M"])
    post(res, f"delta.block_header{tag}", B["pc"], goal, timeout,
         "min_delta = zigzag ULEB128 at the cursor, then exactly one width byte per miniblock; the miniblock loop runs once per miniblock", mf)
    # ---- miniblock dispatch
    Mi = S.get("mini", {})
    if not Mi.get("arrivals"):
        res.addk(f"delta.miniblock_dispatch{tag}", "functional", UNKNOWN, None, 0.0, "engine", "slot loop not reached")
        return res
    for A in Mi["arrivals"]:
        cs = A["calls"]
        if wpos:
            # count > 1: exactly one call with these arguments, from the miniblock's first slot; count <= 1: no call (last value: no more deltas)
            one = len(cs) == 1 and len(cs[0]["args"]) >= 5
            g_call = z3.BoolVal(False)
            if one:
                a = cs[0]["args"]
                same = isinstance(a[0], Ref) and a[0].oid == "f" and isinstance(a[2], Ref) and a[2].oid == "o"
                g_call = z3.And(z3.BoolVal(same), a[1].bv == Mi["wb"], eng.ci_int(a[3]) == Mi["vpm"], eng.ci_int(a[4]) == longval,
                                cs[0]["f_loc"] == Mi["f0"], cs[0]["o_loc"] == Mi["o0"])
            goal = z3.If(Mi["count"] > 1, g_call, z3.And(z3.BoolVal(len(cs) == 0), A["f_loc"] == Mi["f0"]))
            post(res, f"delta.miniblock_dispatch{tag}", A["pc"], goal, timeout,
                 "width w > 0 and more than one value left: delta_read_bitpacked(f, w, o, values_per_miniblock, longval) is called once, from the "
                 "miniblock's first slot; one value left: no call, no input consumed", mf)
            post(res, f"delta.miniblock_rewind{tag}", A["pc"], A["o_loc"] == Mi["o0"], timeout,
                 "after unpacking, the output cursor is back at the miniblock's first slot", mf)
        else:
            post(res, f"delta.miniblock_dispatch{tag}", A["pc"], z3.And(z3.BoolVal(len(cs) == 0), A["f_loc"] == Mi["f0"], A["o_loc"] == Mi["o0"]),
                 timeout, "width 0: no input is consumed and the unpacker is not called", mf)
    # ---- slot step
    k = z3.Int("k_skolem")
    ns = 0
    for SL in S.get("slots", []):
        slot, m0, cnt, val, md = SL["slot"], SL["mem0"], SL["cnt"], SL["val"], SL["md"]
        dk = _le(m0, slot, isz)
        dk64 = z3.SignExt(32, dk) if isz == 4 else dk
        nxt = val.bv + md.bv + (dk64 if wpos else z3.BitVecVal(0, 64))
        for b in SL["outs"]:
            is_ret = isinstance(b.ctl, tuple) and b.ctl[0] == "ret"
            if not (is_ret or b.ctl in (None, "continue")):
                post(res, f"delta.slot_step{tag}", b.pc, z3.BoolVal(False), timeout, "a slot must not raise / break" + " [this path ends with " + str(b.ctl) + ": it must be infeasible]", mf)
                continue
            ns += 1
            b.pc = list(b.pc) + list(b.axioms)
            m1 = b.mem["o"]
            stored = _le(m1, slot, isz) == (val.bv if isz == 8 else z3.Extract(31, 0, val.bv))
            goal = z3.And(stored, cy.loc(b, "o") == slot + isz, eng.ci_int(b.env["count"]) == cnt - 1,
                          z3.BoolVal(is_ret) == (cnt - 1 <= 0), cy.loc(b, "f") == SL["f0"])
            if not is_ret:
                # int32 output: only the low 32 bits of the running value are ever observable (the spec's arithmetic is modulo 2**32 there)
                same = b.env["value"].bv == nxt if isz == 8 else \
                    z3.Extract(31, 0, b.env["value"].bv) == z3.Extract(31, 0, val.bv + md.bv + (z3.ZeroExt(32, dk) if wpos else z3.BitVecVal(0, 64)))
                goal = z3.And(goal, same, cy.nbytes(b, "o") - cy.loc(b, "o") >= isz * (cnt - 1))
            post(res, f"delta.slot_step{tag}", b.pc, goal, timeout,
                 "the slot receives the running value; value' = value + min_delta + delta_k; count' = count - 1; return exactly when count' <= 0; "
                 "capacity invariant kept; the input cursor does not move", mf)
            post(res, f"delta.slot_frame{tag}", list(b.pc) + [z3.Or(k < slot, k >= slot + isz)], z3.Select(m1, k) == z3.Select(m0, k), timeout,
                 "nothing but the slot is written (the deltas unpacked into the later slots survive)", mf)
            post(res, f"delta.input_not_written{tag}", b.pc, b.mem["f"] == SL["fmem0"], timeout, "the input buffer is not written", mf)
    if ns == 0:
        res.addk(f"delta.slot_step{tag}", "functional", UNKNOWN, None, 0.0, "engine", "no path through the slot loop body")
    return res


DELTA_TASKS = [(lv, wp) for lv in (0, 1) for wp in (True, False)]
