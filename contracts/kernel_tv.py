"""Translation validation of the Cython front end + C semantics (DESIGN 3.1): every extracted kernel is executed
on concrete inputs THROUGH THE SAME EXECUTOR that generates the verification conditions (all values z3 constants,
results obtained by simplification) and by the compiled extension; outputs, buffer contents and cursors must agree.
A disagreement is an ENGINE failure (exit 3), never a property violation."""
import random

import numpy as np
import z3

from vc.symexec import Path, CI, Ptr, View, Ref, PyI, LoopSpec, Unsupported
from . import cy


def _cio(p, name, data, loc):
    n = len(data)
    mem = z3.K(z3.IntSort(), z3.BitVecVal(0, 8))
    for i, b in enumerate(data):
        mem = z3.Store(mem, i, z3.BitVecVal(int(b), 8))
    p.heap[name] = {"loc": CI(z3.BitVecVal(loc, 32), 32, False, z3.IntVal(loc), (loc, loc)),
                    "nbytes": CI(z3.BitVecVal(n, 32), 32, False, z3.IntVal(n), (n, n)),
                    "ptr": Ptr(name, z3.IntVal(0)), "data": View(name, z3.IntVal(0), z3.IntVal(n))}
    p.mem[name] = mem
    p.rsize[name] = z3.IntVal(n)
    return Ref(name, "NumpyIO")


def _read_io(q, name, n):
    mem = q.mem[name]
    out = bytes(z3.simplify(z3.Select(mem, i)).as_long() for i in range(n))
    loc = z3.simplify(q.heap[name]["loc"].iv if q.heap[name]["loc"].iv is not None else z3.BV2Int(q.heap[name]["loc"].bv, False))
    return out, loc.as_long()


def _c(v, ctype="int32_t"):
    from vc.symexec import CT
    bits, sg = CT[ctype]
    return CI(z3.BitVecVal(v, bits), bits, sg, z3.IntVal(v), (v, v))


BIG = 64
LOOPS = {
    ("read_rle", 0): LoopSpec("unroll", 4), ("read_rle", 1): LoopSpec("unroll", BIG * 2), ("read_rle", 2): LoopSpec("unroll", BIG * 2),
    ("read_bitpacked1", 0): LoopSpec("unroll", BIG), ("read_bitpacked1", 1): LoopSpec("unroll", 8), ("read_bitpacked1", 2): LoopSpec("unroll", 8),
    ("read_bitpacked", 0): LoopSpec("unroll", 4000),
    ("read_unsigned_var_int", 0): LoopSpec("unroll", 11), ("encode_unsigned_varint", 0): LoopSpec("unroll", 11),
    ("width_from_max_int", 0): LoopSpec("unroll", 64),
    ("read_rle_bit_packed_hybrid", 0): LoopSpec("unroll", 200),
    ("encode_bitpacked", 0): LoopSpec("unroll", 200), ("encode_bitpacked", 1): LoopSpec("unroll", 8),
}


def run_concrete(func, args_fn):
    eng = cy.engine(loops=LOOPS)
    eng.feas_timeout = 2000
    p = Path()
    args = args_fn(p)
    outs = eng.run(func, p, args)
    outs = [q for q in outs if q.ctl and q.ctl[0] == "ret"]
    if len(outs) != 1:
        raise Unsupported(f"{func}: {len(outs)} concrete paths")
    return outs[0]


def validate(seed=0, n_per=25):
    """-> (functions, inputs, mismatches list)"""
    from runtime.harness import import_fastparquet
    import_fastparquet()
    from fastparquet import cencoding as ce
    rnd = random.Random(seed)
    mism, n_in = [], 0
    funcs = set()

    def rb(n):
        return bytes(rnd.choice([0, 1, 0x7F, 0x80, 0xFF, rnd.randrange(256)]) for _ in range(n))
    # read_rle
    for _ in range(n_per):
        bw = rnd.choice([0, 1, 7, 8, 9, 16, 17, 24, 31, 32])
        item = rnd.choice([1, 4]) if bw <= 8 else 4
        cnt = rnd.choice([0, 1, 2, 7, 9])
        cap = rnd.choice([0, 1, cnt, cnt + 1, max(0, cnt - 1)])
        inb, oloc, floc = rb(6), rnd.choice([0, 3]), rnd.choice([0, 1])
        ob = bytes([0xAA] * (oloc + cap * item + rnd.choice([0, 1, 3])))
        header = cnt << 1
        q = run_concrete("read_rle", lambda p: [_cio(p, "f", inb, floc), _c(header), _c(bw), _cio(p, "o", ob, oloc), _c(item)])
        got = (_read_io(q, "o", len(ob)), _read_io(q, "f", len(inb))[1])
        f_, o_ = ce.NumpyIO(np.frombuffer(inb, "uint8").copy()), ce.NumpyIO(np.frombuffer(ob, "uint8").copy())
        f_.seek(floc); o_.seek(oloc)
        ce.read_rle(f_, header, bw, o_, item)
        real = ((bytes(np.asarray(o_.so_far())[:0].tobytes()) or b"") and None, None)
        o_all = _whole(o_, len(ob))
        real = ((o_all, o_.tell()), f_.tell())
        n_in += 1
        funcs.add("read_rle")
        if got != real:
            mism.append(("read_rle", dict(bw=bw, item=item, cnt=cnt, cap=cap, inb=inb.hex(), oloc=oloc, floc=floc), str(got), str(real)))
    # read_bitpacked1
    for _ in range(n_per):
        cnt = rnd.choice([0, 1, 7, 8, 9, 15, 16, 17])
        cap = rnd.choice([0, cnt, cnt + 1, max(0, cnt - 1), 3])
        inb, ob = rb(4), bytes([0xAA] * cap)
        q = run_concrete("read_bitpacked1", lambda p: [_cio(p, "f", inb, 0), _c(cnt), _cio(p, "o", ob, 0)])
        got = (_read_io(q, "o", len(ob)), _read_io(q, "f", len(inb))[1])
        f_, o_ = ce.NumpyIO(np.frombuffer(inb, "uint8").copy()), ce.NumpyIO(np.frombuffer(ob, "uint8").copy() if cap else np.zeros(0, "uint8"))
        if cap == 0:
            continue
        ce.read_bitpacked1(f_, cnt, o_)
        real = ((_whole(o_, len(ob)), o_.tell()), f_.tell())
        n_in += 1
        funcs.add("read_bitpacked1")
        if got != real:
            mism.append(("read_bitpacked1", dict(cnt=cnt, cap=cap, inb=inb.hex()), str(got), str(real)))
    # read_bitpacked (widths where the code is defined behaviour: 1..24)
    for _ in range(n_per):
        w = rnd.choice([1, 2, 3, 5, 7, 8, 9, 12, 15, 16, 17, 23, 24])
        item = rnd.choice([1, 4]) if w <= 8 else 4
        g = rnd.choice([1, 2])
        cap = rnd.choice([8 * g, 8 * g + 1, 8 * g - 1, 3])
        inb, ob = rb(g * w + 2), bytes([0xAA] * (cap * item + 2))
        header = (g << 1) | 1
        q = run_concrete("read_bitpacked", lambda p: [_cio(p, "f", inb, 0), _c(header), _c(w), _cio(p, "o", ob, 0), _c(item)])
        got = (_read_io(q, "o", len(ob)), _read_io(q, "f", len(inb))[1])
        f_, o_ = ce.NumpyIO(np.frombuffer(inb, "uint8").copy()), ce.NumpyIO(np.frombuffer(ob, "uint8").copy())
        # capacity is what remains in the output buffer: emulate `cap` items by the buffer length
        ce.read_bitpacked(f_, header, w, o_, item)
        real = ((_whole(o_, len(ob)), o_.tell()), f_.tell())
        n_in += 1
        funcs.add("read_bitpacked")
        if got != real:
            mism.append(("read_bitpacked", dict(w=w, item=item, g=g, inb=inb.hex(), cap_bytes=len(ob)), str(got), str(real)))
    # varints
    for _ in range(n_per):
        x = rnd.choice([0, 1, 127, 128, 300, 2 ** 14, 2 ** 32 - 1, 2 ** 35, 2 ** 63, 2 ** 64 - 1, rnd.getrandbits(64)])
        cap = rnd.choice([0, 1, 2, 10, 11])
        ob = bytes([0xAA] * cap)
        q = run_concrete("encode_unsigned_varint", lambda p: [CI(z3.BitVecVal(x, 64), 64, False, z3.IntVal(x), (x, x)), _cio(p, "o", ob, 0)])
        got = _read_io(q, "o", len(ob))
        if cap:
            o_ = ce.NumpyIO(np.frombuffer(ob, "uint8").copy())
            ce.encode_unsigned_varint(x, o_)
            real = (_whole(o_, len(ob)), o_.tell())
            n_in += 1
            funcs.add("encode_unsigned_varint")
            if got != real:
                mism.append(("encode_unsigned_varint", dict(x=x, cap=cap), str(got), str(real)))
            if cap >= 10:
                enc = real[0]
                q = run_concrete("read_unsigned_var_int", lambda p: [_cio(p, "f", enc, 0)])
                r = z3.simplify(q.ctl[1].bv).as_long()
                f_ = ce.NumpyIO(np.frombuffer(enc, "uint8").copy())
                rr = ce.read_unsigned_var_int(f_)
                n_in += 1
                funcs.add("read_unsigned_var_int")
                if (r, _read_io(q, "f", len(enc))[1]) != (rr, f_.tell()):
                    mism.append(("read_unsigned_var_int", dict(enc=enc.hex()), str(r), str(rr)))
    # width_from_max_int
    for v in [0, 1, 2, 3, 255, 256, 2 ** 31, 2 ** 62, 2 ** 63 - 1] + [rnd.getrandbits(rnd.randrange(1, 63)) for _ in range(8)]:
        q = run_concrete("width_from_max_int", lambda p: [CI(z3.BitVecVal(v, 64), 64, True, z3.IntVal(v), (v, v))])
        r = z3.simplify(q.ctl[1].bv).as_long()
        n_in += 1
        funcs.add("width_from_max_int")
        if r != ce.width_from_max_int(v):
            mism.append(("width_from_max_int", dict(v=v), str(r), str(ce.width_from_max_int(v))))
    return sorted(funcs), n_in, mism


def _whole(io, n):
    pos = io.tell()
    io.seek(n)
    b = bytes(np.asarray(io.so_far()).tobytes())
    io.seek(pos)
    return b
